#!/usr/bin/env python3
"""print Go sources without comments, blank lines and String() methods (reading aid)"""
import sys,re
for f in sys.argv[1:]:
    print("#### "+f)
    src=open(f).read()
    out=[];skip=False
    for line in src.split('\n'):
        if re.match(r'^func \(.*\) String\(\) string \{',line): skip=True
        if not skip:
            s=line.strip()
            if s.startswith('//') or s=='' : continue
            if re.match(r'^func \(.*\) (GetSequenceID|SetSequenceID)\(',line): skip=True; continue
            out.append(line)
        if skip and line.startswith('}'): skip=False
    print('\n'.join(out))
