#!/bin/sh
# run tools/seedcheck.sh for the rows of a table: "<prop> <m> <demodir> <demo command>|<checks to run>"
# seed directories: ${SEEDROOT:-/tmp}/seed_<prop>_out/<m> (or /verif/seeded/<prop>-<m> when SEEDROOT=/verif/seeded)
while IFS= read -r line; do
  [ -z "$line" ] && continue
  left=${line%%|*}; checks=${line##*|}
  prop=$(echo "$left" | cut -d' ' -f1); m=$(echo "$left" | cut -d' ' -f2); dir=$(echo "$left" | cut -d' ' -f3); cmd=$(echo "$left" | cut -d' ' -f4-)
  if [ "${SEEDROOT:-/tmp}" = "/verif/seeded" ]; then D=/verif/seeded/$prop-$m; else D=${SEEDPFX:-/tmp/seed}_${prop}_out/$m; fi
  demo=$(ls $D/demo*.go 2>/dev/null | head -1)
  echo "######## $prop $m  (checks: $checks)"
  DEMO=$demo DEMODIR=$dir DEMOCMD="$cmd" ${VERIF_HOME:-/verif}/tools/seedcheck.sh $D/patch.diff ${prop}${m} $checks 2>&1 | egrep "demo|repo tests|FAIL|^OK|^VIOLATION|INFRA|tag=|BUILD|apply" | cut -c1-170
done
