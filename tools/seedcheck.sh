#!/bin/sh
# seedcheck.sh <patch.diff> <name> <prop> [prop...]: apply a seeded change to a scratch worktree of /repo,
# run the repository's tests there, run the demonstration with and without the change, then run the named
# checks against it (VERIF_REPO), then remove the worktree.
#   DEMO=<demo file> DEMODIR=<package dir relative to the repo root> DEMOCMD="go test ./pkg -run X -count=1"
set -u
PATCH=$1; NAME=$2; shift 2
export GOFLAGS=-mod=mod GOPROXY=off GOSUMDB=off GOTOOLCHAIN=local
W=/tmp/sc_${SCPFX:-}$NAME
git -C /repo worktree prune
rm -rf "$W"; git -C /repo worktree add -q --detach "$W" || exit 2
cd "$W"
rundemo() {
  if [ -n "${DEMO:-}" ]; then
    mkdir -p "$W/${DEMODIR:-.}"
    case "$DEMO" in *_test.go) T="$W/${DEMODIR:-.}/zz_seed_demo_test.go";; *) T="$W/${DEMODIR:-.}/$(basename "$DEMO")";; esac
    cp "$DEMO" "$T"
    sh -c "$DEMOCMD" >/tmp/sc_$NAME.demo.$1 2>&1; echo "demo $1 change: exit $?"
    rm -f "$T"
  fi
}
rundemo without
git apply "$PATCH" || { echo "patch does not apply"; cd /; git -C /repo worktree remove --force "$W"; exit 2; }
go build ./... || echo "DOES NOT BUILD"
[ -n "${SKIPTESTS:-}" ] || { echo "repo tests with change (failures listed):"; go test -count=1 $(go list ./... | grep -v sgip/sgip12) 2>&1 | grep -v "^ok\|no test files" | head -10; }
rundemo with
cd ${VERIF_HOME:-/verif}
for p in "$@"; do
  VERIF_REPO=$W bin/check $p --tier ${TIER:-quick} 2>&1 | egrep "^OK|^VIOLATION|INFRA|tag=" | cut -c1-200
done
git -C /repo worktree remove --force "$W"
