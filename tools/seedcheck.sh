#!/bin/sh
# seedcheck.sh <patch.diff> <name> <prop> [prop...]: apply a seeded change to a scratch worktree of /repo,
# run the repository's tests there, then run the named checks against it (VERIF_REPO), then remove the worktree.
# Extra: DEMO=<file> DEMODIR=<pkg dir relative to repo> DEMOCMD="go test -run X ./pkg" runs the demonstration
# with and without the change.
set -u
PATCH=$1; NAME=$2; shift 2
export GOFLAGS=-mod=mod GOPROXY=off GOSUMDB=off GOTOOLCHAIN=local
W=/tmp/sc_$NAME
git -C /repo worktree prune
rm -rf "$W"; git -C /repo worktree add -q --detach "$W" || exit 2
cd "$W"
if [ -n "${DEMO:-}" ]; then
  cp "$DEMO" "$W/${DEMODIR:-.}/" && (sh -c "$DEMOCMD" >/tmp/sc_$NAME.demo0 2>&1; echo "demo without change: exit $?")
fi
git apply "$PATCH" || { echo "patch does not apply"; cd /; git -C /repo worktree remove --force "$W"; exit 2; }
go build ./... || { echo "does not build"; }
echo "repo tests with change:"; go test -count=1 $(go list ./... | grep -v sgip/sgip12) 2>&1 | grep -v "^ok\|no test files" | head -10; echo "(end of failures)"
if [ -n "${DEMO:-}" ]; then
  (sh -c "$DEMOCMD" >/tmp/sc_$NAME.demo1 2>&1; echo "demo with change: exit $?")
  rm -f "$W/${DEMODIR:-.}/$(basename "$DEMO")"
fi
cd /verif
for p in "$@"; do
  VERIF_REPO=$W bin/check $p --tier ${TIER:-quick} 2>&1 | egrep "^OK|^VIOLATION|^KNOWN|INFRA|tag=" | cut -c1-260
done
git -C /repo worktree remove --force "$W"
