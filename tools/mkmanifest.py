#!/usr/bin/env python3
"""Regenerate MANIFEST.json from lib/checks.py (single source of truth)."""
import json, os, sys
sys.path.insert(0, os.path.join(os.path.dirname(os.path.dirname(os.path.abspath(__file__))), "lib"))
from checks import CHECKS, NOT_CLAIMED, HOOK_COMMITS

props = [json.loads(l)["id"] for l in open("/verif/properties.jsonl")]
checks = []
for pid in props:
    if pid not in CHECKS:
        continue
    c = CHECKS[pid]
    checks.append(dict(
        property_id=pid,
        quick_cmd="bin/check %s --tier quick" % pid,
        thorough_cmd="bin/check %s --tier thorough" % pid,
        evidence_file="/verif/evidence/%s.json" % pid,
        replay_cmd_template="bin/check %s --replay {path}" % pid,
        engine="tlc-trace",
        level_claimed=dict(category="model_checking", text=c["level_text"], design_ref=c.get("design_ref", "DESIGN.md §5 " + pid)),
        level_note=c["level_note"],
        technique=c["technique"],
    ))
na = [dict(property_id=p, reason=NOT_CLAIMED.get(p, "no check built yet; see DESIGN.md")) for p in props if p not in CHECKS]
m = dict(
    version=1,
    setup_cmd="bin/setup",
    hooks=dict(guard="verif (Go build tag)", enable="go build -tags verif (the harness module replaces the library with /repo)",
               baseline_off_cmd="bin/baseline_off", source_commits=HOOK_COMMITS, add_only=True),
    engines=[dict(name="tlc-trace", path="bin/check",
                  serves_properties=[c["property_id"] for c in checks],
                  kind_free_text="explicit TLA+ specification (spec/*.tla): TLC exhaustive small-scope model checking of each "
                                 "mechanism + TLC trace validation of executions recorded from the real Go code by harness/ "
                                 "(and replay of TLC-generated behaviours into the real code)")],
    checks=checks,
    notes="Every check: (1) TLC explores the mechanism's specification exhaustively at small scope (MC_*.cfg; negative "
          "configurations must fail), (2) the Go harness executes generated cases against the current /repo tree and records "
          "one event per public call, (3) TLC validates every recorded step against the specification (Trace_*.tla), "
          "(4) every candidate violation is re-executed in a fresh process and re-validated before it is reported. "
          "known_findings.json lists recorded genuine defects.",
    not_applicable=na,
)
json.dump(m, open("/verif/MANIFEST.json", "w"), indent=1)
print("checks:", [c["property_id"] for c in checks], "not claimed:", [x["property_id"] for x in na])
