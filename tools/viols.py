#!/usr/bin/env python3
"""group VIOL lines of a TLC trace-validation output by (tags, site): viols.py out.txt trace.ndjson"""
import sys,re,json,collections
out=open(sys.argv[1]).read()
lines=open(sys.argv[2]).read().split('\n')
g=collections.Counter(); ex={}
for m in re.finditer(r'<<\s*"VIOL",\s*(-?\d+),\s*(\d+),\s*\{([^}]*)\}\s*>>',out,re.S):
    e=json.loads(lines[int(m.group(2))-1])
    k=(m.group(3).replace('\n',' '),e.get('site',e.get('ev')))
    g[k]+=1; ex.setdefault(k,int(m.group(2)))
for k,v in sorted(g.items(), key=lambda x:(x[0][1],x[0][0])):
    print(v,k[1],k[0],'line',ex[k])
