#!/usr/bin/env python3
"""Wire layouts of the 57 PDU types + the CMPP status-report body, transcribed from the
protocol documents in /repo/doc (section cited per type).  This file is the single source:
it writes spec/Layouts.tla (the TLA+ constant the specification uses) and
harness/layouts.json (field name -> Go struct path, used only by the reflection
projector of the harness; widths/kinds in it are NOT used to judge anything).

field = (name, kind, width, go path)
kinds: U  unsigned integer, big-endian, width octets
       F  fixed-width octet string slot, NUL padded (read: cut at first NUL)
       FB fixed-width binary slot (all octet values, exactly width octets)
       FH as FB on the wire; the Go struct holds the hex text of the octets
       C  C-octet string, NUL terminated
       N  U8 count of the following list            (width 1)
       L  list of F slots of `width` octets, count given by the preceding N
       Z  length of the following body               (width 1 or 4)
       B  body octets, length given by the preceding Z
       T  SMPP optional parameters (TLV) to the end of the PDU
       O  SMGP optional parameters to the end of the PDU
"""
import json, os

H3 = [("cmd", "U", 4, "Header.CommandID"), ("seq", "U", 4, "Header.SequenceID")]           # CMPP / SMGP: len, cmd, seq
HS = [("cmd", "U", 4, "Header.ID"), ("status", "U", 4, "Header.Status"), ("seq", "U", 4, "Header.Sequence")]  # SMPP 3.4 §3.2
HG = [("cmd", "U", 4, "Header.CommandID"), ("seq1", "U", 4, "Header.Sequence[0]"),
      ("seq2", "U", 4, "Header.Sequence[1]"), ("seq3", "U", 4, "Header.Sequence[2]")]      # SGIP 1.2 §4.1

def U(n, w, g=None): return (n, "U", w, g or n)
def F(n, w, g=None): return (n, "F", w, g or n)

L = {}
# ---------------------------------------------------------------- CMPP 2.0 (doc §7.4)
L["cmpp20.PduConnect"] = (0x00000001, H3 + [F("SourceAddr", 6), ("AuthenticatorSource", "FB", 16, "AuthenticatorSource"), U("Version", 1), U("Timestamp", 4)])
L["cmpp20.PduConnectResp"] = (0x80000001, H3 + [U("Status", 1), ("AuthenticatorISMG", "FB", 16, "AuthenticatorISMG"), U("Version", 1)])
L["cmpp20.PduTerminate"] = (0x00000002, H3)
L["cmpp20.PduTerminateResp"] = (0x80000002, H3)
L["cmpp20.PduSubmit"] = (0x00000004, H3 + [U("MsgID", 8), U("PkTotal", 1), U("PkNumber", 1), U("RegisteredDelivery", 1), U("MsgLevel", 1),
    F("ServiceID", 10), U("FeeUserType", 1), F("FeeTerminalID", 21), U("TpPID", 1), U("TpUDHI", 1), U("MsgFmt", 1), F("MsgSrc", 6),
    F("FeeType", 2), F("FeeCode", 6), F("ValIDTime", 17), F("AtTime", 17), F("SrcID", 21),
    ("DestUsrTL", "N", 1, "DestUsrTL"), ("DestTerminalID", "L", 21, "DestTerminalID"),
    ("MsgLength", "Z", 1, "MsgLength"), ("MsgContent", "B", 0, "MsgContent"), F("Reserve", 8)])
L["cmpp20.PduSubmitResp"] = (0x80000004, H3 + [U("MsgID", 8), U("Result", 1)])
L["cmpp20.PduDeliver"] = (0x00000005, H3 + [U("MsgID", 8), F("DestID", 21), F("ServiceID", 10), U("TpPID", 1), U("TpUDHI", 1), U("MsgFmt", 1),
    F("SrcTerminalID", 21), U("RegisteredDeliver", 1), ("MsgLength", "Z", 1, "MsgLength"), ("MsgContent", "B", 0, "MsgContent"), F("Reserved", 8)])
L["cmpp20.PduDeliverResp"] = (0x80000005, H3 + [U("MsgID", 8), U("Result", 1)])
L["cmpp20.PduQuery"] = (0x00000006, H3 + [F("Time", 8), U("QueryType", 1), F("QueryCode", 10), F("Reserve", 8)])
L["cmpp20.PduQueryResp"] = (0x80000006, H3 + [F("Time", 8), U("QueryType", 1), F("QueryCode", 10), U("MtTLMsg", 4), U("MtTlUsr", 4),
    U("MtScs", 4), U("MtWT", 4), U("MtFL", 4), U("MoScs", 4), U("MoWT", 4), U("MoFL", 4)])
L["cmpp20.PduActiveTest"] = (0x00000008, H3)
L["cmpp20.PduActiveTestResp"] = (0x80000008, H3 + [U("Reserved", 1)])
# ---------------------------------------------------------------- CMPP 3.0 (doc §7.4)
L["cmpp30.Connect"] = (0x00000001, H3 + [F("SourceAddr", 6), ("AuthenticatorSource", "FB", 16, "AuthenticatorSource"), U("Version", 1), U("Timestamp", 4)])
L["cmpp30.ConnectResp"] = (0x80000001, H3 + [U("Status", 4), ("AuthenticatorISMG", "FB", 16, "AuthenticatorISMG"), U("Version", 1)])
L["cmpp30.Terminate"] = (0x00000002, H3)
L["cmpp30.TerminateResp"] = (0x80000002, H3)
L["cmpp30.Submit"] = (0x00000004, H3 + [U("MsgID", 8), U("PkTotal", 1), U("PkNumber", 1), U("RegisteredDelivery", 1), U("MsgLevel", 1),
    F("ServiceID", 10), U("FeeUserType", 1), F("FeeTerminalID", 32), U("FeeTerminalType", 1), U("TpPID", 1), U("TpUDHI", 1), U("MsgFmt", 1),
    F("MsgSrc", 6), F("FeeType", 2), F("FeeCode", 6), F("ValiDTime", 17), F("AtTime", 17), F("SrcID", 21),
    ("DestUsrTL", "N", 1, "DestUsrTL"), ("DestTerminalID", "L", 32, "DestTerminalID"), U("DestTerminalType", 1),
    ("MsgLength", "Z", 1, "MsgLength"), ("MsgContent", "B", 0, "MsgContent"), F("LinkID", 20)])
L["cmpp30.SubmitResp"] = (0x80000004, H3 + [U("MsgID", 8), U("Result", 4)])
L["cmpp30.Deliver"] = (0x00000005, H3 + [U("MsgID", 8), F("DestID", 21), F("ServiceID", 10), U("TpPID", 1), U("TpUDHI", 1), U("MsgFmt", 1),
    F("SrcTerminalID", 32), U("SrcTerminalType", 1), U("RegisteredDeliver", 1), ("MsgLength", "Z", 1, "MsgLength"), ("MsgContent", "B", 0, "MsgContent"), F("LinkID", 20)])
L["cmpp30.DeliverResp"] = (0x80000005, H3 + [U("MsgID", 8), U("Result", 4)])
L["cmpp30.Query"] = (0x00000006, H3 + [F("Time", 8), U("QueryType", 1), F("QueryCode", 10), F("Reserve", 8)])
L["cmpp30.QueryResp"] = (0x80000006, H3 + [F("Time", 8), U("QueryType", 1), F("QueryCode", 10), U("MtTLMsg", 4), U("MtTlUsr", 4),
    U("MtScs", 4), U("MtWT", 4), U("MtFL", 4), U("MoScs", 4), U("MoWT", 4), U("MoFL", 4)])
L["cmpp30.Cancel"] = (0x00000007, H3 + [U("MsgID", 8)])
L["cmpp30.CancelResp"] = (0x80000007, H3 + [U("SuccessID", 4)])
L["cmpp30.ActiveTest"] = (0x00000008, H3)
L["cmpp30.ActiveTestResp"] = (0x80000008, H3 + [U("Reserved", 1)])
# ---------------------------------------------------------------- SGIP 1.2 (doc §4.2)
L["sgip12.Bind"] = (0x00000001, HG + [U("Type", 1), F("Name", 16), F("Password", 16), F("Reserved", 8)])
L["sgip12.BindResp"] = (0x80000001, HG + [U("Result", 1), F("Reserved", 8)])
L["sgip12.Unbind"] = (0x00000002, HG)
L["sgip12.UnbindResp"] = (0x80000002, HG)
L["sgip12.Submit"] = (0x00000003, HG + [F("SpNumber", 21), F("ChargeNumber", 21), ("UserCount", "N", 1, "UserCount"), ("UserNumber", "L", 21, "UserNumber"),
    F("CorpID", 5), F("ServiceType", 10), U("FeeType", 1), F("FeeValue", 6), F("GivenValue", 6), U("AgentFlag", 1), U("MorelatetoMTFlag", 1),
    U("Priority", 1), F("ExpireTime", 16), F("ScheduleTime", 16), U("ReportFlag", 1), U("TpPid", 1), U("TpUdhi", 1), U("MessageCoding", 1),
    U("MessageType", 1), ("MessageLength", "Z", 4, "MessageLength"), ("MessageContent", "B", 0, "MessageContent"), F("Reserved", 8)])
L["sgip12.SubmitResp"] = (0x80000003, HG + [U("Result", 1), F("Reserved", 8)])
L["sgip12.Deliver"] = (0x00000004, HG + [F("UserNumber", 21), F("SPNumber", 21), U("TpPid", 1), U("TpUdhi", 1), U("MessageCoding", 1),
    ("MessageLength", "Z", 4, "MessageLength"), ("MessageContent", "B", 0, "MessageContent"), F("Reserved", 8)])
L["sgip12.DeliverResp"] = (0x80000004, HG + [U("Result", 1), F("Reserved", 8)])
L["sgip12.Report"] = (0x00000005, HG + [U("SubmitSeq1", 4, "SubmitSequence[0]"), U("SubmitSeq2", 4, "SubmitSequence[1]"), U("SubmitSeq3", 4, "SubmitSequence[2]"),
    U("ReportType", 1), F("UserNumber", 21), U("State", 1), U("ErrorCode", 1), F("Reserved", 8)])
L["sgip12.ReportResp"] = (0x80000005, HG + [U("Result", 1), F("Reserved", 8)])
# ---------------------------------------------------------------- SMGP 3.0.3 (doc §5.2.2; read with tools/pdftext.py, the PDF is RC4-encrypted)
L["smgp30.Login"] = (0x00000001, H3 + [F("ClientID", 8), ("AuthenticatorClient", "FB", 16, "AuthenticatorClient"), U("LoginMode", 1), U("Timestamp", 4), U("Version", 1)])
L["smgp30.LoginResp"] = (0x80000001, H3 + [U("Status", 4), ("AuthenticatorServer", "FB", 16, "AuthenticatorServer"), U("ServerVersion", 1)])
L["smgp30.Submit"] = (0x00000002, H3 + [U("MsgType", 1), U("NeedReport", 1), U("Priority", 1), F("ServiceID", 10), F("FeeType", 2), F("FeeCode", 6),
    F("FixedFee", 6), U("MsgFormat", 1), F("ValidTime", 17), F("AtTime", 17), F("SrcTermID", 21), F("ChargeTermID", 21),
    ("DestTermIDCount", "N", 1, "DestTermIDCount"), ("DestTermID", "L", 21, "DestTermID"), ("MsgLength", "Z", 1, "MsgLength"),
    ("MsgContent", "B", 0, "MsgContent"), F("Reserve", 8), ("Options", "O", 0, "Options")])
L["smgp30.SubmitResp"] = (0x80000002, H3 + [("MsgID", "FH", 10, "MsgID"), U("Status", 4)])
L["smgp30.Deliver"] = (0x00000003, H3 + [("MsgID", "FH", 10, "MsgID"), U("IsReport", 1), U("MsgFormat", 1), F("RecvTime", 14), F("SrcTermID", 21),
    F("DestTermID", 21), ("MsgLength", "Z", 1, "MsgLength"), ("MsgContent", "B", 0, "MsgContent"), F("Reserve", 8), ("Options", "O", 0, "Options")])
L["smgp30.DeliverResp"] = (0x80000003, H3 + [("MsgID", "FH", 10, "MsgID"), U("Result", 4)])
L["smgp30.ActiveTest"] = (0x00000004, H3)
L["smgp30.ActiveTestResp"] = (0x80000004, H3)          # SMGP 3.0.3 §5.2.2.5.2 Active_Test_Resp: "无消息体" (no message body)
L["smgp30.Exit"] = (0x00000006, H3)
L["smgp30.ExitResp"] = (0x80000006, H3)
# ---------------------------------------------------------------- SMPP 3.4 (doc §4)
SMBODY = [("ServiceType", "C", 0, "ServiceType"), U("SourceAddrTon", 1), U("SourceAddrNpi", 1), ("SourceAddr", "C", 0, "SourceAddr"),
    U("DestAddrTon", 1), U("DestAddrNpi", 1), ("DestinationAddr", "C", 0, "DestinationAddr"), U("ESMClass", 1), U("ProtocolID", 1),
    U("PriorityFlag", 1), ("ScheduleDeliveryTime", "C", 0, "ScheduleDeliveryTime"), ("ValidityPeriod", "C", 0, "ValidityPeriod"),
    U("RegisteredDelivery", 1), U("ReplaceIfPresentFlag", 1), U("DataCoding", 1)]
L["smpp34.Bind"] = (0x00000009, HS + [("SystemID", "C", 0, "SystemID"), ("Password", "C", 0, "Password"), ("SystemType", "C", 0, "SystemType"),
    U("InterfaceVersion", 1), U("AddrTon", 1), U("AddrNpi", 1), ("AddressRange", "C", 0, "AddressRange")])
L["smpp34.BindResp"] = (0x80000009, HS + [("SystemID", "C", 0, "SystemID"), ("TLVs", "T", 0, "TLVs")])
L["smpp34.SubmitSm"] = (0x00000004, HS + SMBODY + [U("SmDefaultMsgID", 1), ("SmLength", "Z", 1, "SmLength"), ("ShortMessage", "B", 0, "ShortMessage"), ("TLVs", "T", 0, "TLVs")])
L["smpp34.SubmitSmResp"] = (0x80000004, HS + [("MessageID", "C", 0, "MessageID")])
L["smpp34.DeliverSm"] = (0x00000005, HS + SMBODY + [U("SmDefaultMsgId", 1), ("SmLength", "Z", 1, "SmLength"), ("ShortMessage", "B", 0, "ShortMessage"), ("TLVs", "T", 0, "TLVs")])
L["smpp34.DeliverSmResp"] = (0x80000005, HS + [("MessageID", "C", 0, "MessageID")])
L["smpp34.Unbind"] = (0x00000006, HS)
L["smpp34.UnBindResp"] = (0x80000006, HS)
L["smpp34.EnquireLink"] = (0x00000015, HS)
L["smpp34.EnquireLinkResp"] = (0x80000015, HS)
L["smpp34.GenericNack"] = (0x80000000, HS)
# ---------------------------------------------------------------- CMPP status report body (CMPP 2.0 §7.4.5.2), no header
L["cmpp.SubPduDeliveryContent"] = (0, [U("MsgID", 8), F("Stat", 7), F("SubmitTime", 10), F("DoneTime", 10), F("DestTerminalID", 21), U("SMSCSequence", 4)])

# fixed-part lengths stated by the documents (header included), where the PDU has no variable part
DOC_LEN = {"cmpp20.PduConnect": 39, "cmpp20.PduConnectResp": 30, "cmpp20.PduTerminate": 12, "cmpp20.PduSubmitResp": 21,
           "cmpp20.PduDeliverResp": 21, "cmpp20.PduQuery": 39, "cmpp20.PduQueryResp": 63, "cmpp20.PduActiveTestResp": 13,
           "cmpp30.ConnectResp": 33, "cmpp30.SubmitResp": 24, "cmpp30.DeliverResp": 24, "cmpp30.Cancel": 20, "cmpp30.CancelResp": 16,
           "sgip12.Bind": 61, "sgip12.BindResp": 29, "sgip12.Unbind": 20, "sgip12.Report": 64,
           "smgp30.Login": 42, "smgp30.LoginResp": 33, "smgp30.SubmitResp": 26, "smgp30.DeliverResp": 26, "smgp30.ActiveTest": 12,
           "smpp34.EnquireLink": 16, "cmpp.SubPduDeliveryContent": 60}

def tla_str(s): return '"' + s + '"'

def resp_of(n):
    """the protocol's response type of a request type (None for responses)"""
    if n.endswith("Resp") or n in ("smpp34.GenericNack", "cmpp.SubPduDeliveryContent"): return None
    if n == "smpp34.Unbind": return "smpp34.UnBindResp"
    return n + "Resp"

def main():
    here = os.path.dirname(os.path.dirname(os.path.abspath(__file__)))
    out = []
    out.append("------------------------------ MODULE Layouts -------------------------------")
    out.append("(* GENERATED by tools/layouts.py - the wire layouts of all PDU types,        *)")
    out.append("(* transcribed from the protocol documents in doc/ (see tools/layouts.py for  *)")
    out.append("(* the kinds and the document sections).  Layout[type] is the sequence of    *)")
    out.append("(* fields after the 4-octet total-length prefix (headerless for the CMPP      *)")
    out.append("(* status-report body).                                                      *)")
    out.append("EXTENDS Integers, Sequences")
    out.append("")
    out.append("Fld(n, k, w) == [n |-> n, k |-> k, w |-> w]")
    out.append("")
    names = sorted(L)
    out.append("Types == {" + ", ".join(tla_str(n) for n in names) + "}")
    out.append("")
    out.append("Layout(t) ==")
    first = True
    for n in names:
        cmd, fields = L[n]
        fs = ", ".join("Fld(%s, %s, %d)" % (tla_str(f[0]), tla_str(f[1]), f[2]) for f in fields)
        out.append("  %s t = %s -> << %s >>" % ("CASE" if first else "  []", tla_str(n), fs))
        first = False
    out.append("")
    out.append("\\* command id as 4 big-endian octets (0 0 0 0 for the headerless body)")
    out.append("CmdOctets(t) ==")
    first = True
    for n in names:
        cmd = L[n][0]
        o = [(cmd >> 24) & 255, (cmd >> 16) & 255, (cmd >> 8) & 255, cmd & 255]
        out.append("  %s t = %s -> << %d, %d, %d, %d >>" % ("CASE" if first else "  []", tla_str(n), *o))
        first = False
    out.append("")
    out.append("HasHeader(t) == t # \"cmpp.SubPduDeliveryContent\"")
    out.append("")
    out.append("\\* request -> response type as the protocols define it (\"\" for responses)")
    out.append("RespType(t) ==")
    first = True
    for n in names:
        r = resp_of(n)
        assert r is None or r in L, (n, r)
        out.append("  %s t = %s -> %s" % ("CASE" if first else "  []", tla_str(n), tla_str(r or "")))
        first = False
    out.append("")
    out.append("\\* SMPP 3.4 bind comes in three flavours sharing one layout: receiver 1, transmitter 2, transceiver 9")
    out.append("BindCmds == { <<0, 0, 0, 1>>, <<0, 0, 0, 2>>, <<0, 0, 0, 9>> }")
    out.append("Pkg(t) ==")
    first = True
    for n in names:
        out.append("  %s t = %s -> %s" % ("CASE" if first else "  []", tla_str(n), tla_str(n.split(".")[0])))
        first = False
    out.append("")
    out.append("\\* total lengths the documents state for PDUs without a variable part")
    out.append("DocLen == << " + ", ".join("<<%s, %d>>" % (tla_str(n), DOC_LEN[n]) for n in sorted(DOC_LEN)) + " >>")
    out.append("=============================================================================")
    open(os.path.join(here, "spec", "Layouts.tla"), "w").write("\n".join(out) + "\n")
    js = {n: dict(cmd=L[n][0], fields=[dict(n=f[0], k=f[1], w=f[2], go=f[3]) for f in L[n][1]]) for n in names}
    json.dump(js, open(os.path.join(here, "harness", "layouts.json"), "w"), indent=0)
    print("types:", len(names))

if __name__ == "__main__":
    main()
