#!/usr/bin/env python3
"""print only IEncode/IDecode/GetCommand/GenEmptyResponse bodies compactly"""
import sys,re
for f in sys.argv[1:]:
    print("#### "+f)
    src=open(f).read().split('\n')
    keep=False
    for line in src:
        m=re.match(r'^func \((\w+) \*?(\w+)\) (IEncode|IDecode|GetCommand|GenEmptyResponse)\(',line)
        if m:
            keep=True; print("-- %s.%s"%(m.group(2),m.group(3))); continue
        if keep:
            if line.startswith('}'): keep=False; continue
            s=line.strip()
            if not s or s.startswith('//') or s.startswith('defer'): continue
            print("   "+s)
