#!/usr/bin/env python3
"""Minimal PDF text extractor (stdlib only): handles FlateDecode streams, the Standard
security handler (RC4, empty user password) and fonts with ToUnicode CMaps.
Usage: pdftext.py file.pdf > out.txt   (reading aid for the protocol documents in doc/)"""
import re, sys, zlib, hashlib, struct

PAD = bytes.fromhex("28BF4E5E4E758A4164004E56FFFA01082E2E00B6D0683E802F0CA9FE6453697A")

def rc4(key, data):
    S = list(range(256)); j = 0
    for i in range(256):
        j = (j + S[i] + key[i % len(key)]) & 255; S[i], S[j] = S[j], S[i]
    out = bytearray(); i = j = 0
    for b in data:
        i = (i + 1) & 255; j = (j + S[i]) & 255; S[i], S[j] = S[j], S[i]
        out.append(b ^ S[(S[i] + S[j]) & 255])
    return bytes(out)

def lit(data, pos):
    """parse a PDF literal string starting at '(' -> (bytes, endpos)"""
    assert data[pos:pos+1] == b'('
    out = bytearray(); depth = 1; i = pos + 1
    while depth:
        c = data[i]
        if c == 0x5c:
            i += 1; d = data[i:i+1]
            m = {b'n': 10, b'r': 13, b't': 9, b'b': 8, b'f': 12, b'(': 40, b')': 41, b'\\': 92}
            if d in m: out.append(m[d]); i += 1
            elif d.isdigit():
                o = re.match(rb'[0-7]{1,3}', data[i:i+3]).group(0); out.append(int(o, 8) & 255); i += len(o)
            elif d in b'\r\n':
                i += 1
            else: out.append(d[0]); i += 1
        elif c == 40: depth += 1; out.append(c); i += 1
        elif c == 41:
            depth -= 1
            if depth: out.append(c)
            i += 1
        else: out.append(c); i += 1
    return bytes(out), i

def main(path):
    data = open(path, 'rb').read()
    key = None
    m = re.search(rb'/Encrypt\s+(\d+)\s+(\d+)\s+R', data)
    encobj = None
    if m:
        encobj = int(m.group(1))
        o = re.search(rb'\b%d\s+0\s+obj(.*?)endobj' % encobj, data, re.S).group(1)
        O, _ = lit(o, o.index(b'/O') + 2 + (0 if o[o.index(b'/O')+2:o.index(b'/O')+3] == b'(' else 1))
        P = int(re.search(rb'/P\s+(-?\d+)', o).group(1))
        R = int(re.search(rb'/R\s+(\d+)', o).group(1))
        L = re.search(rb'/Length\s+(\d+)', o); n = int(L.group(1)) // 8 if L else 5
        ID = bytes.fromhex(re.search(rb'/ID\s*\[\s*<([0-9A-Fa-f]+)>', data).group(1).decode())
        h = hashlib.md5(PAD + O + struct.pack('<i', P) + ID).digest()
        if R >= 3:
            for _ in range(50): h = hashlib.md5(h[:n]).digest()
        key = h[:n]
    texts = []
    cmaps = {}
    objs = []
    for mo in re.finditer(rb'(\d+)\s+(\d+)\s+obj\b(.*?)\bendobj', data, re.S):
        num, gen, body = int(mo.group(1)), int(mo.group(2)), mo.group(3)
        s = re.search(rb'stream\r?\n', body)
        if not s: continue
        dic = body[:s.start()]
        raw = body[s.end():]
        e = raw.rfind(b'endstream')
        raw = raw[:e].rstrip(b'\r\n') if e >= 0 else raw
        L = re.search(rb'/Length\s+(\d+)(?!\s+\d+\s+R)', dic)
        if L: raw = body[s.end():s.end() + int(L.group(1))]
        if key and num != encobj:
            k = hashlib.md5(key + struct.pack('<I', num)[:3] + struct.pack('<H', gen)).digest()[:min(len(key) + 5, 16)]
            raw = rc4(k, raw)
        if b'FlateDecode' in dic:
            try: raw = zlib.decompress(raw)
            except Exception:
                try: raw = zlib.decompressobj().decompress(raw)
                except Exception: continue
        objs.append((num, dic, raw))
    # ToUnicode CMaps
    for num, dic, raw in objs:
        if b'beginbfchar' in raw or b'beginbfrange' in raw:
            cm = {}
            for blk in re.findall(rb'beginbfchar(.*?)endbfchar', raw, re.S):
                for a, b in re.findall(rb'<([0-9A-Fa-f]+)>\s*<([0-9A-Fa-f]+)>', blk):
                    cm[int(a, 16)] = bytes.fromhex(b.decode()).decode('utf-16-be', 'ignore')
            for blk in re.findall(rb'beginbfrange(.*?)endbfrange', raw, re.S):
                for a, b, c in re.findall(rb'<([0-9A-Fa-f]+)>\s*<([0-9A-Fa-f]+)>\s*<([0-9A-Fa-f]+)>', blk):
                    a, b, c = int(a, 16), int(b, 16), int(c, 16)
                    for x in range(a, b + 1): cm[x] = chr(c + x - a)
            cmaps[num] = cm
    allcm = {}
    for cm in cmaps.values(): allcm.update(cm)
    out = []
    for num, dic, raw in objs:
        if b'BT' not in raw or b'ET' not in raw: continue
        line = []
        for tok in re.finditer(rb'\[(.*?)\]\s*TJ|\((?:\\.|[^\\)])*\)\s*Tj|<([0-9A-Fa-f]+)>\s*Tj|T\*|ET|Td|TD|Tm', raw, re.S):
            t = tok.group(0)
            if t in (b'ET', b'T*', b'Td', b'TD', b'Tm'):
                if t != b'Tm' or line:
                    pass
                if t in (b'ET', b'T*', b'TD', b'Td', b'Tm') and line:
                    out.append(''.join(line)); line = []
                continue
            segs = re.findall(rb'<([0-9A-Fa-f]+)>|\(((?:\\.|[^\\)])*)\)', t)
            for hx, st in segs:
                if hx:
                    b = bytes.fromhex(hx.decode() if len(hx) % 2 == 0 else hx.decode() + '0')
                    for i in range(0, len(b) - 1, 2):
                        line.append(allcm.get(b[i] * 256 + b[i + 1], '?'))
                else:
                    s, _ = lit(b'(' + st + b')', 0)
                    if allcm and all(x in allcm for x in s) and False:
                        line.append(''.join(allcm[x] for x in s))
                    else:
                        line.append(s.decode('latin-1'))
        if line: out.append(''.join(line))
    sys.stdout.write('\n'.join(out))

if __name__ == '__main__':
    main(sys.argv[1])
