#!/usr/bin/env python3
"""validate MANIFEST.json and evidence files against the given schemas (uses the tooling venv)"""
import json, sys, glob
import jsonschema
ok = True
def v(doc, schema, name):
    global ok
    try:
        jsonschema.validate(json.load(open(doc)), json.load(open(schema)))
        print("valid:", name)
    except Exception as e:
        ok = False
        print("INVALID:", name, str(e)[:400])
v("/verif/MANIFEST.json", "/root/.vp/MANIFEST.schema.json", "MANIFEST.json")
for f in sorted(glob.glob("/verif/evidence/*.json")):
    v(f, "/root/.vp/EVIDENCE.schema.json", f)
sys.exit(0 if ok else 1)
