#!/usr/bin/env python3
"""Store one round of seeded changes under /verif/seeded.
usage: storeseeds.py ROUND PREFIX TABLE NUMOFFSET LOG_AS_DELIVERED [LOG_AFTER_STRENGTHENING] [STRENGTHENED_TEXT_FILE]
PREFIX_<Cxx>_out/m<k>/{patch.diff,demo_test.go,notes.md}; TABLE lines 'Cxx mK dir cmd|checks'."""
import sys, os, re, json, shutil
rnd, pfx, table, off, log1 = int(sys.argv[1]), sys.argv[2], sys.argv[3], int(sys.argv[4]), sys.argv[5]
log2 = sys.argv[6] if len(sys.argv) > 6 else None
notes2 = json.load(open(sys.argv[7])) if len(sys.argv) > 7 else {}
def parse(log):
    res, cur = {}, None
    if not log: return res
    for ln in open(log, errors="replace"):
        m = re.match(r"^######## (C\d\d) (m\d+)", ln)
        if m: cur = (m.group(1), m.group(2)); res.setdefault(cur, {}); last = None; continue
        if cur is None: continue
        m = re.match(r"^VIOLATION property=(C\d\d) ", ln)
        if m: last = m.group(1); continue
        m = re.match(r"^\s+tag=(\S+) ", ln)
        if m and last:
            res[cur].setdefault(last, m.group(1))
    return res
r1, r2 = parse(log1), parse(log2)
rows = []
for ln in open(table):
    ln = ln.strip()
    if not ln: continue
    left, checks = ln.split("|")
    prop, mk, ddir, cmd = left.split(" ", 3)
    src = f"{pfx}_{prop}_out/{mk}"
    newid = f"{prop}-m{int(mk[1:]) + off}"
    dst = f"/verif/seeded/{newid}"
    os.makedirs(dst, exist_ok=True)
    for f in ("patch.diff", "demo_test.go", "notes.md"):
        shutil.copy(f"{src}/{f}", f"{dst}/{f}")
    notes = open(f"{src}/notes.md").read()
    title = notes.splitlines()[0].lstrip("# ").strip()
    title = re.sub(r"^C\d\d\s*[/,]?\s*round\s*\d+\s*[/,]?\s*(mutant|m)?\s*\d+\s*[:\-]\s*", "", title, flags=re.I)
    m = re.search(r"^##[^\n]*needed[^\n]*\n(.*?)(?=^## |\Z)", notes, flags=re.S | re.M | re.I)
    need = " ".join((m.group(1) if m else "").split())[:400]
    d1 = r1.get((prop, mk), {}); d2 = r2.get((prop, mk), {})
    det = dict(d1); det.update({k: v for k, v in d2.items() if k not in det})
    meta = {"id": newid, "property": prop, "change": title, "needs_to_manifest": need,
            "demo_dir": ddir, "demo_cmd": cmd, "round": rnd, "detected_by": det,
            "caught_as_delivered": bool(d1), "strengthened": notes2.get(f"{prop} {mk}", ""),
            "confirmed": "in a scratch worktree of /repo HEAD: the repository's tests (all packages except sgip/sgip12) pass with the change; the demonstration passes without the change and fails with it (tools/seedcheck.sh)",
            "origin": f"written by an independent sub-agent that saw only the property text, the list of changes of rounds 1-{rnd-1}, and its own worktree"}
    json.dump(meta, open(f"{dst}/meta.json", "w"), indent=1, ensure_ascii=False)
    rows.append(f"{prop} m{int(mk[1:]) + off} {ddir} {cmd}|{checks}")
    print(newid, "delivered" if d1 else ("strengthened" if d2 else "MISSED"), det)
open(f"/verif/seeded/table_r{rnd}.txt", "w").write("\n".join(rows) + "\n")
