"""Registry: property id -> stages (family pipelines), assumptions, rule."""
from vf import Stage

PACKET = Stage(
    family="packet",
    reset_ev="NewW",
    mc={"quick": [("MC_Packet.tla", "MC_Packet_quick.cfg", "pass"),
                  ("Compose_WirePacket.tla", "MC_WirePacket.cfg", "pass"), ("Compose_WirePacket.tla", "MC_WirePacket_neg.cfg", "fail")],
        "thorough": [("MC_Packet.tla", "MC_Packet.cfg", "pass"),
                     ("Compose_WirePacket.tla", "MC_WirePacket.cfg", "pass"), ("Compose_WirePacket.tla", "MC_WirePacket_neg.cfg", "fail")]},
    parts={"quick": [("", 4)], "thorough": [("", 8)]},
    trace=("Trace_Packet.tla", "Trace_Packet.cfg"),
    nontrivial=lambda e: e.get("ev") not in ("NewW",),
    behaviours={"quick": [("Gen_Packet.tla", "Gen_Packet.cfg", 80, 14)], "thorough": [("Gen_Packet.tla", "Gen_Packet.cfg", 6000, 14)]},
)

FRAME = Stage(
    family="frame",
    reset_ev="Start",
    mc={"quick": [("MC_Frame.tla", "MC_Frame_quick.cfg", "pass"), ("MC_Frame.tla", "MC_Frame_streams.cfg", "pass"),
                  ("MC_Frame.tla", "MC_Frame_neg.cfg", "fail"), ("MC_Frame.tla", "MC_Frame_memo_neg.cfg", "fail")],
        "thorough": [("MC_Frame.tla", "MC_Frame.cfg", "pass"), ("MC_Frame.tla", "MC_Frame_streams.cfg", "pass"),
                     ("MC_Frame.tla", "MC_Frame_neg.cfg", "fail"), ("MC_Frame.tla", "MC_Frame_memo_neg.cfg", "fail")]},
    parts={"quick": [("", 4)], "thorough": [("", 8)]},
    trace=("Trace_Frame.tla", "Trace_Frame.cfg"),
    nontrivial=lambda e: e.get("ev") in ("Decode", "DecodeB"),
    behaviours={"quick": [("Gen_Frame.tla", "Gen_Frame.cfg", 300, 12)], "thorough": [("Gen_Frame.tla", "Gen_Frame.cfg", 6000, 12)]},
)

MSGID = Stage(
    family="msgid",
    mc={"quick": [("MC_MsgId.tla", "MC_MsgId.cfg", "pass"), ("MC_MsgId.tla", "MC_MsgId_neg.cfg", "fail")],
        "thorough": [("MC_MsgId.tla", "MC_MsgId.cfg", "pass"), ("MC_MsgId.tla", "MC_MsgId_neg.cfg", "fail")]},
    parts={"quick": [("", 4)], "thorough": [("", 8)]},
    trace=("Trace_MsgId.tla", "Trace_MsgId.cfg"),
    nontrivial=lambda e: e.get("ev") in ("Combine", "Split", "Str", "Sweep"),
)

GSM7 = Stage(
    family="gsm7",
    mc={"quick": [("MC_Gsm7.tla", "MC_Gsm7_branch_quick.cfg", "pass"), ("MC_Gsm7.tla", "MC_Gsm7_full_quick.cfg", "pass"),
                  ("MC_Gsm7.tla", "MC_Gsm7_neg.cfg", "fail")],
        "thorough": [("MC_Gsm7.tla", "MC_Gsm7_branch.cfg", "pass"), ("MC_Gsm7.tla", "MC_Gsm7_full.cfg", "pass"),
                     ("MC_Gsm7.tla", "MC_Gsm7_neg.cfg", "fail")]},
    parts={"quick": [("pack", 4), ("alpha", 2)], "thorough": [("pack", 8), ("alpha", 4)]},
    trace=("Trace_Gsm7.tla", "Trace_Gsm7.cfg"),
    nontrivial=lambda e: e.get("ev") not in ("SweepStart", "SweepEnd"),
)

SPLIT = Stage(
    family="split",
    mc={"quick": [("MC_Split.tla", "MC_Split_greedy.cfg", "pass"), ("MC_Split.tla", "MC_Split_packedNew.cfg", "pass"),
                  ("MC_Split.tla", "MC_Split_generic1.cfg", "pass"),
                  ("MC_Split.tla", "MC_Split_packedOld.cfg", "fail"), ("MC_Split.tla", "MC_Split_generic.cfg", "fail")],
        "thorough": [("MC_Split.tla", "MC_Split_greedy_t.cfg", "pass"), ("MC_Split.tla", "MC_Split_packedNew_t.cfg", "pass"),
                     ("MC_Split.tla", "MC_Split_generic1.cfg", "pass"),
                     ("MC_Split.tla", "MC_Split_packedOld.cfg", "fail"), ("MC_Split.tla", "MC_Split_generic.cfg", "fail")]},
    parts={"quick": [("shapes", 6), ("random", 1), ("parse", 1), ("limit", 4), ("batch", 1)],
           "thorough": [("shapes", 8), ("random", 8), ("parse", 2), ("limit", 4), ("batch", 2)]},
    trace=("Trace_Split.tla", "Trace_Split.cfg"),
    nontrivial=lambda e: e.get("ev") in ("Split", "Parse", "Sweep"),
)

WIRE = Stage(
    family="wire",
    mc={"quick": [("MC_Wire.tla", "MC_Wire_quick.cfg", "pass"), ("MC_Wire.tla", "MC_Wire_neg.cfg", "fail")],
        "thorough": [("MC_Wire.tla", "MC_Wire.cfg", "pass"), ("MC_Wire.tla", "MC_Wire_neg.cfg", "fail")]},
    parts={"quick": [("rt", 4), ("relay", 4)], "thorough": [("rt", 8), ("relay", 8)]},
    trace=("Trace_Wire.tla", "Trace_Wire.cfg"),
    nontrivial=lambda e: True,
)

FUZZ = Stage(
    family="fuzz",
    mc={"quick": [("MC_Decode.tla", "MC_Decode.cfg", "pass"), ("MC_Decode.tla", "MC_Decode_loop_neg.cfg", "fail"),
                  ("MC_Decode.tla", "MC_Decode_alloc_neg.cfg", "fail")],
        "thorough": [("MC_Decode.tla", "MC_Decode_t.cfg", "pass"), ("MC_Decode.tla", "MC_Decode_loop_neg.cfg", "fail"),
                     ("MC_Decode.tla", "MC_Decode_alloc_neg.cfg", "fail")]},
    parts={"quick": [("", 8)], "thorough": [("", 8)]},
    trace=("Trace_Wire.tla", "Trace_Wire.cfg"),
    nontrivial=lambda e: True,
)

TLV = Stage(
    family="tlv",
    mc={"quick": [("MC_Tlv.tla", "MC_Tlv_strict.cfg", "pass"), ("MC_Tlv.tla", "MC_Tlv_lenient.cfg", "pass"),
                  ("MC_Tlv.tla", "MC_Tlv_neg.cfg", "fail")],
        "thorough": [("MC_Tlv.tla", "MC_Tlv_strict_t.cfg", "pass"), ("MC_Tlv.tla", "MC_Tlv_lenient_t.cfg", "pass"),
                     ("MC_Tlv.tla", "MC_Tlv_neg.cfg", "fail")]},
    parts={"quick": [("", 4)], "thorough": [("", 8)]},
    trace=("Trace_Tlv.tla", "Trace_Tlv.cfg"),
    nontrivial=lambda e: True,
)

SESSION = Stage(
    family="session",
    reset_ev="Start",
    mc={"quick": [("MC_Session.tla", "MC_Session.cfg", "pass"), ("MC_Session.tla", "MC_Session_neg.cfg", "fail")],
        "thorough": [("MC_Session.tla", "MC_Session_t.cfg", "pass"), ("MC_Session.tla", "MC_Session_neg.cfg", "fail")]},
    parts={"quick": [("exchange", 2), ("dispatch", 2)], "thorough": [("exchange", 4), ("dispatch", 4)]},
    trace=("Trace_Session.tla", "Trace_Session.cfg"),
    nontrivial=lambda e: e.get("ev") != "Start",
    behaviours={"quick": [("Gen_Session.tla", "Gen_Session.cfg", 200, 14)], "thorough": [("Gen_Session.tla", "Gen_Session.cfg", 4000, 14)]},
)

AUTH = Stage(
    family="auth",
    reset_ev="Build",
    mc={"quick": [("MC_Auth.tla", "MC_Auth.cfg", "pass"), ("MC_Auth.tla", "MC_Auth_neg.cfg", "fail")],
        "thorough": [("MC_Auth.tla", "MC_Auth_t.cfg", "pass"), ("MC_Auth.tla", "MC_Auth_neg.cfg", "fail")]},
    parts={"quick": [("", 4)], "thorough": [("", 8)]},
    trace=("Trace_Auth.tla", "Trace_Auth.cfg"),
    nontrivial=lambda e: True,
)

RECEIPT = Stage(
    family="receipt",
    mc={"quick": [("MC_Receipt.tla", "MC_Receipt.cfg", "pass"), ("MC_Receipt.tla", "MC_Receipt_neg.cfg", "fail")],
        "thorough": [("MC_Receipt.tla", "MC_Receipt_t.cfg", "pass"), ("MC_Receipt.tla", "MC_Receipt_neg.cfg", "fail")]},
    parts={"quick": [("", 4)], "thorough": [("", 8)]},
    trace=("Trace_Receipt.tla", "Trace_Receipt.cfg"),
    nontrivial=lambda e: True,
)
WIRE_BODY = Stage(
    family="wire",
    mc={"quick": [], "thorough": []},
    parts={"quick": [("body", 1)], "thorough": [("body", 2)]},
    trace=("Trace_Wire.tla", "Trace_Wire.cfg"),
    nontrivial=lambda e: True,
)

VALIDITY = Stage(
    family="validity",
    mc={"quick": [("MC_Validity.tla", "MC_Validity.cfg", "pass"), ("MC_Validity.tla", "MC_Validity_neg.cfg", "fail")],
        "thorough": [("MC_Validity.tla", "MC_Validity_t.cfg", "pass"), ("MC_Validity.tla", "MC_Validity.cfg", "pass"),
                     ("MC_Validity.tla", "MC_Validity_neg.cfg", "fail")]},
    parts={"quick": [("", 4)], "thorough": [("", 8)]},
    trace=("Trace_Validity.tla", "Trace_Validity.cfg"),
    nontrivial=lambda e: True,
)

TEXT = Stage(
    family="text",
    mc={"quick": [("MC_Text.tla", "MC_Text.cfg", "pass")], "thorough": [("MC_Text.tla", "MC_Text_t.cfg", "pass")]},
    parts={"quick": [("strings", 3), ("content", 1), ("sweep", 4)], "thorough": [("strings", 6), ("content", 2), ("sweep", 8)]},
    trace=("Trace_Text.tla", "Trace_Text.cfg"),
    nontrivial=lambda e: e.get("ev") not in ("SweepStart", "SweepEnd"),
)

BATCH = Stage(
    family="batch",
    mc={"quick": [("MC_Batch.tla", "MC_Batch_cmpp.cfg", "pass"), ("MC_Batch.tla", "MC_Batch_smpp.cfg", "pass"),
                  ("MC_Batch.tla", "MC_Batch_neg.cfg", "fail")],
        "thorough": [("MC_Batch.tla", "MC_Batch_cmpp_t.cfg", "pass"), ("MC_Batch.tla", "MC_Batch_smpp_t.cfg", "pass"),
                     ("MC_Batch.tla", "MC_Batch_neg.cfg", "fail")]},
    parts={"quick": [("", 4)], "thorough": [("", 8)]},
    trace=("Trace_Batch.tla", "Trace_Batch.cfg"),
    nontrivial=lambda e: True,
)
CONTAINER = Stage(
    family="container",
    reset_ev="New",
    mc={"quick": [("MC_Container.tla", "MC_Container.cfg", "pass"), ("MC_Container.tla", "MC_Container_neg.cfg", "fail")],
        "thorough": [("MC_Container.tla", "MC_Container.cfg", "pass"), ("MC_Container.tla", "MC_Container_neg.cfg", "fail")]},
    parts={"quick": [("", 1)], "thorough": [("", 4)]},
    trace=("Trace_Container.tla", "Trace_Container.cfg"),
    nontrivial=lambda e: e.get("ev") in ("Ser", "Len", "Udhi"),
    behaviours={"quick": [("Gen_Container.tla", "Gen_Container.cfg", 100, 10)], "thorough": [("Gen_Container.tla", "Gen_Container.cfg", 2000, 10)]},
)
BUILDER = Stage(
    family="builder",
    reset_ev="New",
    mc={"quick": [("MC_Builder.tla", "MC_Builder.cfg", "pass"), ("MC_Builder.tla", "MC_Builder_sound.cfg", "pass"),
                  ("MC_Builder.tla", "MC_Builder_neg.cfg", "fail")],
        "thorough": [("MC_Builder.tla", "MC_Builder_t.cfg", "pass"), ("MC_Builder.tla", "MC_Builder_sound.cfg", "pass"),
                     ("MC_Builder.tla", "MC_Builder_neg.cfg", "fail")]},
    parts={"quick": [("", 1)], "thorough": [("", 4)]},
    trace=("Trace_Builder.tla", "Trace_Builder.cfg"),
    nontrivial=lambda e: e.get("ev") == "Build",
    behaviours={"quick": [("Gen_Builder.tla", "Gen_Builder.cfg", 150, 10)], "thorough": [("Gen_Builder.tla", "Gen_Builder.cfg", 3000, 10)]},
)
SPLIT_BATCH = Stage(
    family="split",
    mc={"quick": [], "thorough": []},
    parts={"quick": [("batch", 2)], "thorough": [("batch", 4)]},
    trace=("Trace_Split.tla", "Trace_Split.cfg"),
    nontrivial=lambda e: True,
)

MEM = Stage(
    family="mem",
    reset_ev="Start",
    mc={"quick": [("MC_Mem.tla", "MC_Mem.cfg", "pass"), ("MC_Mem.tla", "MC_Mem_nocopy.cfg", "fail"),
                  ("MC_Mem.tla", "MC_Mem_alias.cfg", "fail")],
        "thorough": [("MC_Mem.tla", "MC_Mem_t.cfg", "pass"), ("MC_Mem.tla", "MC_Mem_nocopy.cfg", "fail"),
                     ("MC_Mem.tla", "MC_Mem_alias.cfg", "fail")]},
    parts={"quick": [("", 4)], "thorough": [("", 8)]},
    trace=("Trace_Mem.tla", "Trace_Mem.cfg"),
    nontrivial=lambda e: e.get("ev") != "Start",
)

CONC = Stage(
    family="conc",
    reset_ev="Start",
    mc={"quick": [("Conc.tla", "MC_Conc.cfg", "pass"), ("Conc.tla", "MC_Conc_static.cfg", "pass"),
                  ("Conc.tla", "MC_Conc_neg.cfg", "fail"), ("Conc.tla", "MC_Conc_neg_residue.cfg", "fail"),
                  ("Conc.tla", "MC_Conc_neg_lazy.cfg", "fail"), ("Refine_Conc.tla", "MC_Conc_refine.cfg", "pass")],
        "thorough": [("Conc.tla", "MC_Conc_t.cfg", "pass"), ("Conc.tla", "MC_Conc_static.cfg", "pass"),
                     ("Conc.tla", "MC_Conc_neg.cfg", "fail"), ("Conc.tla", "MC_Conc_neg_residue.cfg", "fail"),
                     ("Conc.tla", "MC_Conc_neg_lazy.cfg", "fail"), ("Refine_Conc.tla", "MC_Conc_refine.cfg", "pass")]},
    parts={"quick": [("", 2)], "thorough": [("", 4)]},
    trace=("Trace_Conc.tla", "Trace_Conc.cfg"),
    nontrivial=lambda e: e.get("ev") in ("Par", "End", "Pool"),
    race=True,
    driver_env="RACELOG",
)

CONC.apalache = {"quick": [("Pool.tla", "ConstInit", "IndInv", "pass")],
                 "thorough": [("Pool.tla", "ConstInit", "IndInv", "pass"), ("Pool.tla", "ConstInitNeg", "IndInv", "fail")]}

GATEWAY = Stage(
    family="gateway",
    reset_ev="Start",
    mc={"quick": [("Gateway.tla", "MC_Gateway.cfg", "pass"), ("Gateway.tla", "MC_Gateway_neg.cfg", "fail"),
                  ("Refine_Gateway.tla", "MC_Gateway_refine.cfg", "pass"), ("Refine_Gateway.tla", "MC_Gateway_refine_neg.cfg", "fail")],
        "thorough": [("Gateway.tla", "MC_Gateway_t.cfg", "pass"), ("Gateway.tla", "MC_Gateway_neg.cfg", "fail"),
                     ("Refine_Gateway.tla", "MC_Gateway_refine.cfg", "pass"), ("Refine_Gateway.tla", "MC_Gateway_refine_neg.cfg", "fail")]},
    parts={"quick": [("", 2)], "thorough": [("", 8)]},
    trace=("Trace_Gateway.tla", "Trace_Gateway.cfg"),
    nontrivial=lambda e: e.get("ev") != "Start",
)

HELPERS = Stage(
    family="helpers",
    mc={"quick": [], "thorough": []},
    parts={"quick": [("", 1)], "thorough": [("", 2)]},
    trace=("Trace_Helpers.tla", "Trace_Helpers.cfg"),
    nontrivial=lambda e: True,
)

# the logger package and the two messages of the batch encoder (outside the listed properties: tags X.logger.*, drift only)
LOGGER = Stage(
    family="logger",
    reset_ev="Start",
    mc={"quick": [("MC_Logger.tla", "MC_Logger.cfg", "pass"), ("MC_Logger.tla", "MC_Logger_neg.cfg", "fail")],
        "thorough": [("MC_Logger.tla", "MC_Logger.cfg", "pass"), ("MC_Logger.tla", "MC_Logger_neg.cfg", "fail")]},
    parts={"quick": [("", 1)], "thorough": [("", 4)]},
    trace=("Trace_Logger.tla", "Trace_Logger.cfg"),
    nontrivial=lambda e: e.get("ev") in ("Log", "Build"),
    behaviours={"quick": [("Gen_Logger.tla", "Gen_Logger.cfg", 60, 14)], "thorough": [("Gen_Logger.tla", "Gen_Logger.cfg", 2000, 14)]},
)

# packet.PDUStringer, the object behind every String() (outside the listed properties: tags X.stringer.*, drift only)
STRINGER = Stage(
    family="stringer",
    reset_ev="Start",
    mc={"quick": [("MC_Stringer.tla", "MC_Stringer.cfg", "pass"), ("MC_Stringer.tla", "MC_Stringer_neg.cfg", "fail")],
        "thorough": [("MC_Stringer.tla", "MC_Stringer.cfg", "pass"), ("MC_Stringer.tla", "MC_Stringer_neg.cfg", "fail")]},
    parts={"quick": [("", 1)], "thorough": [("", 4)]},
    trace=("Trace_Stringer.tla", "Trace_Stringer.cfg"),
    nontrivial=lambda e: e.get("ev") in ("W", "Str"),
    behaviours={"quick": [("Gen_Stringer.tla", "Gen_Stringer.cfg", 60, 14)], "thorough": [("Gen_Stringer.tla", "Gen_Stringer.cfg", 2000, 14)]},
)

CHECKS = {
    "C13": dict(
        stages=[CONC],
        technique="TLA+ model of the library's shared state under interleaved goroutines (Conc.tla: buffer pool with sync.Pool "
                  "Get, error path, first-use table initialisation): TLC exhaustive over all interleavings + TLC validation of "
                  "recorded parallel executions (race-detector build): the pool events reported by a hook in packet.Writer are "
                  "stepped through Conc's own actions, every parallel result must equal its sequential result",
        level_text="TLC explores every interleaving of 2 (thorough 3) goroutines x 3 operations, each Get / Lookup / (Build) / "
                   "Write / Copy / Put or Fail on a shared pool: every operation returns what it returns alone, no pooled "
                   "buffer is held twice or is in the pool while held, pooled buffers are empty, nobody reads a half-built "
                   "table; negative configurations: release before the copy-out, error path without reset (one goroutine), "
                   "unsynchronised lazy initialisation.  Generated programs (encode, decode + input scribble, String, CMPP/SMPP "
                   "splitting, batch Build with origin coding, UCS-2 pooled helper, GSM-7 functions, failing encodes, large "
                   "encodes, authenticators, message ids / receipts / validity periods) run alone and on 2..8 (thorough 64) "
                   "goroutines with GOMAXPROCS 1..16 and seeded yields in a -race binary; every third program runs in a process "
                   "of its own with the goroutines FIRST (first use is concurrent) and the reference afterwards.  TLC steps "
                   "Conc's actions for every recorded pool event (get / copy / put with Writer, buffer, length) - a line that is "
                   "not an enabled step, or a logged length that contradicts the model's buffer content, is a violation - and "
                   "requires every parallel result to equal its sequential result, zero race-detector reports, no dead child",
        level_note="real schedules are sampled, not controlled; the data-race sensor is Go's race detector (reports read from its "
                   "log files); pool events are followed for the first 300 Writers of a program",
        rule="program = Pool events (one per pool operation of packet.Writer) + Par events (one per call: its result on its goroutine and alone) + End (race "
             "report count, child died); distinct = distinct Pool/Par/End events",
        assumptions=["Go race detector", "operations are deterministic functions of (kind, seed); results compared by length+FNV-64 digest",
                     "the hook reports get after the buffer was taken and put before it goes back, ordered by a sequence number "
                     "taken under a lock: the recorded order is a possible order of the pool operations"],
    ),
    "C12": dict(
        stages=[MEM, STRINGER],
        technique="TLA+ ownership model (buffers with owners and content tokens, results, views) (Mem.tla): TLC exhaustive over "
                  "all short histories + TLC validation of recorded real histories with caller scribbling and snapshot comparison",
        level_text="TLC explores every history of <=6 (thorough 7) encode/decode/scribble/frame-view operations with 2 pooled "
                   "buffers and <=3 live results: no step changes a result the caller did not overwrite itself, except views; "
                   "'encoder hands out the pooled buffer' and 'decoder keeps referring to its input' are negative configurations "
                   "(TLC produces decode, scribble input, observe change).  Real histories (encode, decode, String, split, the six text codecs and the GSM 7-bit function set, Build twice on one "
                   "batch builder, the packet-building helpers, UCS-2 "
                   "helper, zero-copy frame extractor + decoder + reader refill, over all PDU types) are executed with the input "
                   "buffer overwritten after every decode and every returned output overwritten up to its capacity; after every "
                   "step every live result is compared with its snapshot and TLC checks the changed set against what the model "
                   "allows, and each result against an independent reference computation",
        level_note="aliasing that is never written through is invisible (and harmless to the property as stated); at most 10 "
                   "results are kept live per history",
        rule="history = sequence of events (one per library call or caller scribble); distinct = distinct events",
        assumptions=["deep snapshots through the reflection projector", "scripted ConnReader compacts its buffer on arrival like bufio"],
    ),
    "C09": dict(
        stages=[BATCH, SPLIT_BATCH, BUILDER, LOGGER],
        technique="TLA+ state machine of Build (candidate set, per-candidate goroutines, filter, UCS-2 fallback, unstable sort as "
                  "'any minimal element first') (Batch.tla): TLC exhaustive + TLC validation of the real sorter on every "
                  "permutation and of repeated real Build calls; the builder object across requests as a second state machine "
                  "(Builder.tla): TLC exhaustive over setter / Build histories, TLC-generated histories replayed on one real builder "
                  "and validated action by action",
        level_text="TLC explores every candidate list of <=2 (thorough: CMPP 4, SMPP 3) entries over the valid codings and an invalid "
                   "number, every origin, every can/parts environment, every order of the per-candidate runs, with the sort "
                   "modelled as what an unstable sort guarantees: result = the cheapest usable coding (hence deterministic), "
                   "UCS-2 fallback, error only when nothing can; equal priorities are the negative configuration; the comparator "
                   "is ASSUMEd a strict total order.  The real sorter (export shim) is driven with every permutation of every "
                   "candidate subset and part counts 1..3; real Build calls for candidate subsets, duplicates, invalid numbers, "
                   "origins and ~26 contents are repeated under shuffled candidate order and GOMAXPROCS 1/2/4/16, each "
                   "result compared with Expected computed by TLC from the environment observed through the single-coding "
                   "entry points; the returned parts are judged by Split.tla (C09.parts).  Builder.tla: every history of <=3 (thorough 4) "
                   "setter and Build steps for every environment - each answer is the one the settings of that moment prescribe "
                   "(a candidate set remembered across an OriginDataCoding call is the negative configuration); random and "
                   "TLC-generated (Gen_Builder, -simulate) histories are executed on ONE real BatchDataCodingEncoder, and "
                   "Trace_Builder steps Builder's actions: the settings are the specification's state, a Build event carries "
                   "only the observed environment and answer",
        level_note="Go's map iteration order and goroutine schedule inside Build are sampled by repetition, not controlled; the "
                   "sorter is exercised exhaustively through a verif-tagged export shim; what a candidate can do is observed "
                   "from EncodeCMPP/SMPPContentAndSplit (C05-C07 judge those)",
        rule="one event per sorter call / Build call; distinct = distinct events",
        assumptions=["single-coding entry points as environment", "candidates of the selected protocol only (contract)"],
    ),
    "C05": dict(
        stages=[TEXT],
        technique="TLA+ definition of the codings as (repertoire, character -> units) (Text.tla, Gsm7.tla): TLC exhaustive on the "
                  "codec state machine over scaled alphabets + TLC validation of recorded encode/decode calls octet for octet, "
                  "interval-classified sweep of all scalar values",
        level_text="TLC checks refusal exactly off the repertoire and inversion (with the two packed end-of-message ambiguities, "
                   "exact outside them) for all strings of <=4 (thorough 7) characters over alphabets with one-unit, multi-unit "
                   "and foreign characters for ASCII, UCS-2, GSM-7 unpacked and packed (decoder = the block unpacker without "
                   "septet count).  Real codecs: random strings biased to each repertoire and its edges are validated octet for "
                   "octet (ASCII, UCS-2, GSM-7) or by inversion/refusal (Latin-1, GB18030 with the U+E000..U+E864 carve-out); the "
                   "three UTF-8->UCS-2 helpers; DecodeCMPPCContent/DecodeSMPPCContent for every data-coding number 0..255; "
                   "every Unicode scalar value in the contexts c, ac, ca, acb through all six codecs as run-length classified "
                   "intervals (quick: all of U+0000..U+30FF, plane and carve-out edges, every 17th elsewhere); every third judged call is "
                   "made directly after a series of refused calls on the same goroutine (history independence)",
        level_note="Latin-1 (Windows-1252) and GB18030 byte values are x/text's and are only checked for inversion and refusal; in "
                   "the sweep the per-scalar equality is computed in Go and TLC judges the interval classes against the repertoire",
        rule="one event per Encode+Decode pair / helper call / content-decoder call / classified interval; distinct = distinct events",
        assumptions=["x/text tables for Windows-1252 and GB18030", "TS 23.038 tables as transcribed in Gsm7.tla"],
    ),
    "C19": dict(
        stages=[VALIDITY],
        technique="TLA+ denotation of SMPP time strings with a civil-calendar function (Validity.tla): TLC exhaustive over all "
                  "durations at scaled units + TLC validation of recorded ToValidatePeriod calls",
        level_text="TLC checks that the relative formatter's output denotes exactly the duration for every duration up to the "
                   "field capacity + 2 at scaled units (thorough: every second of the 31 real days the relative form can express), days reduced modulo a "
                   "constant being the negative configuration; the calendar function is ASSUMEd on leap-year anchors.  Real "
                   "calls over every unit boundary +-1 s (59/60 s, 24 h, 31 d, 100 d, 365 d, 100 years), fractional, compound, "
                   "negative and unparsable duration strings, both forms, now instants across 2000..2099 in several zones: TLC "
                   "compares the string with RelString / AbsString(now + d in UTC) and requires refusal of negative, "
                   "unparsable and unrepresentable requests",
        level_note="time.ParseDuration and time arithmetic of the driver (now as day number + second) are trusted; a relative "
                   "request of 31..99 days may be refused or answered exactly (the format can hold it, the property does not "
                   "oblige the library to); an absolute request of zero duration may answer '' or the instant itself",
        rule="one event per ToValidatePeriod call; distinct = distinct events",
        assumptions=["Go time package for parsing durations and constructing now"],
    ),
    "C18": dict(
        stages=[RECEIPT, WIRE_BODY],
        technique="TLA+ receipt grammar (Receipt.tla): TLC exhaustive over all orders/subsets of prefix-related keys on the "
                  "first-occurrence search + TLC validation of recorded extractions; CMPP status-report body through Wire.tla",
        level_text="TLC checks that the first-occurrence search returns what the receipt carries for every subset, order, "
                   "spelling and value assignment of the keys sub/submit date/stat (thorough: + dlvrd), the lookup of the "
                   "fallback spelling without its colon being the negative configuration.  Real extractions: all 256 subsets x "
                   "random orders x both spellings x values (also longer than the field, non-ASCII and non-UTF-8 octets, white "
                   "space other than 0x20, SMGP id = any ten octets incl. space/NUL) "
                   "(thorough: all 8! orders); TLC re-renders the text from the pairs and compares each returned field.  The "
                   "CMPP status-report body round-trips through the C01 machinery (tag C18.statusreport)",
        level_note="values are drawn space-free and free of key tokens as the property prescribes; ExtractDeliveryReceipt1 (fixed "
                   "order Sscanf) is not an order-independent extractor and is only covered by C03",
        rule="one event per extraction; distinct = distinct events",
        assumptions=["strings.Join rendering in the driver is re-checked by TLC against Render"],
    ),
    "C15": dict(
        stages=[AUTH],
        technique="TLA+ handshake state machine (Auth.tla) with RFC 1321 MD5 transcribed into TLA+ (MD5.tla): TLC exhaustive "
                  "on the abstract-digest model + TLC recomputation of every digest of recorded real handshakes",
        level_text="TLC explores the handshake (build, slot encode, decode, verify, reply, decode, verify) for every digest value "
                   "of the scaled model: Survives and Verifies hold when the slot is read raw; reading it as a C-string is the "
                   "negative configuration.  Real handshakes of CMPP 2.0, CMPP 3.0 and SMGP 3.0 (accounts 0..6/0..8 octets, "
                   "secrets 0..32 octets, timestamps over 0..1231235959 incl. leading zeros, status codes; 40% of the credential "
                   "sets chosen so that the digest contains or ends in 0x00) are validated step by step (decoded from a reused read "
                   "buffer that is overwritten before verification; every second client recomputes from the status octets inside its "
                   "read buffer before it decodes the frame); TLC recomputes both "
                   "authenticators with MD5.tla (checked against the RFC test suite) from the logged credentials",
        level_note="SMGP has no library function for the server authenticator, so only its transport is checked there; the SMGP "
                   "client authenticator is reached through a verif-tagged export shim; NewConnect/NewLogin read the clock, their "
                   "timestamp is read back from the PDU",
        rule="one handshake = one trace of 6 events; distinct = distinct events",
        assumptions=["MD5.tla (validated by ASSUME against RFC 1321 A.5)", "crypto/md5 is used by the driver only to bias the "
                     "credential search and to fabricate the SMGP server authenticator"],
    ),
    "C10": dict(
        stages=[SESSION, GATEWAY, HELPERS],
        technique="TLA+ session state machine over the command tables of Layouts.tla (Session.tla): TLC exhaustive over all "
                  "interleavings of outstanding requests + TLC validation of recorded real exchanges and dispatcher sweeps",
        level_text="TLC checks that every response in flight matches exactly one outstanding request for all request command "
                   "ids of the five packages, boundary sequence identifiers and <=2 (thorough 5) outstanding requests in every "
                   "interleaving, plus table consistency (response = request + 2^31, no shared ids); a bind response fixed to "
                   "'transceiver' is the negative configuration.  Real exchanges (every request type, every boundary sequence "
                   "number, all three bind flavours, SGIP with three distinct sequence words, several outstanding requests "
                   "answered in any order, constructors) are validated action by action: SetSequenceID visible in getter and "
                   "header, dispatcher type = Dispatch(pkg, command), GetCommand = header command, response type/command/"
                   "sequence identifier, responses generate none, each response matches exactly one outstanding request, and a request "
                   "encoded again after it has been answered still reports and dispatches as itself; every "
                   "encodable type and random command ids go through each dispatcher",
        level_note="request/response and command tables are my transcription of the protocol documents (Layouts.tla); the 2^32 "
                   "command ids are sampled (all defined ids, 0..63 with and without the response bit, random others)",
        rule="one event per library call in an exchange (Send/SRecv/Reply/CRecv) or dispatcher probe (Disp); distinct = distinct events",
        assumptions=["type names obtained by reflection", "user-built requests carry the command id of their type in the header"],
    ),
    "C16": dict(
        stages=[TLV, CONTAINER],
        technique="TLA+ model of triplet containers (Tlv.tla): TLC exhaustive on both parser-loop variants and the serialiser's "
                  "size arithmetic at scaled widths + TLC validation of every recorded container call at the real widths; the container "
                  "as an object (Container.tla): TLC exhaustive over Put histories and serialisation orders, TLC-generated histories "
                  "replayed on one real smpp.TLVs / smgp.Options and validated action by action",
        level_text="TLC checks NoFabrication, exactness on well-formed sequences, loop progress and termination for the strict and "
                   "the lenient parser loop over all octet strings of length <=7 (thorough 12) over {0,1,2}, and that the serialiser "
                   "never panics and truncates consistently (size arithmetic wrapping at 8 bits is the negative configuration).  "
                   "On the real code: random and boundary sets (0..32 parameters, value lengths 65530..65536, 70000), every "
                   "permutation of emission order for <=4 parameters assembled from real single-triplet serialisations, all strings "
                   "of length <=5 (thorough 8) over {0,1,2} and random strings through all four parsers, Add on an empty container, "
                   "TP_udhi on short values; TLC compares each result with Walk/LastWins",
        level_note="panics/hangs observed by the harness; values above 64 KiB travel as full octet arrays for a handful of cases",
        rule="one event per container call; distinct = distinct events",
        assumptions=["encoding/json", "the harness reads container contents through the public map/Value() API"],
    ),
    "C03": dict(
        stages=[FUZZ],
        technique="TLA+ decoder model with allocation meter and loop-progress property (MC_Decode.tla) + TLC judgement of "
                  "observed outcomes of every real decoder/parser on specification-shaped corruptions (Trace_Wire.tla, "
                  "MandatoryComplete from Wire/Layouts)",
        level_text="TLC explores a mandatory-part + triplet-loop decoder over all octet strings of length <=6 (thorough 9) over "
                   "{0,1,2,255}: Bounded allocation, loop Progress, termination, ShortIsError; a loop that consumes nothing and "
                   "allocate-before-check are negative configurations.  Every real PDU decoder, dispatcher and auxiliary parser is "
                   "then run on every truncation point of canonical images, every length/count octet substituted by "
                   "{0,1,0x7f,0x80,0xff}, trailing garbage 1..16, well- and ill-formed optional tails and unstructured octets "
                   "(thorough: up to 64 KiB), each call under recover, a 2 s watchdog and a TotalAlloc meter; TLC decides: no "
                   "panic, no hang, alloc <= 64*len+1 MiB, and success only if the specification says the mandatory part is complete",
        level_note="panics, hangs and allocation are observed by the harness (recover, watchdog, runtime.MemStats), not by TLC; the "
                   "allocation bound is a chosen constant two orders of magnitude above what a correct decoder needs; the frame "
                   "extractors are not among the parsers the property names; thorough tier: 120 s of Go's native coverage-guided "
                   "fuzzing (harness/fuzz_test.go) serve as an additional input source - its corpus is replayed through the same "
                   "driver and judged by the same trace specification",
        rule="one event per call (function, input octets -> outcome, bytes allocated); inputs derived from canonical images of all "
             "58 layouts plus unstructured and text-shaped strings for 38 auxiliary parsers; distinct = distinct events",
        assumptions=["runtime.MemStats.TotalAlloc delta as allocation meter", "2 s watchdog = hang",
                     "after two hangs at one site further calls at that site are skipped (logged, not judged)"],
    ),
    "C01": dict(
        stages=[WIRE],
        technique="TLA+ layout interpreter (Wire.tla over Layouts.tla): TLC exhaustive round trip of the reference codec on "
                  "generic small layouts + TLC validation of recorded real encode/decode round trips of all 57 PDU types",
        level_text="TLC checks RefDecode(RefEncode(p)) = p, the length prefix and refusal of over-long slots for every well-formed "
                   "assignment of every generic layout of <=3 fields over all field kinds (a decoder that cuts binary slots at NUL "
                   "is the negative configuration).  Every recorded real round trip is judged by TLC: WellFormed(p) => encode ok, "
                   "decode ok, Eq(p2,p) field-wise (optional parameters as a set), header length = Len(bytes) (every fourth struct "
                   "carries a stale length member from an earlier encode); TooLongOnly(p) => "
                   "encode error",
        level_note="field values travel as octet arrays through a reflection projector keyed by the field names of Layouts.tla; the "
                   "layouts are my transcription of the documents in doc/ (tools/layouts.py cites the sections); integers are "
                   "covered at boundaries and random values, not their full ranges",
        rule="one event per case: assignment -> IEncode -> bytes -> IDecode(fresh) -> fields (RT), or octets -> IDecode -> IEncode -> "
             "IDecode (Relay); per type: every text field at boundary lengths (thorough: every length 0..width) incl. too long, fixed "
             "binary slots with NULs, counts up to 255, body lengths up to 255 (SGIP up to 64 KiB), optional-parameter sets, random "
             "assignments; distinct = distinct events",
        assumptions=["layouts transcribed from doc/ (SMGP 3.0.3 PDF is encrypted; transcribed from knowledge of the standard)",
                     "reflection projector of the harness"],
    ),
    "C02": dict(
        stages=[WIRE],
        technique="same specification: the real IEncode output is compared octet for octet with Image(type, p) computed by TLC "
                  "from the transcribed layouts; conformant images must decode to the values they carry",
        level_text="For every recorded encode of a well-formed assignment TLC computes the prescribed image (field order, big-endian "
                   "integers, NUL padding, NUL terminators, length prefix, command id and sequence offsets) and compares it with the "
                   "produced octets (optional parameters as any permutation of the reference triplets); document total lengths of "
                   "the fixed PDUs are ASSUMEd; destination counts up to 255 and body lengths up to 255 are always included",
        level_note="field values travel as octet arrays through a reflection projector keyed by the field names of Layouts.tla; the "
                   "layouts are my transcription of the documents in doc/ (tools/layouts.py cites the sections); integers are "
                   "covered at boundaries and random values, not their full ranges",
        rule="one event per case: assignment -> IEncode -> bytes -> IDecode(fresh) -> fields (RT), or octets -> IDecode -> IEncode -> "
             "IDecode (Relay); per type: every text field at boundary lengths (thorough: every length 0..width) incl. too long, fixed "
             "binary slots with NULs, counts up to 255, body lengths up to 255 (SGIP up to 64 KiB), optional-parameter sets, random "
             "assignments; distinct = distinct events",
        assumptions=["layouts transcribed from doc/ (SMGP 3.0.3 PDF is encrypted; transcribed from knowledge of the standard)",
                     "reflection projector of the harness"],
    ),
    "C11": dict(
        stages=[WIRE],
        technique="same specification: decode -> encode -> decode chains on mutated canonical images, judged by TLC (Relay, Canonical)",
        level_text="Mutated canonical images (junk after NULs in fixed slots, 0xFF integers, counts/lengths +-1, duplicate tags, "
                   "optional values of 65531/65532/65535 octets, trailing garbage, incomplete trailing triplets) and all canonical "
                   "images go through the real chain; TLC requires re-encodability, p2 = p1, and b1 = b0 (optional parameters "
                   "unordered) whenever the specification says b0 is canonical",
        level_note="field values travel as octet arrays through a reflection projector keyed by the field names of Layouts.tla; the "
                   "layouts are my transcription of the documents in doc/ (tools/layouts.py cites the sections); integers are "
                   "covered at boundaries and random values, not their full ranges",
        rule="one event per case: assignment -> IEncode -> bytes -> IDecode(fresh) -> fields (RT), or octets -> IDecode -> IEncode -> "
             "IDecode (Relay); per type: every text field at boundary lengths (thorough: every length 0..width) incl. too long, fixed "
             "binary slots with NULs, counts up to 255, body lengths up to 255 (SGIP up to 64 KiB), optional-parameter sets, random "
             "assignments; distinct = distinct events",
        assumptions=["layouts transcribed from doc/ (SMGP 3.0.3 PDF is encrypted; transcribed from knowledge of the standard)",
                     "reflection projector of the harness"],
    ),
    "C06": dict(
        stages=[SPLIT, GATEWAY],
        technique="TLA+ relation between a text's unit stream and the produced parts (Split.tla/Text.tla): TLC exhaustive on "
                  "the splitter loops as step machines at scaled capacities + TLC validation of recorded real splits",
        level_text="TLC checks Preserves/TotalOK/SizeOK/WholeOK/MinimalOK/termination for every text of <=9 (thorough 17) "
                   "characters (1-unit and escape-pair characters) on the greedy reference and the repaired packed loop; the packed "
                   "loop as written before the fix and the coding-agnostic fixed-width cut are negative configurations.  Every "
                   "recorded real split is then judged by TLC: the payloads (headers removed, packed parts unpacked with the "
                   "septet count) must concatenate to the unit stream TLC computes from the text under the reported coding, "
                   "the reported coding must be the requested one iff it can represent the text, a fitting text must come back "
                   "as one header-less part",
        level_note="ASCII/UCS-2/GSM-7 unit streams are computed by TLC from the text (Text.tla, Gsm7.tla); for Latin-1 (Windows-1252) "
                   "and GB18030 the x/text decoding of the concatenated payloads is logged by the driver and compared by TLC, and "
                   "representability is observed by calling the single-coding codec; packed parts are unpacked by a reference "
                   "unpacker that searches the septet count (Tiles)",
        rule="one event per EncodeCMPP/SMPPContentAndSplit call (text, coding, reference byte -> parts, reported coding): boundary "
             "shapes at 140/160 and k*134/k*153 +-2 with a multi-unit character at every offset -3..+3 of every part boundary, "
             "invalid coding numbers, unrepresentable texts, random texts; ParseLongSmsContent on all headers (intervals) and "
             "near misses; distinct = distinct events",
        assumptions=["x/text GB18030 and Windows-1252 tables", "TS 23.038 tables as transcribed"],
    ),
    "C07": dict(
        stages=[SPLIT],
        technique="same specification as C06 (Split.tla): part sizes, header octets, minimal part count against the greedy "
                  "whole-character reference, >255 parts, and ParseUDH for both header forms",
        level_text="On every recorded split TLC checks 0 < payload <= 134 octets / 153 septets, header = 05 00 03 ref total seq "
                   "with total = number of parts and seq = 1..total, number of parts <= the greedy whole-character reference "
                   "computed by TLC, and refusal above 255 parts; ParseLongSmsContent is compared with ParseUDH on every "
                   "(total,seq) for the swept references, all 65,536 16-bit references (interval classes), near-miss headers and "
                   "random strings",
        level_note="ASCII/UCS-2/GSM-7 unit streams are computed by TLC from the text (Text.tla, Gsm7.tla); for Latin-1 (Windows-1252) "
                   "and GB18030 the x/text decoding of the concatenated payloads is logged by the driver and compared by TLC, and "
                   "representability is observed by calling the single-coding codec; packed parts are unpacked by a reference "
                   "unpacker that searches the septet count (Tiles)",
        rule="one event per EncodeCMPP/SMPPContentAndSplit call (text, coding, reference byte -> parts, reported coding): boundary "
             "shapes at 140/160 and k*134/k*153 +-2 with a multi-unit character at every offset -3..+3 of every part boundary, "
             "invalid coding numbers, unrepresentable texts, random texts; ParseLongSmsContent on all headers (intervals) and "
             "near misses; distinct = distinct events",
        assumptions=["x/text GB18030 and Windows-1252 tables", "TS 23.038 tables as transcribed"],
    ),
    "C14": dict(
        stages=[SPLIT],
        technique="same specification as C06 (Split.tla/Text.tla): structural segmentation of every part payload into whole "
                  "characters (GSM-7 escape pairs, UTF-16 surrogate pairs, GB18030 1/2/4-octet forms)",
        level_text="TLC segments the payload of every part of every recorded multi-part split by the coding's structural rules "
                   "and requires the segmentation to end exactly at the payload end (packed GSM-7: every tiled septet chunk must "
                   "be whole characters); WholeOK is model-checked on the loops for all short texts, the fixed-width cut being "
                   "the negative configuration",
        level_note="ASCII/UCS-2/GSM-7 unit streams are computed by TLC from the text (Text.tla, Gsm7.tla); for Latin-1 (Windows-1252) "
                   "and GB18030 the x/text decoding of the concatenated payloads is logged by the driver and compared by TLC, and "
                   "representability is observed by calling the single-coding codec; packed parts are unpacked by a reference "
                   "unpacker that searches the septet count (Tiles)",
        rule="one event per EncodeCMPP/SMPPContentAndSplit call (text, coding, reference byte -> parts, reported coding): boundary "
             "shapes at 140/160 and k*134/k*153 +-2 with a multi-unit character at every offset -3..+3 of every part boundary, "
             "invalid coding numbers, unrepresentable texts, random texts; ParseLongSmsContent on all headers (intervals) and "
             "near misses; distinct = distinct events",
        assumptions=["x/text GB18030 and Windows-1252 tables", "TS 23.038 tables as transcribed"],
    ),
    "C08": dict(
        stages=[GSM7],
        technique="TS 23.038 tables and bit-stream packing transcribed into TLA+ (Gsm7.tla): TLC exhaustive on the streaming "
                  "packer / block unpacker state machine + TLC validation of every recorded call of all real entry points",
        level_text="TLC checks, for every septet sequence of length <=3 over 0..127 and <=8 over the branch alphabet, that the "
                   "streaming packer equals the bit-stream definition, UnpackN(Pack(s))=s, CR fill, and that the block-of-eight "
                   "unpacker answers within the allowed end-of-message ambiguities (the unpacker with the mid-message zero guard "
                   "is the negative configuration); table ASSUMEs check the alphabet is a bijection.  All real entry points "
                   "(Pack/Unpack/Encode/Decode, both transformers, GSM7Packed/Unpacked, three validators) are then validated "
                   "on single-bit wirings for lengths 1..64, the MC enumeration, all branch assignments around every block "
                   "boundary for lengths 1..40, random sequences up to 2000 septets, all 1,114,112 code points (intervals) "
                   "and all 256x256 septet pairs; every third judged call follows a series of refused calls (history independence)",
        level_note="the code-point sweep is classified element-wise in Go (round trip / refusal / agreement of entry points), TLC "
                   "judges the classes against the TS 23.038 repertoire; the transformers are exercised through transform.Bytes "
                   "(one Transform call), not in chunked streaming mode",
        rule="septet sequences (single-bit, exhaustive short, block-boundary assignments, random), texts, septet strings, pair "
             "rows, code-point intervals; distinct = distinct events excluding trace ids",
        assumptions=["transform.Bytes from x/text", "TS 23.038 tables as transcribed in Gsm7.tla"],
    ),
    "C17": dict(
        stages=[MSGID],
        technique="TLA+ bit-level definition of the CMPP Msg_Id (MsgId.tla): TLC exhaustive at scaled widths + TLC "
                  "validation of recorded compose/split/string calls bit for bit, plus interval-classified full sweeps",
        level_text="TLC checks split/compose identity, layout and string round trip for all 2^16 ids at scaled field widths "
                   "(shift/mask implementation shape vs. bit-sequence definition; a field one bit short is the negative "
                   "configuration).  On the real code every field boundary (0,1,max-1,max, each single bit, others at extremes), "
                   "random tuples and random/patterned 64-bit ids are validated bit-for-bit against the document's layout; "
                   "full-range sweeps of each field are executed element-wise in Go and TLC checks the interval classes tile "
                   "the range and are all exact",
        level_note="in the sweeps only reference-free identities are evaluated (in Go); bit positions are judged by TLC on the "
                   "fully logged events; 64-bit values travel as 8 octets because TLC integers are 32-bit",
        rule="tuples/ids at field boundaries + random; distinct = distinct Combine/Split/Str events and sweep intervals",
        assumptions=["driver's big-endian rendering of uint64 values", "fmt.Sscanf/Sprintf trusted only through the round trip"],
    ),
    "C04": dict(
        stages=[FRAME],
        technique="TLA+ model of stream framing (Frame.tla): TLC exhaustive over all arrival patterns/interleavings/"
                  "truncations at small scope + TLC trace validation of the real codecs over a scripted ConnReader",
        level_text="TLC explores every list of <=2 frames (bodies containing prefix-like octets), every arrival pattern, "
                   "every interleaving of Arrive/Decode/DecodeBlocked, every truncation point, both stream endings and "
                   "malformed prefixes 0..3, checking OutPrefix/Conserved/NoShortFrame/IncompleteConsumesNothing/"
                   "NoPartialFrame; the model without the lower bound on the prefix is a negative configuration that must "
                   "fail.  Both real codecs are then driven over every single-cut position of short streams, truncation at "
                   "every point, malformed prefixes and random multi-cut schedules; each returned frame/error and Size() "
                   "is validated step by step against the model",
        level_note="the scripted ConnReader in the harness is trusted to implement the contract documented in codec/codec.go; "
                   "frames above 64 KiB are not explored",
        rule="schedules = (frame list, tail, chunking, sequence of Arrive/Decode/DecodeBlocked steps); distinct = distinct "
             "Decode/DecodeBlocked events (result, frame, Size) ; Start/Arrive events are trivial",
        assumptions=["scripted ConnReader follows codec.go's documented contract",
                     "after an error the connection is closed (codec.go) - nothing further is checked on that stream"],
    ),
    "C20": dict(
        stages=[PACKET],
        technique="TLA+ state machine of packet.Writer/Reader (Packet.tla): TLC exhaustive over all short op sequences + "
                  "TLC trace validation of recorded real op sequences",
        level_text="(Also run here: Compose_WirePacket.tla - for all 58 PDU types x 3 sample assignments the sequence of writer primitives of an encoder leaves Wire's image and the mirrored reads return the fields; list elements written as C-strings is the negative configuration.)  TLC checks CountAgrees/BufIsLog/Inverse/sticky-error/ShrinksOnly on every sequence of <=3 writer ops "
                   "followed by mirrored or arbitrary reads (exhaustive, small alphabet); every public call of thousands of "
                   "random real op sequences (failures injected at every position) is then validated step by step against "
                   "the same state machine, so a primitive that miscounts, writes after an error, returns data after a "
                   "failure or overwrites the first error is rejected at the step where it happens",
        level_note="trusts the driver's big-endian decomposition of numeric arguments and Go's encoding/json; Written() after "
                   "an error and the consumption of a failing read are deliberately not compared (property is silent)",
        rule="random operation sequences on packet.Writer/Reader (writes with failures injected at every "
             "position, mirrored reads over the writer's output, arbitrary reads over prefixes and arbitrary "
             "inputs); one event per public call; distinct = distinct (operation, arguments, result, projected "
             "state) tuples excluding the trace id; NewW markers are trivial",
        assumptions=["numeric arguments are logged as big-endian octets computed by the driver",
                     "Written() after a recorded error and the amount consumed by a failing read are not compared"],
    ),
}

# properties without a check yet (reason shown in MANIFEST.not_applicable)
NOT_CLAIMED = {}
# commits in /repo that add verif-tagged hooks
HOOK_COMMITS = ["4ecfaca", "eb3717b", "d2740bb"]
