"""Runner framework: builds the Go harness against the current /repo tree, runs
TLC on the model configurations, runs the drivers, validates the recorded traces
with TLC, re-executes and re-validates every candidate violation, applies the
known-findings policy and writes the evidence file.

Exit codes of a check: 0 property held on everything explored (KNOWN-FINDING
lines allowed), 1 reproduced violation not listed as open finding, 2
infrastructure failure (never a verdict)."""
import concurrent.futures as cf
import hashlib
import json
import os
import re
import shutil
import subprocess
import sys
import time

VERIF = os.path.dirname(os.path.dirname(os.path.abspath(__file__)))
REPO = os.environ.get("VERIF_REPO", "/repo")
SPEC = os.path.join(VERIF, "spec")
TLA_CP = "/opt/veriftools/tla/tla2tools.jar:/opt/veriftools/tla/CommunityModules-deps.jar"
GOENV = dict(GOFLAGS="-mod=mod", GOPROXY="off", GOSUMDB="off", GOTOOLCHAIN="local")


class Infra(Exception):
    """infrastructure failure: exit 2, never a verdict"""


def log(*a):
    print(*a, file=sys.stderr, flush=True)


# --------------------------------------------------------------------------- build

def build_harness(workdir, race=False):
    """copy the harness sources, point the replace directive at the current repo
    tree and build with the verif tag.  Always rebuilds from REPO's working tree
    (the go build cache makes the unchanged case fast)."""
    h = os.path.join(workdir, "h")
    shutil.rmtree(h, ignore_errors=True)
    os.makedirs(h)
    src = os.path.join(VERIF, "harness")
    for f in os.listdir(src):
        if f.endswith(".go") or f.endswith(".json"):
            shutil.copy(os.path.join(src, f), h)
    with open(os.path.join(src, "go.mod.tmpl")) as f:
        mod = f.read().replace("@REPO@", REPO)
    with open(os.path.join(h, "go.mod"), "w") as f:
        f.write(mod)
    shutil.copy(os.path.join(REPO, "go.sum"), os.path.join(h, "go.sum"))
    out = os.path.join(workdir, "driver-race" if race else "driver")
    env = dict(os.environ, **GOENV)
    cmd = ["go", "build", "-tags", "verif"] + (["-race"] if race else []) + ["-o", out, "."]
    p = subprocess.run(cmd, cwd=h, env=env, capture_output=True, text=True)
    if p.returncode != 0:
        raise Infra("harness build failed (does the repository still compile?):\n" + p.stdout + p.stderr)
    return out


# --------------------------------------------------------------------------- TLC

def _java(heap):
    return ["java", "-XX:+UseParallelGC", "-Xmx%s" % heap, "-Xss512m", "-cp", TLA_CP, "tlc2.TLC"]


_GEN = re.compile(r"(\d+) states generated, (\d+) distinct states found")


def tlc_mc(spec, cfg, workdir, expect="pass", workers=16, timeout=900, heap="6g", extra=()):
    """run one model configuration; returns dict(generated, distinct, ok, out)"""
    meta = os.path.join(workdir, "meta_" + os.path.basename(cfg).replace(".cfg", ""))
    shutil.rmtree(meta, ignore_errors=True)
    cmd = _java(heap) + ["-workers", str(workers), "-metadir", meta, "-noGenerateSpecTE",
                         "-config", os.path.join(SPEC, cfg)] + list(extra) + [os.path.join(SPEC, spec)]
    t0 = time.time()
    try:
        p = subprocess.run(cmd, cwd=workdir, capture_output=True, text=True, timeout=timeout)
    except subprocess.TimeoutExpired:
        raise Infra("TLC timeout on %s/%s" % (spec, cfg))
    finally:
        shutil.rmtree(meta, ignore_errors=True)
    out = p.stdout + p.stderr
    m = _GEN.findall(out)
    gen, dist = (int(m[-1][0]), int(m[-1][1])) if m else (0, 0)
    completed = "Model checking completed. No error has been found." in out
    violated = (not completed) and (("is violated" in out) or ("is equal to FALSE" in out)
                                    or ("Temporal properties were violated" in out) or ("Deadlock reached" in out))
    if expect == "pass":
        if not completed:
            raise Infra("model configuration %s/%s did not pass (the specification is wrong, not the code):\n%s"
                        % (spec, cfg, out[-3000:]))
    else:
        if not violated:
            raise Infra("negative configuration %s/%s unexpectedly passed (the model does not discriminate):\n%s"
                        % (spec, cfg, out[-3000:]))
    return dict(spec=spec, cfg=cfg, expect=expect, generated=gen, distinct=dist,
                wall_s=round(time.time() - t0, 2), out=out)


def apalache_inductive(spec, cinit, inv, workdir, expect="pass", timeout=600):
    """Apalache: the invariant holds initially (Init, length 0) and is preserved by every step from ANY state that
    satisfies it (IndInit, length 1) - an inductive invariant, valid for any number of steps."""
    out_dir = os.path.join(workdir, "apalache_" + cinit)
    t0 = time.time()
    results = []
    for init, length in (("Init", 0), ("IndInit", 1)):
        cmd = ["apalache-mc", "check", "--cinit=" + cinit, "--init=" + init, "--inv=" + inv, "--length=%d" % length,
               "--out-dir=" + out_dir, os.path.join(SPEC, spec)]
        try:
            p = subprocess.run(cmd, cwd=workdir, capture_output=True, text=True, timeout=timeout)
        except subprocess.TimeoutExpired:
            raise Infra("Apalache timeout on %s (%s)" % (spec, cinit))
        out = p.stdout + p.stderr
        ok = "EXITCODE: OK" in out and "Checker reports no error" in out
        bad = "Checker has found an error" in out or "EXITCODE: ERROR (12)" in out
        if not ok and not bad:
            raise Infra("Apalache did not give a verdict on %s (%s, %s):\n%s" % (spec, cinit, init, out[-2000:]))
        results.append(ok)
    shutil.rmtree(out_dir, ignore_errors=True)
    holds = all(results)
    if expect == "pass" and not holds:
        raise Infra("%s: %s is not an inductive invariant under %s (the specification is wrong, not the code)" % (spec, inv, cinit))
    if expect == "fail" and holds:
        raise Infra("%s: negative configuration %s unexpectedly inductive (the model does not discriminate)" % (spec, cinit))
    return dict(spec=spec, cinit=cinit, inv=inv, expect=expect, inductive=holds, wall_s=round(time.time() - t0, 2))


_BEH = re.compile(r'<<"BEH", ("(?:[^"\\]|\\.)*")>>')


def tlc_behaviours(spec, cfg, num, depth, seed, workdir, family):
    """run TLC in simulation mode on a Gen_* specification and convert the printed behaviours into driver cases"""
    from replay import CONVERTERS
    meta = os.path.join(workdir, "meta_gen_" + family)
    cmd = _java("3g") + ["-workers", "1", "-simulate", "num=%d" % num, "-depth", str(depth), "-seed", str(seed),
                         "-metadir", meta, "-noGenerateSpecTE", "-config", os.path.join(SPEC, cfg), os.path.join(SPEC, spec)]
    try:
        p = subprocess.run(cmd, cwd=workdir, capture_output=True, text=True, timeout=900)
    except subprocess.TimeoutExpired:
        raise Infra("TLC timeout generating behaviours from %s" % spec)
    finally:
        shutil.rmtree(meta, ignore_errors=True)
    seen, cases = set(), []
    for m in _BEH.finditer(p.stdout):
        s = json.loads(m.group(1))       # unescape the TLA+ string literal
        if s in seen:
            continue
        seen.add(s)
        if len(seen) > 12 * num:        # TLC also prints the sibling successors it did not take: keep a bounded sample
            break
        cases.extend(CONVERTERS[family](json.loads(s), 50000000 + len(seen)))
    if not cases:
        raise Infra("no behaviours generated by %s/%s:\n%s" % (spec, cfg, (p.stdout + p.stderr)[-2000:]))
    return cases


def go_fuzz(workdir, secs, seed):
    """run Go's native coverage-guided fuzzer on the harness' FuzzDecode target; returns the corpus size"""
    h = os.path.join(workdir, "h")
    shutil.copy(os.path.join(VERIF, "harness", "fuzz_test.go"), h)
    cache = os.path.join(workdir, "fuzzcache")
    env = dict(os.environ, **GOENV)
    cmd = ["go", "test", "-tags", "verif", "-run", "^$", "-fuzz", "FuzzDecode", "-fuzztime", "%ds" % secs,
           "-test.fuzzcachedir", cache, "."]
    try:
        p = subprocess.run(cmd, cwd=h, env=env, capture_output=True, text=True, timeout=secs + 600)
    except subprocess.TimeoutExpired:
        raise Infra("go test -fuzz did not finish")
    d = os.path.join(cache, "FuzzDecode")
    # a crasher found by the engine itself is kept in testdata/: replay it too
    td = os.path.join(h, "testdata", "fuzz", "FuzzDecode")
    if os.path.isdir(td):
        os.makedirs(d, exist_ok=True)
        for f in os.listdir(td):
            shutil.copy(os.path.join(td, f), d)
    if not os.path.isdir(d):
        raise Infra("go test -fuzz produced no corpus:\n" + (p.stdout + p.stderr)[-2000:])
    return len(os.listdir(d))


_VIOL = re.compile(r'<<\s*"VIOL",\s*(-?\d+),\s*(\d+),\s*\{([^}]*)\}\s*>>', re.S)
_DONE = re.compile(r'<<\s*"DONE",\s*(\d+),\s*(\d+)\s*>>')


def tlc_trace(spec, cfg, tracefile, workdir, timeout=1800, heap="3g"):
    """validate one ndjson trace file; returns (violations, n_events_consumed, out)
    where violations = [(trace id, line, [tags])].  If TLC does not finish in time, the violations it has
    already printed are still its judgements of recorded steps: they are returned (n = -1); a timeout without
    any is an infrastructure failure."""
    meta = os.path.join(workdir, "meta_" + os.path.basename(tracefile))
    shutil.rmtree(meta, ignore_errors=True)
    cmd = _java(heap) + ["-workers", "1", "-metadir", meta, "-noGenerateSpecTE",
                         "-config", os.path.join(SPEC, cfg), os.path.join(SPEC, spec)]
    env = dict(os.environ, VERIF_TRACE=tracefile)
    outpath = os.path.join(workdir, "tlcout_" + os.path.basename(tracefile) + ".txt")
    timed_out = False
    try:
        with open(outpath, "w") as fo:
            proc = subprocess.Popen(cmd, cwd=workdir, env=env, stdout=fo, stderr=subprocess.STDOUT, text=True)
            try:
                proc.wait(timeout=timeout)
            except subprocess.TimeoutExpired:
                timed_out = True
                proc.kill()
                proc.wait()
        with open(outpath) as fi:
            out = fi.read()
    finally:
        shutil.rmtree(meta, ignore_errors=True)
        try:
            os.remove(outpath)
        except OSError:
            pass
    viols = []
    for m in _VIOL.finditer(out):
        tags = re.findall(r'"([^"]+)"', m.group(3))
        viols.append((int(m.group(1)), int(m.group(2)), tags))
    if timed_out:
        if not viols:
            raise Infra("TLC timeout validating %s" % tracefile)
        log("  TLC did not finish %s in %d s; the %d violations it had judged by then are used" %
            (os.path.basename(tracefile), timeout, len(viols)))
        return viols, -1, out
    d = _DONE.search(out)
    if not d or "Model checking completed. No error has been found." not in out:
        raise Infra("trace validation of %s did not run to completion:\n%s" % (tracefile, out[-4000:]))
    return viols, int(d.group(1)), out


# --------------------------------------------------------------------------- driver

def run_driver(driver, args, timeout=3600, env=None):
    e = dict(os.environ)
    if env:
        e.update(env)
    try:
        p = subprocess.run([driver] + args, capture_output=True, text=True, timeout=timeout, env=e)
    except subprocess.TimeoutExpired:
        raise Infra("driver timeout: " + " ".join(args))
    if p.returncode != 0:
        raise Infra("driver failed (%d): %s\n%s" % (p.returncode, " ".join(args), (p.stdout + p.stderr)[-3000:]))
    return p.stderr


def read_lines(path, wanted):
    """return {lineno: parsed json} for the wanted 1-based line numbers"""
    wanted = set(wanted)
    out = {}
    if not wanted:
        return out
    mx = max(wanted)
    with open(path) as f:
        for i, line in enumerate(f, 1):
            if i in wanted:
                out[i] = json.loads(line)
            if i >= mx:
                break
    return out


def find_case(cases_path, t):
    with open(cases_path) as f:
        for line in f:
            if ('"t":%d,' % t) in line or ('"t":%d}' % t) in line or ('"t": %d,' % t) in line or ('"t": %d}' % t) in line:
                c = json.loads(line)
                if c.get("t") == t:
                    return c
    return None


def cases_before(cases_path, t, limit):
    """the (at most `limit`) cases the generating process executed immediately before case t"""
    out = []
    with open(cases_path) as f:
        for line in f:
            c = json.loads(line)
            if c.get("t") == t:
                break
            out.append(c)
            if len(out) > limit:
                out.pop(0)
    return out


# --------------------------------------------------------------------------- findings

def load_findings():
    p = os.path.join(VERIF, "known_findings.json")
    if not os.path.exists(p):
        return []
    with open(p) as f:
        return json.load(f).get("findings", [])


def match_finding(findings, prop, tag, site):
    for k in findings:
        if k.get("status") != "open":
            continue
        if k.get("property") != prop or k.get("tag") != tag:
            continue
        ks = k.get("site")
        if ks is None or ks == site:
            return k
    return None


# --------------------------------------------------------------------------- evidence

def ev_hash(e):
    d = dict(e)
    d.pop("t", None)
    return hashlib.md5(json.dumps(d, sort_keys=True).encode()).hexdigest()


def first_events_not(path, reset_ev):
    """trace ids whose first event is not the reset event of the (stateful) trace specification"""
    seen, bad = set(), []
    with open(path) as f:
        for line in f:
            e = json.loads(line)
            t = e.get("t")
            if t not in seen:
                seen.add(t)
                if e.get("ev") != reset_ev:
                    bad.append((t, e.get("ev")))
    return bad


def trace_stats(paths, is_nontrivial=None, max_samples=3):
    """count events, traces and distinct non-trivial events of the trace files"""
    n_ev = 0
    tids = set()
    distinct = set()
    samples = []
    for p in paths:
        with open(p) as f:
            for line in f:
                n_ev += 1
                e = json.loads(line)
                tids.add(e.get("t"))
                if is_nontrivial is None or is_nontrivial(e):
                    h = ev_hash(e)
                    if h not in distinct:
                        distinct.add(h)
                        if len(samples) < max_samples and len(line) < 1500:
                            samples.append(e)
    return n_ev, len(tids), len(distinct), samples


def write_evidence(prop, tier, seed, coverage, assumptions, wall, violations):
    # evidence/ describes runs against /repo itself; a run against another tree (seeded-change evaluation with
    # VERIF_REPO) is written elsewhere so that it never replaces it
    evdir = os.path.join(VERIF, "evidence" if os.path.realpath(REPO) == "/repo" else "evidence_other")
    os.makedirs(evdir, exist_ok=True)
    doc = dict(property_id=prop, tier=tier, seed=seed, level="model_checking", coverage=coverage,
               assumptions=assumptions, wall_s=round(wall, 2), violations=violations)
    with open(os.path.join(evdir, prop + ".json"), "w") as f:
        json.dump(doc, f, indent=1, sort_keys=True)
        f.write("\n")


# --------------------------------------------------------------------------- pipeline

class Stage:
    """one family pipeline: model configurations + driver parts + trace spec.

    mc:    {tier: [(spec, cfg, 'pass'|'fail'), ...]}
    parts: {tier: [(part name, shards), ...]}   driver `gen -part name -shard i/k`
    trace: (spec, cfg)
    """

    def __init__(self, family, mc, parts, trace, nontrivial=None, race=False, driver_env=None, gen_timeout=3600,
                 behaviours=None, reset_ev=None):
        # reset_ev: the event every trace of a stateful trace specification must begin with (the specification
        # skips lines until it has seen one); a trace that begins otherwise would not be judged at all
        self.reset_ev = reset_ev
        self.family, self.mc, self.parts, self.trace = family, mc, parts, trace
        # behaviours: {tier: [(Gen spec, cfg, num walks, depth)]} - TLC -simulate output replayed on the real code
        self.behaviours = behaviours or {}
        self.fuzz = {}      # {tier: seconds of native Go fuzzing whose corpus is replayed} (C03)
        self.apalache = {}  # {tier: [(spec, cinit, invariant, 'pass'|'fail')]} inductive invariants checked by Apalache
        self.nontrivial = nontrivial
        self.race = race
        self.driver_env = driver_env
        self.gen_timeout = gen_timeout


def run_check(prop, stages, tier, seed, assumptions, rule, replay=None):
    t0 = time.time()
    work = os.path.join(VERIF, "work", "%s-%s-%d" % (prop, tier, os.getpid()))
    shutil.rmtree(work, ignore_errors=True)
    os.makedirs(work)
    findings = load_findings()
    status = 0
    cov = dict(states=0, transitions=0, traces_validated_against_impl=0, evaluations=0,
               distinct_nontrivial=0, samples=[], rule=rule, model_runs=[], negative_configs_ok=0,
               candidate_violations=0, reproduced_violations=0, known_findings_seen=[], exhaustive=False)
    n_viol = 0
    try:
        drivers = {}
        for st in stages:
            if st.race not in drivers:
                drivers[st.race] = build_harness(work, race=st.race)
        if replay:
            n_viol = _replay(prop, stages, drivers, work, replay, findings)
            status = 1 if n_viol else 0
            return status
        # ---- 1. the model alone
        for st in stages:
            for spec, cfg, expect in st.mc.get(tier, []):
                r = tlc_mc(spec, cfg, work, expect=expect)
                log("[mc] %s/%s expect=%s generated=%d distinct=%d %.1fs" %
                    (spec, cfg, expect, r["generated"], r["distinct"], r["wall_s"]))
                cov["model_runs"].append({k: r[k] for k in ("spec", "cfg", "expect", "generated", "distinct", "wall_s")})
                if expect == "pass":
                    cov["states"] += r["distinct"]
                    cov["transitions"] += r["generated"]
                else:
                    cov["negative_configs_ok"] += 1
            for spec, cinit, inv, expect in getattr(st, "apalache", {}).get(tier, []):
                r = apalache_inductive(spec, cinit, inv, work, expect=expect)
                log("[apalache] %s --cinit=%s inductive invariant %s: %s (expect=%s) %.1fs" %
                    (spec, cinit, inv, r["inductive"], expect, r["wall_s"]))
                cov.setdefault("inductive_invariants", []).append(r)
        # ---- 2. real executions, recorded
        jobs = []
        for si, st in enumerate(stages):
            for part, shards in st.parts.get(tier, []):
                for i in range(shards):
                    base = os.path.join(work, "%s_%s_%d" % (st.family, part or "all", i))
                    jobs.append((si, st, part, i, shards, base + ".cases.ndjson", base + ".trace.ndjson"))

        def gen(job):
            si, st, part, i, shards, cases, trace = job
            args = [st.family, "gen", "-tier", tier, "-seed", str(seed), "-shard", "%d/%d" % (i, shards),
                    "-cases", cases, "-out", trace]
            if part:
                args += ["-part", part]
            env = st.driver_env
            if env == "RACELOG":
                env = dict(GORACE="log_path=%s exitcode=0" % (trace + ".race"))
            run_driver(drivers[st.race], args, env=env, timeout=st.gen_timeout)
            return job

        with cf.ThreadPoolExecutor(max_workers=8) as ex:
            list(ex.map(gen, jobs))
        # ---- 2b. spec -> code: behaviours generated by TLC are stepped through the real code
        for si, st in enumerate(stages):
            for bi, (spec, cfg, num, depth) in enumerate(st.behaviours.get(tier, [])):
                cases = tlc_behaviours(spec, cfg, num, depth, seed, work, st.family)
                base = os.path.join(work, "%s_beh%d" % (st.family, bi))
                with open(base + ".cases.ndjson", "w") as f:
                    for c in cases:
                        f.write(json.dumps(c) + "\n")
                run_driver(drivers[st.race], [st.family, "run", "-cases", base + ".cases.ndjson", "-out", base + ".trace.ndjson"])
                jobs.append((si, st, "beh", bi, 1, base + ".cases.ndjson", base + ".trace.ndjson"))
                cov["behaviours_replayed"] = cov.get("behaviours_replayed", 0) + len(cases)
                log("[gen] %s/%s: %d TLC behaviours replayed on the real code" % (spec, cfg, len(cases)))
        # ---- 2c. coverage-guided fuzzing as an extra input source (its corpus is replayed and judged like the rest)
        for si, st in enumerate(stages):
            secs = getattr(st, "fuzz", {}).get(tier, 0)
            if secs:
                base = os.path.join(work, "%s_fuzzcorpus" % st.family)
                n = go_fuzz(work, secs, seed)
                run_driver(drivers[st.race], [st.family, "corpus", "-part", os.path.join(work, "fuzzcache", "FuzzDecode"),
                                              "-cases", base + ".cases.ndjson", "-out", base + ".trace.ndjson"])
                jobs.append((si, st, "fuzzcorpus", 0, 1, base + ".cases.ndjson", base + ".trace.ndjson"))
                cov["fuzz_corpus_inputs"] = n
                log("[fuzz] go test -fuzz FuzzDecode for %ds: %d corpus inputs replayed" % (secs, n))
        # ---- 3. TLC judges every recorded step
        def val(job):
            si, st, part, i, shards, cases, trace = job
            if os.path.getsize(trace) == 0:
                return job, [], 0
            v, n, _ = tlc_trace(st.trace[0], st.trace[1], trace, work)
            return job, v, n

        results = []
        with cf.ThreadPoolExecutor(max_workers=8) as ex:
            for r in ex.map(val, jobs):
                results.append(r)
        traces = []
        cands = []   # (job, t, line, tag)
        drift = {}
        for job, viols, n in results:
            traces.append(job[6])
            for t, line, tags in viols:
                for tag in tags:
                    if tag.split(".")[0] == prop:
                        cands.append((job, t, line, tag))
                    elif tag.split(".")[0] == "X":
                        # helpers outside the listed properties: specification drift, reported, never a verdict
                        drift[tag] = drift.get(tag, 0) + 1
        if drift:
            cov["spec_drift_outside_listed_properties"] = drift
            log("  note: helper behaviour differs from Helpers.tla (no verdict): %s" % drift)
        for job, viols, n in results:
            st = job[1]
            if st.reset_ev:
                bad = first_events_not(job[6], st.reset_ev)
                if bad:
                    raise Infra("driver %s emitted traces that do not begin with %s (they would not be judged): %s"
                                % (st.family, st.reset_ev, bad[:5]))
        n_ev, n_tr, n_dist, samples = trace_stats(traces, stages[0].nontrivial)
        cov["evaluations"] = n_ev
        cov["traces_validated_against_impl"] = n_tr
        cov["distinct_nontrivial"] = n_dist
        cov["samples"] = samples
        cov["candidate_violations"] = len(cands)
        # ---- 4. reproduce each distinct (tag, site) group in a fresh process
        groups = {}
        unreproduced = []
        by_trace = {}
        for job, t, line, tag in cands:
            by_trace.setdefault(job[6], set()).add(line)
        evs = {p: read_lines(p, ls) for p, ls in by_trace.items()}
        for job, t, line, tag in cands:
            e = evs[job[6]][line]
            site = str(e.get("site", e.get("ev")))
            groups.setdefault((tag, site), []).append((job, t, line, e))
        for (tag, site), members in sorted(groups.items()):
            confirmed = None
            for job, t, line, e in members[:3]:
                st = job[1]
                case = find_case(job[5], t)
                if case is None:
                    raise Infra("case %d not found in %s" % (t, job[5]))
                rp = _save_replay(prop, st.family, tag, site, case)
                if _reproduces(st, drivers[st.race], work, rp, tag):
                    confirmed = rp
                    break
                os.remove(rp)
                if (job, t) == (members[0][0], members[0][1]) and not st.race:
                    # the step may depend on what the process did before it (the properties hold for every history):
                    # execute the case again after the calls that preceded it in the generating process, shortest first
                    for k in (1, 8, 64, 512, 4096, 100000):   # (the last one: everything the generating process did before)
                        hist = cases_before(job[5], t, k)
                        rp = _save_replay(prop, st.family, tag, site, case, history=hist)
                        if _reproduces(st, drivers[st.race], work, rp, tag):
                            confirmed = rp
                            break
                        os.remove(rp)
                        if len(hist) < k:
                            break
                    if confirmed:
                        break
            if confirmed is None:
                # not a verdict (never reported as a violation); remembered, and exit 2 unless something else is confirmed
                unreproduced.append("%s at %s" % (tag, site))
                log("  candidate %s at %s did not reproduce in a fresh process: not a verdict" % (tag, site))
                continue
            cov["reproduced_violations"] += len(members)
            k = match_finding(findings, prop, tag, site)
            if k:
                print("KNOWN-FINDING: property=%s %s [%s at %s; %d events this run]" %
                      (prop, k.get("what", tag), tag, site, len(members)), flush=True)
                cov["known_findings_seen"].append(dict(tag=tag, site=site, events=len(members)))
                os.remove(confirmed)
            else:
                n_viol += 1
                print("VIOLATION property=%s replay=%s" % (prop, confirmed), flush=True)
                log("  tag=%s site=%s events=%d first=%s" % (tag, site, len(members), json.dumps(members[0][3])[:600]))
                status = 1
        cov["unreproduced_candidates"] = unreproduced
        if unreproduced and status == 0:
            raise Infra("candidate violations did not reproduce in a fresh process (flaky driver, nondeterministic "
                        "case or overloaded machine), no verdict: " + "; ".join(unreproduced))
        return status
    finally:
        if not replay:
            write_evidence(prop, tier, seed, cov, assumptions, time.time() - t0, n_viol)
        shutil.rmtree(work, ignore_errors=True)


def _save_replay(prop, family, tag, site, case, history=None):
    d = os.path.join(VERIF, "replays", prop)
    os.makedirs(d, exist_ok=True)
    h = hashlib.md5(json.dumps([case, history], sort_keys=True).encode()).hexdigest()[:10]
    p = os.path.join(d, "%s_%s.json" % (tag.replace("/", "_"), h))
    doc = dict(property=prop, family=family, tag=tag, site=site, case=case)
    if history:
        doc["history"] = history     # cases executed before it in the same process
    with open(p, "w") as f:
        json.dump(doc, f)
        f.write("\n")
    return p


def _reproduces(st, driver, work, replay_path, tag, _attempt=0):
    with open(replay_path) as f:
        doc = json.load(f)
    cases = os.path.join(work, "repro.cases.ndjson")
    trace = os.path.join(work, "repro.trace.ndjson")
    with open(cases, "w") as f:
        for c in doc.get("history", []):
            f.write(json.dumps(c) + "\n")
        f.write(json.dumps(doc["case"]) + "\n")
    env = st.driver_env
    if env == "RACELOG":
        env = dict(GORACE="log_path=%s exitcode=0" % (trace + ".race"), VERIF_CONC_REPS="25")
    run_driver(driver, [st.family, "run", "-cases", cases, "-out", trace], env=env)
    viols, n, _ = tlc_trace(st.trace[0], st.trace[1], trace, work, timeout=600)
    if any(tag in tags for t_, _, tags in viols if t_ == doc["case"].get("t", t_)):
        return True
    if st.race and _attempt < 4:
        # schedule-dependent observation (race detector, parallel run): the same case is executed again
        return _reproduces(st, driver, work, replay_path, tag, _attempt + 1)
    return False


def _replay(prop, stages, drivers, work, replay_path, findings):
    with open(replay_path) as f:
        doc = json.load(f)
    st = [s for s in stages if s.family == doc["family"]]
    if not st:
        raise Infra("replay file belongs to family %s" % doc["family"])
    st = st[0]
    if _reproduces(st, drivers[st.race], work, replay_path, doc["tag"]):
        k = match_finding(findings, prop, doc["tag"], doc.get("site"))
        if k:
            print("KNOWN-FINDING: property=%s %s" % (prop, k.get("what", doc["tag"])))
            return 0
        print("VIOLATION property=%s replay=%s" % (prop, replay_path))
        return 1
    print("replay: not reproduced on the current tree")
    return 0
