"""spec -> code: convert behaviours printed by TLC (-simulate on Gen_*.tla) into driver cases."""
import json


def conv_packet(beh, tid):
    ops = []
    for o in beh:
        name = o["op"]
        if name == "NewR":
            ops.append({"op": "NewR", "src": "pre", "k": o["n"]})
        elif name in ("WU", "WBytes", "WStr", "WCStr"):
            ops.append({"op": name, "v": o["v"]})
        elif name == "WFix":
            ops.append({"op": name, "v": o["v"], "n": o["n"]})
        elif name in ("OBytes", "OBytesLen"):
            ops.append({"op": name})
        else:
            ops.append({"op": name, "n": o["n"], "mi": 0})
    return [{"t": tid, "ops": ops}]


def conv_frame(beh, tid):
    init, steps = beh["init"], beh["steps"]
    cuts, seq = [], []
    for s in steps:
        if s["a"] == "A":
            cuts.append(s["k"]); seq.append("A")
        elif s["a"] == "D":
            seq.append("D")
        else:
            if s["k"] > 0:
                cuts.append(s["k"])
            seq.append("B")
    out = []
    for i, cd in enumerate(("cmpp", "smpp")):
        out.append({"t": tid * 2 + i, "codec": cd, "sent": init["sent"], "stream": init["stream"], "cuts": cuts,
                    "fault": init["fault"], "steps": seq})
    return out


def conv_session(beh, tid):
    script, open_req = [], {}
    for s in beh["steps"]:
        key = (tuple(s["cmd"]), tuple(s["sid"]))
        if s["a"] == "S":
            fl = s["cmd"][3] if s["type"] == "smpp34.Bind" else 0
            script.append({"a": "S", "type": s["type"], "seq": s["sid"], "flavour": fl})
            open_req[key] = s["k"]
        elif s["a"] == "R":
            script.append({"a": "R", "idx": open_req.get(key, 0)})
        else:
            req = ((s["cmd"][0] - 128,) + tuple(s["cmd"][1:]), tuple(s["sid"]))
            script.append({"a": "C", "idx": open_req.get(req, 0)})
    return [{"t": tid, "pkg": beh["pkg"], "script": script}]


def conv_builder(beh, tid):
    return [{"t": tid, "steps": [{"a": s["a"], "v": list(s["v"])} for s in beh["steps"]]}]


def conv_container(beh, tid):
    steps = [{"a": s["a"], "t": s["t"], "v": list(s["v"])} for s in beh["steps"]]
    return [{"t": tid * 2, "kind": "smpp", "steps": steps}, {"t": tid * 2 + 1, "kind": "smgp", "steps": steps}]


def conv_steps(beh, tid):
    """logger / stringer: the steps go to the driver as they are"""
    return [{"t": tid, "steps": beh["steps"]}]


CONVERTERS = {"logger": conv_steps, "stringer": conv_steps,
              "packet": conv_packet, "frame": conv_frame, "session": conv_session, "builder": conv_builder,
              "container": conv_container}
