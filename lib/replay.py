"""spec -> code: convert behaviours printed by TLC (-simulate on Gen_*.tla) into driver cases."""
import json


def conv_packet(beh, tid):
    ops = []
    for o in beh:
        name = o["op"]
        if name == "NewR":
            ops.append({"op": "NewR", "src": "pre", "k": o["n"]})
        elif name in ("WU", "WBytes", "WStr", "WCStr"):
            ops.append({"op": name, "v": o["v"]})
        elif name == "WFix":
            ops.append({"op": name, "v": o["v"], "n": o["n"]})
        elif name in ("OBytes", "OBytesLen"):
            ops.append({"op": name})
        else:
            ops.append({"op": name, "n": o["n"], "mi": 0})
    return [{"t": tid, "ops": ops}]


def conv_frame(beh, tid):
    init, steps = beh["init"], beh["steps"]
    cuts, seq = [], []
    for s in steps:
        if s["a"] == "A":
            cuts.append(s["k"]); seq.append("A")
        elif s["a"] == "D":
            seq.append("D")
        else:
            if s["k"] > 0:
                cuts.append(s["k"])
            seq.append("B")
    out = []
    for i, cd in enumerate(("cmpp", "smpp")):
        out.append({"t": tid * 2 + i, "codec": cd, "sent": init["sent"], "stream": init["stream"], "cuts": cuts,
                    "fault": init["fault"], "steps": seq})
    return out


CONVERTERS = {"packet": conv_packet, "frame": conv_frame}
