#!/usr/bin/env python3
"""Binding self-test (bin/selftest; not a registered check).

For every family pipeline of lib/checks.py:
  1. record a real execution of /repo (one shard of the quick tier) and let TLC judge it -> the accepted cases;
  2. for every event type of the trace and every field of its events, copy an accepted case, corrupt that ONE field of that
     ONE event (flip a boolean, add 1 to a number, change / drop / add an element of a sequence, append to a string) and let
     TLC judge all copies in one run.  A copy that is still accepted shows a field the trace specification does not bind
     (labels such as the site name, inputs that do not influence the judged outcome); a copy that is rejected shows the
     binding.  Every judged event type must have at least one bound field, and the uncorrupted copies that are carried along
     must stay accepted - otherwise the self-test fails.
The matrix is written to /verif/evidence_other/binding.json and printed.

usage: selftest.py [family ...]
"""
import json, os, sys, shutil, time, copy, collections
import concurrent.futures as cf
sys.path.insert(0, os.path.dirname(os.path.abspath(__file__)))
import vf, checks

# corruptions that aim at the judged domain of a field where "a slightly different value" is still a legal one
OVERRIDE = {("fuzz", "Fuzz", "outcome"): "panic", ("fuzz", "Fuzz", "alloc"): 1 << 30}
SKIP_FIELDS = {"t", "ev", "site"}      # case number, event name (it selects the action), grouping label of the pipeline
PER_TYPE = 4                           # accepted sample events per event type
BASE_T = 5000000


# branches of the specification that mirror a guard of the code which no input can reach
UNREACHABLE_BY_DESIGN = {
    "MC_Split:63": "IterPackedOld (the packed splitter before the fix, kept as the negative configuration): 'begin >= end of "
                   "text while parts remain' mirrors the loop guard of the old code; the part count is ceil(len/Per) and a part "
                   "never takes more than Per septets, so the text cannot be used up early",
}


def corrupt(v):
    """a different value of the same JSON shape, or None if there is nothing to corrupt"""
    if isinstance(v, bool):
        return not v
    if isinstance(v, int):
        return v + 1
    if isinstance(v, float):
        return v + 1.0
    if isinstance(v, str):
        return v + "x"
    if isinstance(v, list):
        if not v:
            return None  # an empty sequence has no element whose type we know
        last = v[-1]
        c = corrupt(last)
        if c is None:
            return v[:-1]
        return v[:-1] + [c]
    if isinstance(v, dict):
        for k in sorted(v):
            c = corrupt(v[k])
            if c is not None:
                d = dict(v)
                d[k] = c
                return d
    return None


def variants(v):
    """several single-place corruptions of one field value: a sequence is changed at its first, middle and last element,
    a record in each of its (first six) fields"""
    out = []
    if isinstance(v, list) and v:
        for i in sorted({0, len(v) // 2, len(v) - 1}):
            c = corrupt(v[i])
            if c is not None:
                out.append(v[:i] + [c] + v[i + 1:])
        out.append(v[:-1])
    elif isinstance(v, dict):
        for k in sorted(v)[:6]:
            c = corrupt(v[k])
            if c is not None:
                d = dict(v)
                d[k] = c
                out.append(d)
    else:
        c = corrupt(v)
        if c is not None:
            out.append(c)
    return out


def stages():
    seen, out = set(), []
    for prop in sorted(checks.CHECKS):
        for st in checks.CHECKS[prop]["stages"]:
            key = (st.family, st.trace)
            if key not in seen:
                seen.add(key)
                out.append((prop, st))
    return out


def group_cases(lines):
    cases, cur, cur_t = [], [], None
    for e in lines:
        if e.get("t") != cur_t and cur:
            cases.append(cur)
            cur = []
        cur_t = e.get("t")
        cur.append(e)
    if cur:
        cases.append(cur)
    return cases


def coverage_main(want):
    """every positive model configuration of the quick tier under -coverage 1: an action that was never taken, or an
    invariant that was never evaluated, makes the run vacuous for it"""
    import re
    work = os.path.join(vf.VERIF, "work", "selfcov-%d" % os.getpid())
    shutil.rmtree(work, ignore_errors=True)
    os.makedirs(work)
    report, failed, seen, all_actions, all_expr = {}, [], set(), {}, {}
    act = re.compile(r"^<(\w+) line (\d+), col \d+ to line \d+, col \d+ of module (\w+)(?: \([\d ]+\))?>: (\d+):(\d+)$", re.M)
    expr = re.compile(r"^\s*\|*line (\d+), col (\d+) to line (\d+), col (\d+) of module (\w+): (\d+)(?::\d+)?$", re.M)
    try:
        for prop, st in stages():
            if want and st.family not in want:
                continue
            for spec, cfg, expect in st.mc.get("quick", []):
                if (spec, cfg) in seen:
                    continue
                seen.add((spec, cfg))
                run_cfg = cfg
                if expect == "fail":
                    # TLC stops a negative configuration at its first counterexample; for coverage the deviation's whole state
                    # space is explored: the same configuration without the properties it is meant to violate
                    keep, skipping = [], False
                    for ln in open(os.path.join(vf.SPEC, cfg)):
                        w = ln.split()[0] if ln.split() else ""
                        if w in ("INVARIANT", "INVARIANTS", "PROPERTY", "PROPERTIES"):
                            skipping = True
                            continue
                        if skipping and ln[:1] in (" ", "\t") and w not in ("CONSTANT", "CONSTANTS", "SPECIFICATION", "CHECK_DEADLOCK", "CONSTRAINT", "VIEW", "INIT", "NEXT"):
                            continue
                        skipping = False
                        keep.append(ln)
                    run_cfg = os.path.join(work, "cov_" + cfg)
                    open(run_cfg, "w").write("".join(keep))
                try:
                    r = vf.tlc_mc(spec, run_cfg, work, expect="pass", extra=("-coverage", "1"), timeout=600)
                except vf.Infra as ex:
                    print("== %s/%s  (negative configuration without its properties) not explored to the end: %s" % (spec, cfg, str(ex)[:200]))
                    continue
                out = r["out"].split("The coverage statistics at")[-1]   # the last (final) statistics block
                actions = {}
                for name, line, mod, dist, tot in act.findall(out):
                    a = actions.setdefault("%s!%s" % (mod, name), [0, 0])
                    a[0] += int(dist); a[1] += int(tot)
                never = sorted(k for k, v in actions.items() if v[1] == 0 and not k.endswith("!Init"))
                tot = collections.Counter()
                for l1, c1, l2, c2, m, n_ in expr.findall(out):      # one expression is listed under every action that reaches it
                    tot[(m, int(l1), int(c1), int(l2), int(c2))] += int(n_)
                pos = [k for k, v in tot.items() if v > 0]

                def inside(a, b):   # a within b (same module)
                    return a[0] == b[0] and (b[1], b[2]) <= (a[1], a[2]) and (a[3], a[4]) <= (b[3], b[4])
                # TLC lists an expression at different granularity under different actions: a zero entry counts only if no
                # positive entry lies inside it and no positive entry of at most three lines contains it
                zeros = sorted({"%s:%d" % (k[0], k[1]) for k, v in tot.items() if v == 0 and
                                not any(inside(q, k) or (inside(k, q) and q[3] - q[1] <= 2) for q in pos)})
                for k, v in actions.items():
                    all_actions[k] = all_actions.get(k, 0) + v[1]
                for k, v in tot.items():
                    all_expr[k] = all_expr.get(k, 0) + v
                report["%s/%s" % (spec, cfg)] = {"expect": expect, "actions": {k: {"distinct": v[0], "taken": v[1]} for k, v in sorted(actions.items())},
                                                 "never_taken": never, "expressions_never_evaluated": zeros,
                                                 "distinct": r["distinct"], "generated": r["generated"], "wall_s": r["wall_s"]}
                print("== %s/%s  %d actions, never taken: %s; %d expressions never evaluated (%s)  %.0fs" %
                      (spec, cfg, len(actions), ", ".join(never) or "none", len(zeros), " ".join(zeros[:8]), r["wall_s"]))
                sys.stdout.flush()
        # a deviation (release before the copy-out, allocate before the check, ...) is an action or a branch that only a
        # negative configuration enables: what counts is what NO configuration reaches
        never_any = sorted(k for k, v in all_actions.items() if v == 0 and not k.endswith("!Init"))
        pos = [k for k, v in all_expr.items() if v > 0]

        def inside(a, b):
            return a[0] == b[0] and (b[1], b[2]) <= (a[1], a[2]) and (a[3], a[4]) <= (b[3], b[4])
        zero_any = sorted({"%s:%d" % (k[0], k[1]) for k, v in all_expr.items() if v == 0 and
                           not any(inside(q, k) or (inside(k, q) and q[3] - q[1] <= 2) for q in pos)})
        zero_any = [z for z in zero_any if z not in UNREACHABLE_BY_DESIGN]
        report["_all_configurations"] = {"actions_never_taken": never_any, "expressions_never_evaluated": zero_any}
        print("over all configurations: actions never taken: %s; expressions never evaluated: %s" %
              (", ".join(never_any) or "none", " ".join(zero_any) or "none"))
        failed += never_any + zero_any
    finally:
        shutil.rmtree(work, ignore_errors=True)
    if not want:
        with open(os.path.join(vf.VERIF, "coverage.json"), "w") as f:
            json.dump(report, f, indent=1, sort_keys=True)
    print("COVERAGE", "FAILED: " + "; ".join(failed) if failed else "OK")
    return 1 if failed else 0


def main():
    if len(sys.argv) > 1 and sys.argv[1] == "--coverage":
        return coverage_main(set(sys.argv[2:]))
    want = set(sys.argv[1:])
    work = os.path.join(vf.VERIF, "work", "selftest-%d" % os.getpid())
    shutil.rmtree(work, ignore_errors=True)
    os.makedirs(work)
    drivers, report, failed = {}, {}, []
    try:
        for prop, st in stages():
            if want and st.family not in want:
                continue
            t0 = time.time()
            if st.race not in drivers:
                drivers[st.race] = vf.build_harness(work, race=st.race)
            rows = {}
            for part, shards in st.parts["quick"]:
                base = os.path.join(work, "%s_%s" % (st.family, part or "all"))
                args = [st.family, "gen", "-tier", "quick", "-seed", "1", "-shard", "0/%d" % shards,
                        "-cases", base + ".cases.ndjson", "-out", base + ".trace.ndjson"]
                if part:
                    args += ["-part", part]
                env = st.driver_env
                if env == "RACELOG":
                    env = dict(GORACE="log_path=%s exitcode=0" % (base + ".race"))
                vf.run_driver(drivers[st.race], args, env=env, timeout=st.gen_timeout)
                lines = [json.loads(l) for l in open(base + ".trace.ndjson") if l.strip()]
                if not lines:
                    continue
                viols, n, _ = vf.tlc_trace(st.trace[0], st.trace[1], base + ".trace.ndjson", work)
                bad_t = {t for t, _, _ in viols}
                cases = [c for c in group_cases(lines) if c[0].get("t") not in bad_t and len(c) <= 400]
                # sample events per type
                cand = collections.defaultdict(list)
                for ci, c in enumerate(cases):
                    for ei, e in enumerate(c):
                        if st.reset_ev and e.get("ev") == st.reset_ev and ei == 0:
                            continue
                        if st.nontrivial and not st.nontrivial(e):
                            continue
                        if len(cand[e.get("ev")]) < 400:
                            rich = sum(1 for f_, v_ in e.items() if f_ not in SKIP_FIELDS and corrupt(v_) is not None)
                            cand[e.get("ev")].append((-rich, len(c), ci, ei))
                picked = collections.defaultdict(list)
                for ev, lst in cand.items():
                    # different outcomes first (the boolean fields of the event: refused / accepted, panic, ...), then the events
                    # with the most corruptible fields, from different cases, short cases first
                    sigs = set()
                    for rnd in (0, 1):
                        for _, _, ci, ei in sorted(lst):
                            e = cases[ci][ei]
                            sig = tuple(sorted((f_, v_) for f_, v_ in e.items() if isinstance(v_, bool)))
                            if len(picked[ev]) >= PER_TYPE or any(p[0] == ci for p in picked[ev]):
                                continue
                            if rnd == 0 and sig in sigs:
                                continue
                            sigs.add(sig)
                            picked[ev].append((ci, ei))
                out, meta, k = [], {}, 0
                for ev, lst in sorted(picked.items()):
                    for ci, ei in lst:
                        # the uncorrupted copy
                        k += 1
                        meta[BASE_T + k] = (ev, None)
                        for e in cases[ci]:
                            d = dict(e); d["t"] = BASE_T + k; out.append(d)
                        for fld in sorted(cases[ci][ei]):
                            if fld in SKIP_FIELDS:
                                continue
                            ov = OVERRIDE.get((st.family, ev, fld))
                            for c in ([ov] if ov is not None else variants(cases[ci][ei][fld])):
                                k += 1
                                meta[BASE_T + k] = (ev, fld)
                                for j, e in enumerate(cases[ci]):
                                    d = copy.deepcopy(e); d["t"] = BASE_T + k
                                    if j == ei:
                                        d[fld] = c
                                    out.append(d)
                cpath = base + ".corrupted.ndjson"
                with open(cpath, "w") as f:
                    for d in out:
                        f.write(json.dumps(d) + "\n")
                try:
                    v2, n2, tlcout = vf.tlc_trace(st.trace[0], st.trace[1], cpath, work)
                    rejected = {t for t, _, _ in v2}
                    crashed = False
                except vf.Infra as ex:
                    # a corrupted value of the wrong domain can make TLC stop with an evaluation error: that is a rejection of the
                    # whole file, not a judgement per copy - judge the copies one by one
                    crashed = True
                    rejected = set()
                    per = collections.defaultdict(list)
                    for d in out:
                        per[d["t"]].append(d)
                    def one(item):
                        t_, evs = item
                        p1 = base + ".one%d.ndjson" % t_
                        with open(p1, "w") as f:
                            for d in evs:
                                f.write(json.dumps(d) + "\n")
                        try:
                            v3, _, _ = vf.tlc_trace(st.trace[0], st.trace[1], p1, work, heap="1g")
                            return t_ if v3 else None
                        except vf.Infra:
                            return t_   # TLC refuses to evaluate the line: not an accepted step
                        finally:
                            os.remove(p1)
                    with cf.ThreadPoolExecutor(max_workers=12) as ex:
                        rejected = {t_ for t_ in ex.map(one, per.items()) if t_ is not None}
                for t_, (ev, fld) in meta.items():
                    r = rows.setdefault(ev, {"copies_unchanged": 0, "unchanged_rejected": 0, "bound": {}, "unbound": {}})
                    if fld is None:
                        r["copies_unchanged"] += 1
                        if t_ in rejected:
                            r["unchanged_rejected"] += 1
                    else:
                        which = "bound" if t_ in rejected else "unbound"
                        r[which][fld] = r[which].get(fld, 0) + 1
            fam_fail = []
            for ev, r in sorted(rows.items()):
                # a field that was rejected at least once is bound (a corruption can be a no-op for a particular sample)
                for fld in list(r["unbound"]):
                    if fld in r["bound"]:
                        r["bound"][fld] += 0
                        r.setdefault("sometimes_accepted", {})[fld] = r["unbound"].pop(fld)
                if r["unchanged_rejected"]:
                    fam_fail.append("%s: an uncorrupted copy was rejected" % ev)
                if not r["bound"]:
                    fam_fail.append("%s: no field is bound" % ev)
            report[st.family] = {"trace_spec": st.trace[0], "events": rows, "wall_s": round(time.time() - t0, 1), "failures": fam_fail}
            print("== %s (%s)  %.0fs" % (st.family, st.trace[0], time.time() - t0))
            for ev, r in sorted(rows.items()):
                print("   %-14s bound: %s" % (ev, " ".join(sorted(r["bound"])) or "-"))
                if r["unbound"]:
                    print("   %-14s not bound: %s" % ("", " ".join(sorted(r["unbound"]))))
            for f in fam_fail:
                print("   FAIL " + f)
                failed.append(st.family + ": " + f)
            sys.stdout.flush()
    finally:
        if not os.environ.get("SELFTEST_KEEP"):
            shutil.rmtree(work, ignore_errors=True)
    os.makedirs(os.path.join(vf.VERIF, "evidence_other"), exist_ok=True)
    if not want:
        with open(os.path.join(vf.VERIF, "binding.json"), "w") as f:
            json.dump(report, f, indent=1, sort_keys=True)
    print("SELFTEST", "FAILED: " + "; ".join(failed) if failed else "OK")
    return 1 if failed else 0


if __name__ == "__main__":
    sys.exit(main())
