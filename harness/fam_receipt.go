package main

import (
	"math/rand"
	"strings"

	"github.com/hujm2023/go-sms-protocol/smgp/smgp30"
	"github.com/hujm2023/go-sms-protocol/smpp/smpp34"
)

// Family "receipt" (C18): delivery-receipt extraction.

func init() {
	families["receipt"] = family{gen: genReceipt, run: runReceipt}
}

var rcKeys1 = []string{"id", "sub", "dlvrd", "submit date", "done date", "stat", "err", "text"}
var rcKeys2 = []string{"id", "Sub", "Dlvrd", "Submit_Date", "Done_Date", "Stat", "Err", "Text"}

func containsKeyToken(s string) bool {
	for _, k := range append(append([]string{}, rcKeys1...), rcKeys2...) {
		if strings.Contains(s, k) {
			return true
		}
	}
	return false
}

func genReceipt(g *genCtx) {
	r := g.rng(18)
	n := 0
	emit := func(c Case) {
		if g.mine(n) {
			g.emit(c)
		}
		n++
	}
	alpha := []byte("0123456789ABCDEFGHIJKLMNOPQRSTUVWXYZabcfghjkmnopqvwyz-_.@#")
	value := func(k int, variant string) []byte {
		for {
			L := []int{0, 1, 2, 3, 4, 7, 10, 11, 20, 21, 40}[r.Intn(11)]
			if r.Intn(25) == 0 {
				L = []int{120, 200, 254, 255, 300, 1000}[r.Intn(6)] // a receipt need not fit a short_message (message_payload)
			}
			var v []byte
			if k == 0 && variant == "smgp" {
				// any ten (or more) octets, spaces and NULs included
				v = randBytes(r, 10+r.Intn(3))
				if r.Intn(2) == 0 {
					v[r.Intn(10)] = ' '
					v[r.Intn(10)] = 0
				}
			} else if r.Intn(4) == 0 {
				// non-ASCII values: Latin-1 / GBK octets (not valid UTF-8) and letters whose case mapping changes length
				pieces := []string{"\xe9", "\xd6\xd0", "\u212a", "\u0130", "é", "中", "A", "7"}
				for len(v) < L {
					v = append(v, pieces[r.Intn(len(pieces))]...)
				}
			} else if r.Intn(6) == 0 {
				// white space that is not a space: a value ends at the next 0x20 or the end of the text, nowhere else
				pieces := []string{"\t", "\n", "\r", "\v", "\f", "\u0085", "\u00a0", "\u3000", "\u2028", "a", "Z", "9", "line"}
				for len(v) < L {
					v = append(v, pieces[r.Intn(len(pieces))]...)
				}
			} else if r.Intn(5) == 0 {
				// colons, and tails of key names in front of them ("rr:", "tat:", "ub:"): values are cut at spaces only
				pieces := []string{":", "rr:", "tat:", "ub:", "ext:", "lvrd:", "d:", "1", "x", "OK", "EUR"}
				for len(v) < L {
					v = append(v, pieces[r.Intn(len(pieces))]...)
				}
			} else {
				v = randBytesFrom(r, L, alpha)
			}
			if !containsKeyToken(string(v)) {
				return v
			}
		}
	}
	mk := func(variant string, subset int, order []int, spell int) Case {
		var ps []interface{}
		for _, k := range order {
			if subset>>uint(k)&1 == 0 {
				continue
			}
			sp := 1
			if variant == "smgp" && k != 0 && (spell == 2 || (spell == 3 && r.Intn(2) == 0)) {
				sp = 2
			}
			ps = append(ps, map[string]interface{}{"k": k + 1, "sp": sp, "v": B(value(k, variant))})
		}
		return Case{"variant": variant, "pairs": ps}
	}
	for _, variant := range []string{"smpp", "smgp"} {
		per := 6
		if g.thorough() {
			per = 200
		}
		for subset := 0; subset < 256; subset++ {
			for i := 0; i < per; i++ {
				emit(mk(variant, subset, r.Perm(8), 1+r.Intn(3)))
			}
		}
		// the standard order, all keys
		emit(mk(variant, 255, []int{0, 1, 2, 3, 4, 5, 6, 7}, 1))
		emit(mk(variant, 255, []int{0, 1, 2, 3, 4, 5, 6, 7}, 2))
		if g.thorough() {
			// all 8! orders for one value assignment
			perm := []int{0, 1, 2, 3, 4, 5, 6, 7}
			var rec func(i int)
			rec = func(i int) {
				if i == 8 {
					emit(mk(variant, 255, append([]int{}, perm...), 3))
					return
				}
				for j := i; j < 8; j++ {
					perm[i], perm[j] = perm[j], perm[i]
					rec(i + 1)
					perm[i], perm[j] = perm[j], perm[i]
				}
			}
			rec(0)
		}
	}
}

func runReceipt(c Case, tr *Tracer) {
	variant := caseStr(c, "variant")
	pairs := caseList(c, "pairs")
	var parts []string
	var plog []interface{}
	for _, p := range pairs {
		k, sp, v := caseInt(p, "k"), caseInt(p, "sp"), toBytes(p["v"])
		key := rcKeys1[k-1]
		if sp == 2 {
			key = rcKeys2[k-1]
		}
		parts = append(parts, key+":"+string(v))
		plog = append(plog, map[string]interface{}{"k": k, "sp": sp, "v": B(v)})
	}
	if plog == nil {
		plog = []interface{}{}
	}
	text := strings.Join(parts, " ")
	var out []interface{}
	pan := guard(func() {
		if variant == "smpp" {
			d, _ := smpp34.ExtractDeliveryReceipt(text)
			out = []interface{}{S(d.ID), S(d.Sub), S(d.Dlvrd), S(d.SubDate), S(d.DoneDate), S(d.Stat), S(d.Err), S(d.Text)}
		} else {
			d, _ := smgp30.ExtractDeliveryReceipt(text)
			out = []interface{}{S(d.ID), S(d.Sub), S(d.Dlvrd), S(d.SubDate), S(d.DoneDate), S(d.Stat), S(d.Err), S(d.Text)}
		}
	})
	if pan {
		out = []interface{}{}
	}
	tr.emit(Ev{"ev": "Extract", "variant": variant, "pairs": plog, "text": S(text), "out": out, "panic": pan, "site": variant + ".ExtractDeliveryReceipt"})
}

var _ = rand.Int
