package main

import (
	"math/rand"

	"github.com/hujm2023/go-sms-protocol/smgp"
	"github.com/hujm2023/go-sms-protocol/smpp"
)

// Family "container" (C16): histories of Put and observations on ONE optional-parameter container
// (smpp.TLVs or smgp.Options).  Scripts come from the generator below and from Gen_Container.tla.

func init() {
	families["container"] = family{gen: genContainer, run: runContainer}
}

func genContainer(g *genCtx) {
	r := g.rng(22)
	n := 120
	if g.thorough() {
		n = 40000
	}
	for i := 0; i < n; i++ {
		rr := rand.New(rand.NewSource(r.Int63()))
		if !g.mine(i) {
			continue
		}
		var steps []interface{}
		for j := 1 + rr.Intn(12); j > 0; j-- {
			switch rr.Intn(7) {
			case 0, 1, 2:
				L := []int{0, 1, 2, 9, 40}[rr.Intn(5)]
				if rr.Intn(40) == 0 {
					L = 65531
				}
				steps = append(steps, map[string]interface{}{"a": "put", "t": []int{1, 2, 3, 16, 0x1400, 65535}[rr.Intn(6)], "v": B(randBytes(rr, L))})
			case 3:
				steps = append(steps, map[string]interface{}{"a": "ser", "t": 0, "v": []int{}})
			case 4:
				steps = append(steps, map[string]interface{}{"a": "len", "t": 0, "v": []int{}})
			case 5:
				steps = append(steps, map[string]interface{}{"a": "udhi", "t": 0, "v": []int{}})
			default:
				steps = append(steps, map[string]interface{}{"a": "new", "t": 0, "v": []int{}})
			}
		}
		steps = append(steps, map[string]interface{}{"a": "ser", "t": 0, "v": []int{}})
		g.emit(Case{"kind": []string{"smpp", "smgp"}[rr.Intn(2)], "steps": steps})
	}
}

func runContainer(c Case, tr *Tracer) {
	kd := caseStr(c, "kind")
	var t smpp.TLVs
	var o smgp.Options
	news := 0
	tr.emit(Ev{"ev": "New", "kind": kd, "site": kd + ".container"})
	for _, st := range caseList(c, "steps") {
		switch caseStr(st, "a") {
		case "new":
			news++
			t, o = nil, nil
			if news%2 == 1 { // an empty container instead of a nil one
				t, o = smpp.TLVs{}, smgp.Options{}
			}
			tr.emit(Ev{"ev": "New", "kind": kd, "site": kd + ".container"})
		case "put":
			tag, v := caseInt(st, "t"), caseBytes(st, "v")
			var pan bool
			if kd == "smpp" {
				pan = guard(func() { t.SetTLV(smpp.NewTLV(uint16(tag), append([]byte{}, v...))) })
			} else {
				pan = guard(func() { o.Add(smgp.NewOption(smgp.Tag(tag), append([]byte{}, v...))) })
			}
			tr.emit(Ev{"ev": "Put", "kind": kd, "tag": tag, "v": B(v), "panic": pan, "site": kd + ".put"})
		case "ser":
			var out []byte
			var pan bool
			// (the set is logged before it is written out: printing is an observation)
			if kd == "smpp" {
				pan = guard(func() { _ = t.String(); out = t.Bytes() })
			} else {
				pan = guard(func() { _ = o.String(); out = o.Serialize() })
			}
			tr.emit(Ev{"ev": "Ser", "kind": kd, "out": B(out), "panic": pan, "site": kd + ".serialize"})
		case "len":
			n := len(t)
			if kd == "smgp" {
				n = o.Len()
			}
			tr.emit(Ev{"ev": "Len", "kind": kd, "n": n, "site": kd + ".len"})
		case "udhi":
			if kd != "smgp" {
				continue
			}
			var out uint8
			pan := guard(func() { out = o.TP_udhi() })
			tr.emit(Ev{"ev": "Udhi", "kind": kd, "out": int(out), "panic": pan, "site": "smgp.Options.TP_udhi"})
		}
	}
}
