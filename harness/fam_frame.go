package main

import (
	"encoding/binary"
	"errors"
	"io"
	"math/rand"

	"github.com/hujm2023/go-sms-protocol/codec"
)

// Family "frame" (C04): the real CMPPCodec / SMPPCodec over a scripted
// ConnReader that follows the contract documented in codec/codec.go.

func init() {
	families["frame"] = family{gen: genFrame, run: runFrame}
}

var errInjected = errors.New("injected read error")

// scriptedConn implements codec.ConnReader over an arrival schedule.
// Buffered octets live in one backing array that is compacted on every
// arrival, like a bufio.Reader: slices handed out by Peek go stale.
type scriptedConn struct {
	back     []byte
	r, w     int
	chunks   [][]byte
	fault    string
	withData bool     // Read reports the end of the stream together with the last octets
	later    [][]byte // octets that arrive after a transient fault (a read deadline that expired)
	faulted  bool
}

func (c *scriptedConn) Size() int { return c.w - c.r }

func (c *scriptedConn) arrive() bool {
	if len(c.chunks) == 0 {
		return false
	}
	ch := c.chunks[0]
	c.chunks = c.chunks[1:]
	if need := c.Size() + len(ch); need > len(c.back) {
		nb := make([]byte, need*2)
		copy(nb, c.back[c.r:c.w])
		c.back, c.w, c.r = nb, c.w-c.r, 0
	} else {
		copy(c.back, c.back[c.r:c.w])
		c.w, c.r = c.w-c.r, 0
	}
	copy(c.back[c.w:], ch)
	c.w += len(ch)
	return true
}

func (c *scriptedConn) Peek(n int) ([]byte, error) {
	if n < 0 {
		return nil, errors.New("negative count")
	}
	if n <= c.Size() {
		return c.back[c.r : c.r+n], nil
	}
	return c.back[c.r:c.w], errors.New("short peek")
}

func (c *scriptedConn) Discard(n int) (int, error) {
	if n < 0 {
		return 0, errors.New("negative count")
	}
	if n <= c.Size() {
		c.r += n
		return n, nil
	}
	d := c.Size()
	c.r = c.w
	return d, errors.New("short discard")
}

// Read blocks until data is available: here it consumes the next scheduled
// chunk, or reports how the stream ends.
func (c *scriptedConn) Read(p []byte) (int, error) {
	if len(p) == 0 {
		return 0, nil
	}
	for c.Size() == 0 {
		if !c.arrive() {
			if c.fault == "timeout" && !c.faulted {
				// the deadline expires once; whoever reads on gets the rest of the stream
				c.faulted = true
				c.chunks, c.later = c.later, nil
				return 0, deadlineErr{}
			}
			if c.fault == "err" || c.fault == "timeout" {
				return 0, errInjected
			}
			return 0, io.EOF
		}
	}
	n := copy(p, c.back[c.r:c.w])
	c.r += n
	if c.withData && c.Size() == 0 && len(c.chunks) == 0 {
		// the io.Reader contract allows the last octets and the end of the stream in one call
		if c.fault == "err" {
			return n, errInjected
		}
		return n, io.EOF
	}
	return n, nil
}

// deadlineErr is what a net.Conn returns when its read deadline has passed (a net.Error with Timeout() true)
type deadlineErr struct{}

func (deadlineErr) Error() string   { return "i/o timeout" }
func (deadlineErr) Timeout() bool   { return true }
func (deadlineErr) Temporary() bool { return true }

func mkFrame(body []byte) []byte {
	f := make([]byte, 4+len(body))
	binary.BigEndian.PutUint32(f, uint32(len(f)))
	copy(f[4:], body)
	return f
}

func genFrame(g *genCtx) {
	r := g.rng(4)
	n := 0
	emit := func(c Case) {
		if g.mine(n) {
			g.emit(c)
		}
		n++
	}
	codecs := []string{"cmpp", "smpp"}
	// (i) every single cut position of short 2-frame streams, every decode placement
	bodies := [][]byte{{}, {0, 0, 0, 4}, {0, 0, 0, 5, 9}, {4}, {0, 0, 0, 0}, {0xff, 0xff, 0xff, 0xff, 1}}
	for _, cd := range codecs {
		for _, b1 := range bodies {
			for _, b2 := range bodies {
				frames := [][]byte{mkFrame(b1), mkFrame(b2)}
				total := len(frames[0]) + len(frames[1])
				for cut := 1; cut < total; cut++ {
					for _, blocked := range []bool{false, true} {
						emit(frameCase(cd, frames, nil, []int{cut, total - cut}, "eof", blocked, true))
					}
				}
			}
		}
	}
	// (ii) truncation at every point and malformed prefixes in first and later position
	for _, cd := range codecs {
		for _, nfr := range []int{0, 1, 2} {
			frames := [][]byte{}
			for i := 0; i < nfr; i++ {
				frames = append(frames, mkFrame(randBytes(r, r.Intn(6))))
			}
			last := mkFrame([]byte{1, 2, 3, 4, 5})
			for k := 0; k < len(last); k++ {
				for _, flt := range []string{"eof", "err"} {
					for _, blocked := range []bool{false, true} {
						emit(frameCase(cd, frames, last[:k], nil, flt, blocked, true))
					}
				}
			}
			for p := 0; p < 4; p++ {
				for _, trail := range [][]byte{{}, {7}, {0, 0, 0, 9, 1, 2, 3, 4, 5}} {
					tail := append([]byte{0, 0, 0, byte(p)}, trail...)
					for _, blocked := range []bool{false, true} {
						emit(frameCase(cd, frames, tail, nil, "eof", blocked, true))
					}
				}
			}
		}
	}
	// (iv) the upper end of the scope: frames of 64 KiB - 1 and 64 KiB octets, followed by a small one
	for _, cd := range codecs {
		for _, total := range []int{65535, 65536} {
			big := mkFrame(randBytes(r, total-4))
			small := mkFrame(randBytes(r, 12))
			emit(frameCase(cd, [][]byte{big, small}, nil, nil, "eof", true, false))
			emit(frameCase(cd, [][]byte{big, small}, nil, []int{total - 1, 1 + len(small)}, "eof", false, true))
		}
	}
	// (v) a read deadline expires inside a frame and the stream goes on afterwards: the blocking extractor reports the
	// failure (the model sees a stream that ends at the fault; what follows is the driver's secret)
	for _, cd := range codecs {
		for i := 0; i < 24; i++ {
			f1, f2, f3 := mkFrame(randBytes(r, 4+r.Intn(30))), mkFrame(randBytes(r, 4+r.Intn(30))), mkFrame(randBytes(r, 8))
			at := len(f1) + 1 + r.Intn(len(f2)-1) // inside the second frame
			all := append(append(append([]byte{}, f1...), f2...), f3...)
			c := frameCase(cd, [][]byte{f1}, all[len(f1):at], []int{at}, "timeout", true, false)
			c["later"] = B(all[at:])
			emit(c)
		}
	}
	// (ii-b) a slow peer: whole streams dripping in pieces of one, two or three octets (hundreds of arrivals per frame)
	for _, cd := range codecs {
		for _, piece := range []int{1, 2, 3} {
			for _, bl := range []int{97, 101, 150, 301, 700} {
				f1, f2 := mkFrame(randBytes(r, bl)), mkFrame(randBytes(r, 4+r.Intn(20)))
				total := len(f1) + len(f2)
				var cuts []int
				for left := total; left > 0; left -= piece {
					cuts = append(cuts, minInt(piece, left))
				}
				emit(frameCase(cd, [][]byte{f1, f2}, nil, cuts, "eof", true, false))
				emit(frameCase(cd, [][]byte{f1, f2}, nil, cuts, "eof", false, false))
			}
		}
	}
	// (iii) random frame lists, random multi-cut schedules, random interleavings
	nr := 600
	maxBody := 300
	if g.thorough() {
		nr = 60000
	}
	for i := 0; i < nr; i++ {
		rr := rand.New(rand.NewSource(r.Int63()))
		nf := rr.Intn(6)
		frames := [][]byte{}
		for j := 0; j < nf; j++ {
			bl := rr.Intn(maxBody)
			if rr.Intn(3) == 0 {
				bl = rr.Intn(8)
			}
			if g.thorough() && rr.Intn(200) == 0 {
				bl = 60000 + rr.Intn(5532)
			}
			var b []byte
			if rr.Intn(2) == 0 {
				b = randBytesFrom(rr, bl, []byte{0, 0, 0, 4, 5, 12, 0xff})
			} else {
				b = randBytes(rr, bl)
			}
			frames = append(frames, mkFrame(b))
		}
		var tail []byte
		switch rr.Intn(4) {
		case 0:
			f := mkFrame(randBytes(rr, rr.Intn(20)))
			tail = f[:rr.Intn(len(f))]
		case 1:
			tail = append([]byte{0, 0, 0, byte(rr.Intn(4))}, randBytes(rr, rr.Intn(5))...)
		}
		total := len(tail)
		for _, f := range frames {
			total += len(f)
		}
		var cuts []int
		for left := total; left > 0; {
			k := 1 + rr.Intn(left)
			if rr.Intn(2) == 0 {
				k = 1 + rr.Intn(minInt(left, 9))
			}
			cuts = append(cuts, k)
			left -= k
		}
		emit(frameCaseRand(rr, codecs[rr.Intn(2)], frames, tail, cuts, pickS(rr, "eof", "err")))
	}
}

func minInt(a, b int) int {
	if a < b {
		return a
	}
	return b
}

// frameCase builds a schedule: deliver the chunks one at a time, calling the
// extractor after every arrival until it stops producing frames.
func frameCase(cd string, frames [][]byte, tail []byte, cuts []int, fault string, blocked, greedy bool) Case {
	var stream []byte
	fl := make([]interface{}, 0)
	for _, f := range frames {
		stream = append(stream, f...)
		fl = append(fl, B(f))
	}
	stream = append(stream, tail...)
	if cuts == nil {
		cuts = []int{}
		if len(stream) > 0 {
			cuts = []int{len(stream)}
		}
	}
	steps := []interface{}{}
	if blocked {
		for i := 0; i < len(frames)+1; i++ {
			steps = append(steps, "B")
		}
	} else {
		for range cuts {
			steps = append(steps, "A")
			for i := 0; i < len(frames)+1; i++ {
				steps = append(steps, "D")
			}
		}
		steps = append(steps, "D")
	}
	return Case{"codec": cd, "sent": fl, "stream": B(stream), "cuts": cuts, "fault": fault, "steps": steps}
}

func frameCaseRand(rr *rand.Rand, cd string, frames [][]byte, tail []byte, cuts []int, fault string) Case {
	c := frameCase(cd, frames, tail, cuts, fault, false, true)
	steps := []interface{}{}
	na := 0
	for len(steps) < 4*(len(cuts)+len(frames))+4 {
		switch rr.Intn(5) {
		case 0, 1:
			if na < len(cuts) {
				steps = append(steps, "A")
				na++
			} else {
				steps = append(steps, "D")
			}
		case 2, 3:
			steps = append(steps, "D")
		case 4:
			steps = append(steps, "B")
		}
	}
	c["steps"] = steps
	return c
}

// one codec value serves many connections in a server: every second stream goes through these
var sharedFrameCodecs = map[string]codec.Codec{"smpp": codec.NewSMPPCodec(), "cmpp": codec.NewCMPPCodec()}

func runFrame(c Case, tr *Tracer) {
	var cd codec.Codec
	if caseStr(c, "codec") == "smpp" {
		cd = codec.NewSMPPCodec()
	} else {
		cd = codec.NewCMPPCodec()
	}
	conn0WithData := caseInt(c, "t")%3 == 0
	if caseInt(c, "t")%2 == 0 {
		if caseStr(c, "codec") == "smpp" {
			cd = sharedFrameCodecs["smpp"]
		} else {
			cd = sharedFrameCodecs["cmpp"]
		}
	}
	stream := caseBytes(c, "stream")
	conn := &scriptedConn{fault: caseStr(c, "fault"), withData: conn0WithData}
	if l := caseBytes(c, "later"); len(l) > 0 {
		conn.later = [][]byte{l}
		conn.withData = false
	}
	off := 0
	if cs, ok := c["cuts"].([]interface{}); ok {
		for _, x := range cs {
			k := caseInt(map[string]interface{}{"k": x}, "k")
			conn.chunks = append(conn.chunks, append([]byte{}, stream[off:off+k]...))
			off += k
		}
	} else if cs, ok := c["cuts"].([]int); ok {
		for _, k := range cs {
			conn.chunks = append(conn.chunks, append([]byte{}, stream[off:off+k]...))
			off += k
		}
	}
	sent := c["sent"]
	if sent == nil {
		sent = []interface{}{}
	}
	mfault := conn.fault
	if mfault == "timeout" {
		mfault = "err"
	}
	tr.emit(Ev{"ev": "Start", "codec": caseStr(c, "codec"), "sent": sent, "stream": B(stream), "fault": mfault, "site": caseStr(c, "codec")})
	steps, _ := c["steps"].([]interface{})
	closed := false
	for _, s := range steps {
		if closed {
			break
		}
		switch s.(string) {
		case "A":
			if len(conn.chunks) == 0 {
				continue
			}
			k := len(conn.chunks[0])
			conn.arrive()
			tr.emit(Ev{"ev": "Arrive", "k": k, "size": conn.Size(), "site": caseStr(c, "codec")})
		case "D", "B":
			name := "Decode"
			call := cd.Decode
			if s.(string) == "B" {
				name, call = "DecodeB", cd.DecodeBlocked
			}
			res, out := func() (res string, out []int) {
				defer func() {
					if p := recover(); p != nil {
						res, out = "panic", []int{}
					}
				}()
				f, err := call(conn)
				switch {
				case err == nil:
					return "frame", B(f) // copied out before the next arrival
				case errors.Is(err, codec.ErrPacketNotComplete):
					return "incomplete", []int{}
				default:
					return "err", []int{}
				}
			}()
			tr.emit(Ev{"ev": name, "res": res, "out": out, "size": conn.Size(), "site": caseStr(c, "codec") + "." + name})
			if res == "err" || res == "panic" {
				closed = true // "for other errors, the connection should be closed"
			}
		}
	}
}
