package main

import (
	"bytes"
	"context"
	"math/rand"
	"regexp"
	"strings"

	protocol "github.com/hujm2023/go-sms-protocol"
	"github.com/hujm2023/go-sms-protocol/datacoding"
	"github.com/hujm2023/go-sms-protocol/logger"
)

// Family "logger": histories on the package-level loggers (level, output, silent mode, the default and the system logger,
// the two messages of the batch encoder), judged step by step by Trace_Logger against Logger.tla.  Outside the listed
// properties: tags X.logger.* are specification drift, never verdicts.

func init() {
	families["logger"] = family{gen: genLogger, run: runLogger}
}

func genLogger(g *genCtx) {
	r := g.rng(31)
	n := 150
	if g.thorough() {
		n = 3000
	}
	for i := 0; i < n; i++ {
		if !g.mine(i) {
			r.Int63()
			continue
		}
		g.emit(Case{"seed": r.Int63()})
	}
}

var logLine = regexp.MustCompile(`^\d{4}/\d\d/\d\d \d\d:\d\d:\d\d\.\d{6} ([^ :]+):\d+: (.*)$`)

func runLogger(c Case, tr *Tracer) {
	seedv := int64(caseInt(c, "seed"))
	if v, ok := c["seed"].(int64); ok {
		seedv = v
	}
	rr := rand.New(rand.NewSource(seedv))
	sinks := []*bytes.Buffer{nil, {}, {}, {}}
	loggerSinks = sinks
	logger.SetLevel(logger.LevelTrace)
	logger.SetOutput(sinks[1])
	logger.SetSilentMode(false)
	tr.emit(Ev{"ev": "Start", "site": "logger"})
	// what the step wrote, output by output
	wrote := func() []interface{} {
		out := []interface{}{}
		for k := 1; k <= 3; k++ {
			s := sinks[k].String()
			sinks[k].Reset()
			for _, ln := range strings.SplitAfter(s, "\n") {
				if ln == "" {
					continue
				}
				m := logLine.FindStringSubmatch(strings.TrimSuffix(ln, "\n"))
				if m == nil || !strings.HasSuffix(ln, "\n") {
					out = append(out, Ev{"sink": k, "hdr": false, "file": S(""), "line": scalars(ln)})
					continue
				}
				out = append(out, Ev{"sink": k, "hdr": true, "file": S(m[1]), "line": scalars(m[2])})
			}
		}
		return out
	}
	text := func() string {
		al := "ab %dsZ9"
		b := make([]byte, rr.Intn(7))
		for i := range b {
			b[i] = al[rr.Intn(len(al))]
		}
		return string(b)
	}
	if st := caseList(c, "steps"); len(st) > 0 {
		runLoggerSteps(st, tr, wrote)
		return
	}
	ctx := context.Background()
	sys := logger.SystemLogger()
	steps := 8 + rr.Intn(24)
	for s := 0; s < steps; s++ {
		switch rr.Intn(10) {
		case 0:
			lv := rr.Intn(9) - 1
			logger.SetLevel(logger.Level(lv))
			tr.emit(Ev{"ev": "SetLevel", "lv": lv, "wrote": wrote(), "site": "logger.SetLevel"})
		case 1:
			k := 1 + rr.Intn(3)
			logger.SetOutput(sinks[k])
			tr.emit(Ev{"ev": "SetOutput", "k": k, "wrote": wrote(), "site": "logger.SetOutput"})
		case 2:
			b := rr.Intn(2) == 0
			logger.SetSilentMode(b)
			tr.emit(Ev{"ev": "SetSilent", "b": b, "wrote": wrote(), "site": "logger.SetSilentMode"})
		case 3: // the engine error format, through both loggers
			who := []string{"def", "sys"}[rr.Intn(2)]
			a, b := text(), text()
			a, b = strings.ReplaceAll(a, "%", ""), strings.ReplaceAll(b, "%", "")
			if who == "def" {
				logger.Errorf(logger.EngineErrorFormat, a, b)
			} else {
				sys.Errorf(logger.EngineErrorFormat, a, b)
			}
			tr.emit(Ev{"ev": "Log", "who": who, "style": "f", "lv": 5, "text": scalars(a), "hasargs": true, "n": 0, "engine": true, "b": scalars(b),
				"wrote": wrote(), "site": "logger." + who + ".Errorf(engine)"})
		case 4: // what the batch encoder reports
			proto := []string{"SMPP", "CMPP", "SMGP", "SMPP"}[rr.Intn(4)]
			content := []string{"hello", "中文短信", "", "héllo", strings.Repeat("中", 70*256)}[rr.Intn(5)]
			cands := [][]int{{1}, {1, 3}, {8}, {0, 8}, {}, {1, 8}, {15}}[rr.Intn(7)]
			e := buildCall(ctx, proto, content, cands)
			e["wrote"] = wrote()
			tr.emit(e)
		default:
			who := []string{"def", "sys"}[rr.Intn(2)]
			style := []string{"plain", "f", "ctx"}[rr.Intn(3)]
			lv := rr.Intn(6)
			hasargs := rr.Intn(2) == 0
			n := rr.Intn(10)
			t := text()
			if hasargs {
				t = strings.ReplaceAll(t, "%", "")
			}
			logCall(ctx, who, style, lv, t, hasargs, n)
			tr.emit(Ev{"ev": "Log", "who": who, "style": style, "lv": lv, "text": scalars(t), "hasargs": hasargs, "n": n, "engine": false, "b": []int{},
				"wrote": wrote(), "site": "logger." + who + "." + style})
		}
	}
}

func logCall(ctx context.Context, who, style string, lv int, t string, hasargs bool, n int) {
	sys := logger.SystemLogger()
	format, args := t, []interface{}{}
	if hasargs {
		format, args = "%s|%d", []interface{}{t, n}
	}
	switch {
	case style == "plain" && who == "def":
		f := []func(...interface{}){logger.Trace, logger.Debug, logger.Info, logger.Notice, logger.Warn, logger.Error}[lv]
		if hasargs {
			f(t, n)
		} else {
			f(t)
		}
	case style == "plain":
		f := []func(...interface{}){sys.Trace, sys.Debug, sys.Info, sys.Notice, sys.Warn, sys.Error}[lv]
		if hasargs {
			f(t, n)
		} else {
			f(t)
		}
	case style == "f" && who == "def":
		[]func(string, ...interface{}){logger.Tracef, logger.Debugf, logger.Infof, logger.Noticef, logger.Warnf, logger.Errorf}[lv](format, args...)
	case style == "f":
		[]func(string, ...interface{}){sys.Tracef, sys.Debugf, sys.Infof, sys.Noticef, sys.Warnf, sys.Errorf}[lv](format, args...)
	case who == "def":
		[]func(context.Context, string, ...interface{}){logger.CtxTrace, logger.CtxDebug, logger.CtxInfo, logger.CtxNotice, logger.CtxWarn, logger.CtxError}[lv](ctx, format, args...)
	default:
		[]func(context.Context, string, ...interface{}){sys.CtxTracef, sys.CtxDebugf, sys.CtxInfof, sys.CtxNoticef, sys.CtxWarnf, sys.CtxErrorf}[lv](ctx, format, args...)
	}
}

// buildCall runs one Build and describes it the way Trace_Logger wants it (the outcome is derived there)
func buildCall(ctx context.Context, proto, content string, cands []int) Ev {
	var dcs []datacoding.ProtocolDataCoding
	for _, cd := range cands {
		dcs = append(dcs, toPDC(proto, cd))
	}
	anycan := false
	if proto == "SMPP" || proto == "CMPP" {
		for _, cd := range cands {
			if can, _ := singleCoding(proto, cd, content, 1); can && content != "" {
				anycan = true
			}
		}
	}
	ucs2can, _ := singleCoding(proto, 8, content, 1)
	_, _, err := protocol.NewBatchDataCodingEncoder().Protocol(protocol.Protocol(proto)).Content(content, 1).DataCodings(dcs).Build(ctx)
	return Ev{"ev": "Build", "proto": proto, "cands": cands, "empty": content == "", "anycan": anycan, "ucs2can": ucs2can, "err": err != nil,
		"site": "batch.Build/log"}
}

// a walk of Logger.tla (Gen_Logger), step by step on the real loggers
func runLoggerSteps(steps []map[string]interface{}, tr *Tracer, wrote func() []interface{}) {
	ctx := context.Background()
	for _, st := range steps {
		switch caseStr(st, "a") {
		case "level":
			lv := caseInt(st, "lv")
			logger.SetLevel(logger.Level(lv))
			tr.emit(Ev{"ev": "SetLevel", "lv": lv, "wrote": wrote(), "site": "logger.SetLevel"})
		case "output":
			k := caseInt(st, "k")
			logger.SetOutput(loggerSinks[k])
			tr.emit(Ev{"ev": "SetOutput", "k": k, "wrote": wrote(), "site": "logger.SetOutput"})
		case "silent":
			b := caseBool(st, "b")
			logger.SetSilentMode(b)
			tr.emit(Ev{"ev": "SetSilent", "b": b, "wrote": wrote(), "site": "logger.SetSilentMode"})
		case "log":
			who, style, lv, t, ha, n := caseStr(st, "who"), caseStr(st, "style"), caseInt(st, "lv"), string(caseBytes(st, "text")), caseBool(st, "hasargs"), caseInt(st, "n")
			logCall(ctx, who, style, lv, t, ha, n)
			tr.emit(Ev{"ev": "Log", "who": who, "style": style, "lv": lv, "text": scalars(t), "hasargs": ha, "n": n, "engine": false, "b": []int{},
				"wrote": wrote(), "site": "logger." + who + "." + style})
		case "engine":
			who, a, b := caseStr(st, "who"), string(caseBytes(st, "text")), string(caseBytes(st, "b"))
			if who == "def" {
				logger.Errorf(logger.EngineErrorFormat, a, b)
			} else {
				logger.SystemLogger().Errorf(logger.EngineErrorFormat, a, b)
			}
			tr.emit(Ev{"ev": "Log", "who": who, "style": "f", "lv": 5, "text": scalars(a), "hasargs": true, "n": 0, "engine": true, "b": scalars(b),
				"wrote": wrote(), "site": "logger." + who + ".Errorf(engine)"})
		case "build":
			var e Ev
			switch caseStr(st, "kind") {
			case "ok":
				e = buildCall(ctx, "SMPP", "hello", []int{1, 8})
			case "invalid":
				e = buildCall(ctx, "CMPP", "", []int{8})
			case "fallback":
				e = buildCall(ctx, "SMPP", "中文", []int{1, 3})
			case "fail":
				e = buildCall(ctx, "SMPP", strings.Repeat("中", 70*256), []int{8, 1})
			default:
				e = buildCall(ctx, "SMGP", "hello", []int{1})
			}
			e["wrote"] = wrote()
			tr.emit(e)
		}
	}
}

var loggerSinks []*bytes.Buffer
