package main

import (
	"bufio"
	"encoding/json"
	"fmt"
	"math/rand"
	"os"
)

// Case is one generated scenario, serialisable so that the runner can
// re-execute exactly that case in a fresh process.
type Case map[string]interface{}

// Ev is one recorded event.
type Ev map[string]interface{}

type genCtx struct {
	tier   string
	seed   int64
	shard  int
	shards int
	part   string
	n      int
	emit   func(c Case)
}

func (g *genCtx) rng(salt int64) *rand.Rand {
	return rand.New(rand.NewSource(g.seed*1000003 + int64(g.shard)*7919 + salt))
}

// mine reports whether item i belongs to this shard (round robin).
func (g *genCtx) mine(i int) bool { return i%g.shards == g.shard }

func (g *genCtx) thorough() bool { return g.tier == "thorough" }

type Tracer struct {
	f *os.File
	w *bufio.Writer
	t int
	n int
}

func newTracer(path string) *Tracer {
	f, err := os.Create(path)
	if err != nil {
		fmt.Fprintln(os.Stderr, err)
		os.Exit(2)
	}
	return &Tracer{f: f, w: bufio.NewWriterSize(f, 1<<20)}
}

func (tr *Tracer) emit(e Ev) {
	e["t"] = tr.t
	b, err := json.Marshal(e)
	if err != nil {
		fmt.Fprintln(os.Stderr, "marshal:", err)
		os.Exit(2)
	}
	tr.w.Write(b)
	tr.w.WriteByte('\n')
	tr.n++
}

func (tr *Tracer) close() {
	tr.w.Flush()
	tr.f.Close()
}

type caseWriter struct {
	f *os.File
	w *bufio.Writer
}

func newCaseWriter(path string) *caseWriter {
	if path == "" {
		return &caseWriter{}
	}
	f, err := os.Create(path)
	if err != nil {
		fmt.Fprintln(os.Stderr, err)
		os.Exit(2)
	}
	return &caseWriter{f: f, w: bufio.NewWriterSize(f, 1<<20)}
}

func (c *caseWriter) write(cs Case) {
	if c.w == nil {
		return
	}
	b, _ := json.Marshal(cs)
	c.w.Write(b)
	c.w.WriteByte('\n')
}

func (c *caseWriter) close() {
	if c.w != nil {
		c.w.Flush()
		c.f.Close()
	}
}

func readCases(path string) []Case {
	f, err := os.Open(path)
	if err != nil {
		fmt.Fprintln(os.Stderr, err)
		os.Exit(2)
	}
	defer f.Close()
	var out []Case
	sc := bufio.NewScanner(f)
	sc.Buffer(make([]byte, 1<<20), 1<<28)
	for sc.Scan() {
		if len(sc.Bytes()) == 0 {
			continue
		}
		var c Case
		dec := json.NewDecoder(bytesReader(sc.Bytes()))
		dec.UseNumber()
		if err := dec.Decode(&c); err != nil {
			fmt.Fprintln(os.Stderr, "bad case:", err)
			os.Exit(2)
		}
		out = append(out, c)
	}
	return out
}

// ---- JSON helpers: octet strings travel as arrays of integers 0..255 ----

// B converts bytes to a non-nil []int (so that JSON shows [] and never null).
func B(b []byte) []int {
	out := make([]int, len(b))
	for i, x := range b {
		out[i] = int(x)
	}
	return out
}

func S(s string) []int { return B([]byte(s)) }

func be(v uint64, k int) []int {
	out := make([]int, k)
	for i := k - 1; i >= 0; i-- {
		out[i] = int(v & 0xff)
		v >>= 8
	}
	return out
}

func errStr(e error) string {
	if e == nil {
		return ""
	}
	s := e.Error()
	if s == "" {
		return "<empty>"
	}
	return s
}

func caseInt(c map[string]interface{}, k string) int {
	switch v := c[k].(type) {
	case json.Number:
		i, _ := v.Int64()
		return int(i)
	case int:
		return v
	case float64:
		return int(v)
	}
	return 0
}

func caseStr(c map[string]interface{}, k string) string {
	s, _ := c[k].(string)
	return s
}

func caseBool(c map[string]interface{}, k string) bool {
	b, _ := c[k].(bool)
	return b
}

func caseBytes(c map[string]interface{}, k string) []byte {
	return toBytes(c[k])
}

func toBytes(v interface{}) []byte {
	switch a := v.(type) {
	case []interface{}:
		out := make([]byte, len(a))
		for i, x := range a {
			switch n := x.(type) {
			case json.Number:
				i64, _ := n.Int64()
				out[i] = byte(i64)
			case float64:
				out[i] = byte(n)
			case int:
				out[i] = byte(n)
			}
		}
		return out
	case []int:
		out := make([]byte, len(a))
		for i, x := range a {
			out[i] = byte(x)
		}
		return out
	case []byte:
		return a
	}
	return []byte{}
}

func caseList(c map[string]interface{}, k string) []map[string]interface{} {
	switch a := c[k].(type) {
	case []interface{}:
		out := make([]map[string]interface{}, 0, len(a))
		for _, x := range a {
			if m, ok := x.(map[string]interface{}); ok {
				out = append(out, m)
			}
		}
		return out
	case []map[string]interface{}:
		return a
	case []Case:
		out := make([]map[string]interface{}, len(a))
		for i, x := range a {
			out[i] = x
		}
		return out
	}
	return nil
}

// readCaseJSON parses one serialised case the way readCases does (numbers stay json.Number)
func readCaseJSON(s string) Case {
	var c Case
	dec := json.NewDecoder(bytesReader([]byte(s)))
	dec.UseNumber()
	if err := dec.Decode(&c); err != nil {
		return nil
	}
	return c
}
