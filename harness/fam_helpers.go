package main

import (
	"math/rand"
	"time"

	"github.com/hujm2023/go-sms-protocol/cmpp"
	"github.com/hujm2023/go-sms-protocol/datacoding"
	"github.com/hujm2023/go-sms-protocol/sgip"
	"github.com/hujm2023/go-sms-protocol/smpp"
)

// Family "helpers": public helper functions outside the listed properties
// (judged by Trace_Helpers; tags X.* are specification drift, never verdicts).

func init() {
	families["helpers"] = family{gen: genHelpers, run: runHelpers}
}

func genHelpers(g *genCtx) {
	r := g.rng(30)
	n := 300
	if g.thorough() {
		n = 5000
	}
	for i := 0; i < n; i++ {
		if !g.mine(i) {
			r.Int63()
			continue
		}
		g.emit(Case{"seed": r.Int63()})
	}
	if g.mine(0) {
		g.emit(Case{"registry": 1})
	}
}

func runHelpers(c Case, tr *Tracer) {
	if caseInt(c, "registry") == 1 {
		for _, proto := range []string{"CMPP", "SMPP"} {
			rows := []interface{}{}
			for n := -1; n <= 300; n++ {
				var pdc datacoding.ProtocolDataCoding
				var nc, gc datacoding.Codec
				if proto == "CMPP" {
					pdc, nc, gc = datacoding.CMPPDataCoding(n), datacoding.NewCMPPCodec(datacoding.CMPPDataCoding(n), "x"), datacoding.GetCMPPCodec(datacoding.CMPPDataCoding(n), "x")
				} else {
					pdc, nc, gc = datacoding.SMPPDataCoding(n), datacoding.NewSMPPCodec(datacoding.SMPPDataCoding(n), "x"), datacoding.GetSMPPCodec(datacoding.SMPPDataCoding(n), "x")
				}
				row := Ev{"c": n, "valid": datacoding.IsValidProtoDataCoding(pdc), "wire": int(pdc.ToUint8()), "name": pdc.String(), "prio": pdc.Priority(),
					"codec": "", "getcodec": "", "maxlen": 0, "splitby": 0}
				if nc != nil {
					row["codec"] = string(nc.Name())
					row["maxlen"], row["splitby"] = nc.SplitBy()
				}
				if gc != nil {
					row["getcodec"] = string(gc.Name())
				}
				rows = append(rows, row)
			}
			tr.emit(Ev{"ev": "Registry", "proto": proto, "rows": rows, "site": "datacoding.registry/" + proto})
		}
		return
	}
	seedv := int64(caseInt(c, "seed"))
	if v, ok := c["seed"].(int64); ok {
		seedv = v
	}
	rr := rand.New(rand.NewSource(seedv))
	// timestamps
	mo, d, h, mi, s := 1+rr.Intn(12), 1+rr.Intn(28), rr.Intn(24), rr.Intn(60), rr.Intn(60)
	when := time.Date(2000+rr.Intn(99), time.Month(mo), d, h, mi, s, 0, time.UTC)
	str, num := cmpp.GenConnectTimestamp(func() time.Time { return when })
	tr.emit(Ev{"ev": "Stamp", "mo": mo, "d": d, "h": h, "mi": mi, "s": s, "num": int(num), "str": S(str), "site": "cmpp.GenConnectTimestamp"})
	tr.emit(Ev{"ev": "Stamp", "mo": mo, "d": d, "h": h, "mi": mi, "s": s, "num": int(sgip.Timestamp(when)), "str": S(cmpp.TimeStamp2Str(sgip.Timestamp(when))), "site": "sgip.Timestamp"})
	// mobile numbers
	digits := func(n int) string {
		b := make([]byte, n)
		for i := range b {
			b[i] = byte('0' + rr.Intn(10))
		}
		return string(b)
	}
	m := []string{"", "86", "+86", "8", "+8", "1"}[rr.Intn(6)] + digits(rr.Intn(12))
	tr.emit(Ev{"ev": "Mobile", "m": S(m), "out": S(sgip.FixSGIPMobile(m)), "site": "sgip.FixSGIPMobile"})
	// address typing
	addr := digits(rr.Intn(14))
	if rr.Intn(3) == 0 {
		addr += []string{"a", "Z", "-", " ", "+"}[rr.Intn(5)] + digits(rr.Intn(3))
	}
	for name, f := range map[string]func(string) (int, int, string){"smpp.GenerateSourceAddress": smpp.GenerateSourceAddress, "smpp.GenerateSourceAddress2": smpp.GenerateSourceAddress2} {
		ton, npi, same := f(addr)
		tr.emit(Ev{"ev": "Addr", "addr": S(addr), "ton": ton, "npi": npi, "same": S(same), "site": name})
	}
	// esm_class
	esm := rr.Intn(256)
	tr.emit(Ev{"ev": "Esm", "esm": esm, "receipt": smpp.IsDeliveryReceipt(esm), "longmo": smpp.IsLongMO(esm), "site": "smpp.esm_class"})
	// signatures
	pool := []rune("abc 123你好签名验证码,.!")
	word := func(n int) []rune {
		w := make([]rune, n)
		for i := range w {
			w[i] = pool[rr.Intn(len(pool))]
		}
		return w
	}
	sig, body := word(1+rr.Intn(6)), word(2+rr.Intn(20))
	lb, rb := '【', '】'
	if rr.Intn(2) == 0 {
		lb, rb = '[', ']'
	}
	prefix := rr.Intn(2) == 0
	var content []rune
	if prefix {
		content = append(append(append([]rune{lb}, sig...), rb), body...)
	} else {
		content = append(append(append(append([]rune{}, body...), lb), sig...), rb)
	}
	ob, os := cmpp.RemoveSign(string(content))
	tr.emit(Ev{"ev": "Sign", "l": int(lb), "r": int(rb), "sig": scalars(string(sig)), "body": scalars(string(body)), "prefix": prefix, "content": scalars(string(content)),
		"outbody": scalars(ob), "outsig": scalars(os), "parsed": scalars(cmpp.ParseSignature(string(content))), "site": "cmpp.RemoveSign"})
}
