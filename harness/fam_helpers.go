package main

import (
	"bytes"
	"math/rand"
	"os"
	"time"

	"github.com/hujm2023/go-sms-protocol/cmpp"
	"github.com/hujm2023/go-sms-protocol/datacoding"
	gsm7 "github.com/hujm2023/go-sms-protocol/datacoding/gsm7encoding"
	"github.com/hujm2023/go-sms-protocol/packet"
	"github.com/hujm2023/go-sms-protocol/sgip"
	"github.com/hujm2023/go-sms-protocol/sgip/sgip12"
	"github.com/hujm2023/go-sms-protocol/smgp"
	"github.com/hujm2023/go-sms-protocol/smgp/smgp30"
	"github.com/hujm2023/go-sms-protocol/smpp"
)

// Family "helpers": public helper functions outside the listed properties
// (judged by Trace_Helpers; tags X.* are specification drift, never verdicts).

func init() {
	families["helpers"] = family{gen: genHelpers, run: runHelpers}
}

func genHelpers(g *genCtx) {
	r := g.rng(30)
	n := 300
	if g.thorough() {
		n = 5000
	}
	for i := 0; i < n; i++ {
		if !g.mine(i) {
			r.Int63()
			continue
		}
		g.emit(Case{"seed": r.Int63()})
	}
	if g.mine(0) {
		g.emit(Case{"registry": 1})
	}
}

func runHelpers(c Case, tr *Tracer) {
	if caseInt(c, "registry") == 1 {
		for _, proto := range []string{"CMPP", "SMPP"} {
			rows := []interface{}{}
			for n := -1; n <= 300; n++ {
				var pdc datacoding.ProtocolDataCoding
				var nc, gc datacoding.Codec
				if proto == "CMPP" {
					pdc, nc, gc = datacoding.CMPPDataCoding(n), datacoding.NewCMPPCodec(datacoding.CMPPDataCoding(n), "x"), datacoding.GetCMPPCodec(datacoding.CMPPDataCoding(n), "x")
				} else {
					pdc, nc, gc = datacoding.SMPPDataCoding(n), datacoding.NewSMPPCodec(datacoding.SMPPDataCoding(n), "x"), datacoding.GetSMPPCodec(datacoding.SMPPDataCoding(n), "x")
				}
				row := Ev{"c": n, "valid": datacoding.IsValidProtoDataCoding(pdc), "wire": int(pdc.ToUint8()), "name": pdc.String(), "prio": pdc.Priority(),
					"codec": "", "getcodec": "", "maxlen": 0, "splitby": 0}
				if nc != nil {
					row["codec"] = string(nc.Name())
					row["maxlen"], row["splitby"] = nc.SplitBy()
				}
				if gc != nil {
					row["getcodec"] = string(gc.Name())
				}
				rows = append(rows, row)
			}
			tr.emit(Ev{"ev": "Registry", "proto": proto, "rows": rows, "site": "datacoding.registry/" + proto})
		}
		return
	}
	seedv := int64(caseInt(c, "seed"))
	if v, ok := c["seed"].(int64); ok {
		seedv = v
	}
	rr := rand.New(rand.NewSource(seedv))
	// timestamps
	mo, d, h, mi, s := 1+rr.Intn(12), 1+rr.Intn(28), rr.Intn(24), rr.Intn(60), rr.Intn(60)
	when := time.Date(2000+rr.Intn(99), time.Month(mo), d, h, mi, s, 0, time.UTC)
	str, num := cmpp.GenConnectTimestamp(func() time.Time { return when })
	tr.emit(Ev{"ev": "Stamp", "mo": mo, "d": d, "h": h, "mi": mi, "s": s, "num": int(num), "str": S(str), "site": "cmpp.GenConnectTimestamp"})
	tr.emit(Ev{"ev": "Stamp", "mo": mo, "d": d, "h": h, "mi": mi, "s": s, "num": int(sgip.Timestamp(when)), "str": S(cmpp.TimeStamp2Str(sgip.Timestamp(when))), "site": "sgip.Timestamp"})
	// mobile numbers
	digits := func(n int) string {
		b := make([]byte, n)
		for i := range b {
			b[i] = byte('0' + rr.Intn(10))
		}
		return string(b)
	}
	m := []string{"", "86", "+86", "8", "+8", "1"}[rr.Intn(6)] + digits(rr.Intn(12))
	tr.emit(Ev{"ev": "Mobile", "m": S(m), "out": S(sgip.FixSGIPMobile(m)), "site": "sgip.FixSGIPMobile"})
	// address typing
	addr := digits(rr.Intn(14))
	if rr.Intn(3) == 0 {
		addr += []string{"a", "Z", "-", " ", "+"}[rr.Intn(5)] + digits(rr.Intn(3))
	}
	for name, f := range map[string]func(string) (int, int, string){"smpp.GenerateSourceAddress": smpp.GenerateSourceAddress, "smpp.GenerateSourceAddress2": smpp.GenerateSourceAddress2} {
		ton, npi, same := f(addr)
		tr.emit(Ev{"ev": "Addr", "addr": S(addr), "ton": ton, "npi": npi, "same": S(same), "site": name})
	}
	// esm_class
	esm := rr.Intn(256)
	tr.emit(Ev{"ev": "Esm", "esm": esm, "receipt": smpp.IsDeliveryReceipt(esm), "longmo": smpp.IsLongMO(esm), "site": "smpp.esm_class"})
	// signatures
	pool := []rune("abc 123你好签名验证码,.!")
	word := func(n int) []rune {
		w := make([]rune, n)
		for i := range w {
			w[i] = pool[rr.Intn(len(pool))]
		}
		return w
	}
	sig, body := word(1+rr.Intn(6)), word(2+rr.Intn(20))
	lb, rb := '【', '】'
	if rr.Intn(2) == 0 {
		lb, rb = '[', ']'
	}
	prefix := rr.Intn(2) == 0
	var content []rune
	if prefix {
		content = append(append(append([]rune{lb}, sig...), rb), body...)
	} else {
		content = append(append(append(append([]rune{}, body...), lb), sig...), rb)
	}
	ob, os := cmpp.RemoveSign(string(content))
	tr.emit(Ev{"ev": "Sign", "l": int(lb), "r": int(rb), "sig": scalars(string(sig)), "body": scalars(string(body)), "prefix": prefix, "content": scalars(string(content)),
		"outbody": scalars(ob), "outsig": scalars(os), "parsed": scalars(cmpp.ParseSignature(string(content))), "site": "cmpp.RemoveSign"})
	// ---- exported odds and ends no other family calls
	// header parsers over the same 12 / 16 / 20 octets: from a byte slice, from an io.Reader, by peeking; the header writer back
	hb := make([]byte, 20)
	rr.Read(hb)
	k := []int{0, 3, 11, 12, 15, 16, 19, 20}[rr.Intn(8)]
	{
		h1, e1 := cmpp.NewHeaderFromBytes(hb[:k])
		h2, e2 := cmpp.PeekHeader(hb[:k])
		h3, e3 := cmpp.NewHeaderFromReader(bytes.NewReader(hb[:k]))
		tr.emit(Ev{"ev": "Hdr", "proto": "cmpp", "in": B(hb[:k]), "errs": []bool{e1 != nil, e2 != nil, e3 != nil},
			"f": [][]int{{int(h1.TotalLength >> 16), int(h1.TotalLength & 0xffff), int(uint32(h1.CommandID) >> 16), int(uint32(h1.CommandID) & 0xffff), int(h1.SequenceID >> 16), int(h1.SequenceID & 0xffff)},
				{int(h2.TotalLength >> 16), int(h2.TotalLength & 0xffff), int(uint32(h2.CommandID) >> 16), int(uint32(h2.CommandID) & 0xffff), int(h2.SequenceID >> 16), int(h2.SequenceID & 0xffff)},
				{int(h3.TotalLength >> 16), int(h3.TotalLength & 0xffff), int(uint32(h3.CommandID) >> 16), int(uint32(h3.CommandID) & 0xffff), int(h3.SequenceID >> 16), int(h3.SequenceID & 0xffff)}},
			"back": B(h2.Bytes()), "site": "cmpp.header"})
		g1, f1 := smgp.NewHeaderFromBytes(hb[:k])
		g2, f2 := smgp.PeekHeader(hb[:k])
		g3, f3 := smgp.NewHeaderFromReader(bytes.NewReader(hb[:k]))
		tr.emit(Ev{"ev": "Hdr", "proto": "smgp", "in": B(hb[:k]), "errs": []bool{f1 != nil, f2 != nil, f3 != nil},
			"f": [][]int{{int(g1.TotalLength >> 16), int(g1.TotalLength & 0xffff), int(uint32(g1.CommandID) >> 16), int(uint32(g1.CommandID) & 0xffff), int(g1.SequenceID >> 16), int(g1.SequenceID & 0xffff)},
				{int(g2.TotalLength >> 16), int(g2.TotalLength & 0xffff), int(uint32(g2.CommandID) >> 16), int(uint32(g2.CommandID) & 0xffff), int(g2.SequenceID >> 16), int(g2.SequenceID & 0xffff)},
				{int(g3.TotalLength >> 16), int(g3.TotalLength & 0xffff), int(uint32(g3.CommandID) >> 16), int(uint32(g3.CommandID) & 0xffff), int(g3.SequenceID >> 16), int(g3.SequenceID & 0xffff)}},
			"back": B(g2.Bytes()), "site": "smgp.header"})
	}
	// ids rendered as decimal text
	seq := rr.Uint32()
	sh := sgip.NewHeader(0, sgip.SGIP_SUBMIT, rr.Uint32(), seq)
	rep := &sgip12.Report{SubmitSequence: [3]uint32{rr.Uint32(), rr.Uint32(), seq}}
	tr.emit(Ev{"ev": "DecId", "hi": int(seq >> 16), "lo": int(seq & 0xffff), "strs": []interface{}{S(sh.GetMsgId()), S(rep.GetSubmitIdStr())},
		"nums": [][]int{{int(sh.GetSequenceID() >> 16), int(sh.GetSequenceID() & 0xffff)}, {int(rep.GetSubmitId() >> 16), int(rep.GetSubmitId() & 0xffff)}}, "site": "sgip.ids"})
	// the hexadecimal views of a writer and of a reader
	hv := randBytes(rr, rr.Intn(24))
	hw := packet.NewPacketWriter()
	hw.WriteBytes(hv)
	hr := packet.NewPacketReader(hv)
	hr.ReadNBytes(len(hv) / 3)
	tr.emit(Ev{"ev": "Hex", "in": B(hv), "skip": len(hv) / 3, "w": S(hw.HexString()), "r": S(hr.HexString()), "site": "packet.HexString"})
	hw.Release()
	hr.Release()
	// the CMPP command names as JSON, there and back
	cid := []cmpp.CommandID{cmpp.CommandConnect, cmpp.CommandConnectResp, cmpp.CommandTerminate, cmpp.CommandTerminateResp, cmpp.CommandSubmit, cmpp.CommandSubmitResp,
		cmpp.CommandDeliver, cmpp.CommandDeliverResp, cmpp.CommandActiveTest, cmpp.CommandActiveTestResp, cmpp.CommandQuery, cmpp.CommandCancel, cmpp.CommandID(rr.Uint32())}[rr.Intn(13)]
	js, _ := cid.MarshalJSON()
	var back cmpp.CommandID
	uerr := quietly(func() error { return back.UnmarshalJSON(js) })
	tr.emit(Ev{"ev": "CmdJson", "hi": int(uint32(cid) >> 16), "lo": int(uint32(cid) & 0xffff), "js": S(string(js)), "name": S(cid.String()), "uerr": uerr != nil,
		"bhi": int(uint32(back) >> 16), "blo": int(uint32(back) & 0xffff), "site": "cmpp.CommandID.JSON"})
	// SMGP requests build the header of their response
	rs := rr.Uint32()
	dl := &smgp30.Deliver{}
	dl.SetSequenceID(rs)
	at := &smgp30.ActiveTest{}
	at.SetSequenceID(rs)
	ex := &smgp30.Exit{}
	ex.SetSequenceID(rs)
	tr.emit(Ev{"ev": "RespHdr", "hi": int(rs >> 16), "lo": int(rs & 0xffff),
		"seqs": [][]int{{int(dl.GenerateResponseHeader().Header.SequenceID >> 16), int(dl.GenerateResponseHeader().Header.SequenceID & 0xffff)},
			{int(at.GenerateResponseHeader().Header.SequenceID >> 16), int(at.GenerateResponseHeader().Header.SequenceID & 0xffff)},
			{int(ex.GenerateResponseHeader().Header.SequenceID >> 16), int(ex.GenerateResponseHeader().Header.SequenceID & 0xffff)}},
		"cmds": []int{int(uint32(dl.GenerateResponseHeader().Header.CommandID) & 0xffff), int(uint32(at.GenerateResponseHeader().Header.CommandID) & 0xffff), int(uint32(ex.GenerateResponseHeader().Header.CommandID) & 0xffff)},
		"resp": []bool{uint32(dl.GenerateResponseHeader().Header.CommandID)>>31 == 1, uint32(at.GenerateResponseHeader().Header.CommandID)>>31 == 1, uint32(ex.GenerateResponseHeader().Header.CommandID)>>31 == 1},
		"site": "smgp30.GenerateResponseHeader"})
	// single optional parameters
	tv := randBytes(rr, rr.Intn(6))
	tg := []int{0, 0, 5, 0x1401}[rr.Intn(4)]
	t1, t2 := smpp.NewTLV(uint16(tg), tv), smpp.NewTLVByString(uint16(tg), string(tv))
	tr.emit(Ev{"ev": "OneTlv", "tag": tg, "v": B(tv), "bytes": []interface{}{B(t1.Bytes()), B(t2.Bytes())}, "empty": []bool{t1.IsEmpty(), t2.IsEmpty(), smpp.TLV{}.IsEmpty()},
		"strempty": []bool{t1.String() == "", smpp.TLV{}.String() == ""}, "site": "smpp.TLV"})
	// "can GSM 7-bit carry it" is the validator's answer
	gt := string(word(rr.Intn(8))) + []string{"", "€", "[", "ç", "`", "\x1b"}[rr.Intn(6)]
	tr.emit(Ev{"ev": "CanGsm", "text": scalars(gt), "can": datacoding.CanEncodeByGSM7(gt), "valid": gsm7.IsValidGSM7String(gt), "inv": scalars(string(gsm7.ValidateGSM7String(gt))), "site": "datacoding.CanEncodeByGSM7"})
}

// quietly runs f with the process's standard output pointed at the null device (UnmarshalJSON prints its argument)
func quietly(f func() error) error {
	old := os.Stdout
	if null, err := os.OpenFile(os.DevNull, os.O_WRONLY, 0); err == nil {
		os.Stdout = null
		defer func() { os.Stdout = old; null.Close() }()
	}
	return f()
}
