package main

import (
	"context"
	"io/ioutil"
	"math/rand"
	"path/filepath"
	"regexp"
	"runtime"
	"strconv"

	protocol "github.com/hujm2023/go-sms-protocol"
	"github.com/hujm2023/go-sms-protocol/cmpp"
	"github.com/hujm2023/go-sms-protocol/cmpp/cmpp20"
	"github.com/hujm2023/go-sms-protocol/cmpp/cmpp30"
	"github.com/hujm2023/go-sms-protocol/datacoding"
	gsm7 "github.com/hujm2023/go-sms-protocol/datacoding/gsm7encoding"
	"github.com/hujm2023/go-sms-protocol/packet"
	"github.com/hujm2023/go-sms-protocol/sgip"
	"github.com/hujm2023/go-sms-protocol/sgip/sgip12"
	"github.com/hujm2023/go-sms-protocol/smgp"
	"github.com/hujm2023/go-sms-protocol/smgp/smgp30"
	"github.com/hujm2023/go-sms-protocol/smpp"
	"github.com/hujm2023/go-sms-protocol/smpp/smpp34"
)

// Family "fuzz" (C03): arbitrary octets into every decoder, dispatcher and
// auxiliary parser, each call under recover, a watchdog and an allocation meter.
// The harness observes (outcome, bytes allocated); TLC judges.

func init() {
	families["fuzz"] = family{gen: genFuzz, run: runFuzz}
}

// auxiliary parsers: name -> call returning whether it reported an error
var auxFns = map[string]func(in []byte) bool{
	"DecodeCMPP20":                   func(in []byte) bool { _, e := cmpp20.DecodeCMPP20(in); return e != nil },
	"DecodeCMPP30":                   func(in []byte) bool { _, e := cmpp30.DecodeCMPP30(in); return e != nil },
	"DecodeSGIP12":                   func(in []byte) bool { _, e := sgip12.DecodeSGIP12(in); return e != nil },
	"DecodeSMGP30":                   func(in []byte) bool { _, e := smgp30.DecodeSMGP30(in); return e != nil },
	"DecodeSMPP34":                   func(in []byte) bool { _, e := smpp34.DecodeSMPP34(in); return e != nil },
	"cmpp.PeekHeader":                func(in []byte) bool { _, e := cmpp.PeekHeader(in); return e != nil },
	"cmpp.NewHeaderFromBytes":        func(in []byte) bool { _, e := cmpp.NewHeaderFromBytes(in); return e != nil },
	"sgip.PeekHeader":                func(in []byte) bool { _, e := sgip.PeekHeader(in); return e != nil },
	"smgp.PeekHeader":                func(in []byte) bool { _, e := smgp.PeekHeader(in); return e != nil },
	"smgp.NewHeaderFromBytes":        func(in []byte) bool { _, e := smgp.NewHeaderFromBytes(in); return e != nil },
	"smpp.PeekHeader":                func(in []byte) bool { _, e := smpp.PeekHeader(in); return e != nil },
	"smpp.ReadTLVs":                  func(in []byte) bool { _, e := smpp.ReadTLVs(packet.NewPacketReader(in)); return e != nil },
	"smpp.ReadTLVs1":                 func(in []byte) bool { r := packet.NewPacketReader(in); smpp.ReadTLVs1(r); return r.Error() != nil },
	"smgp.ParseOptions":              func(in []byte) bool { _, e := smgp.ParseOptions(in); return e != nil },
	"smgp.ReadOptions":               func(in []byte) bool { r := packet.NewPacketReader(in); smgp.ReadOptions(r); return r.Error() != nil },
	"ParseLongSmsContent":            func(in []byte) bool { protocol.ParseLongSmsContent(string(in)); return false },
	"smpp34.ExtractDeliveryReceipt":  func(in []byte) bool { _, e := smpp34.ExtractDeliveryReceipt(string(in)); return e != nil },
	"smgp30.ExtractDeliveryReceipt":  func(in []byte) bool { _, e := smgp30.ExtractDeliveryReceipt(string(in)); return e != nil },
	"smgp30.ExtractDeliveryReceipt1": func(in []byte) bool { _, e := smgp30.ExtractDeliveryReceipt1(string(in)); return e != nil },
	"Ascii.Decode":                   func(in []byte) bool { _, e := datacoding.Ascii(in).Decode(); return e != nil },
	"Latin1.Decode":                  func(in []byte) bool { _, e := datacoding.Latin1(in).Decode(); return e != nil },
	"UCS2.Decode":                    func(in []byte) bool { _, e := datacoding.UCS2(in).Decode(); return e != nil },
	"GB18030.Decode":                 func(in []byte) bool { _, e := datacoding.GB18030(in).Decode(); return e != nil },
	"GSM7Packed.Decode":              func(in []byte) bool { _, e := datacoding.GSM7Packed(in).Decode(); return e != nil },
	"GSM7Unpacked.Decode":            func(in []byte) bool { _, e := datacoding.GSM7Unpacked(in).Decode(); return e != nil },
	"gsm7.Unpack":                    func(in []byte) bool { gsm7.Unpack(in); return false },
	"gsm7.Decode":                    func(in []byte) bool { _, e := gsm7.Decode(in); return e != nil },
	"gsm7.GSM7(true).NewDecoder":     func(in []byte) bool { _, e := gsm7.GSM7(true).NewDecoder().Bytes(in); return e != nil },
	"gsm7.GSM7(false).NewDecoder":    func(in []byte) bool { _, e := gsm7.GSM7(false).NewDecoder().Bytes(in); return e != nil },
	"gsm7.ValidateGSM7Buffer":        func(in []byte) bool { gsm7.ValidateGSM7Buffer(in); return false },
	"gsm7.ValidateGSM7String":        func(in []byte) bool { gsm7.ValidateGSM7String(string(in)); return false },
	"gsm7.IsValidGSM7String":         func(in []byte) bool { gsm7.IsValidGSM7String(string(in)); return false },
	"DecodeCMPPCContent": func(in []byte) bool {
		if len(in) == 0 {
			return false
		}
		_, e := protocol.DecodeCMPPCContent(context.Background(), string(in[1:]), in[0])
		return e != nil
	},
	"DecodeSMPPCContent": func(in []byte) bool {
		if len(in) == 0 {
			return false
		}
		_, e := protocol.DecodeSMPPCContent(context.Background(), string(in[1:]), int(in[0]))
		return e != nil
	},
	"cmpp.RemoveSign":     func(in []byte) bool { cmpp.RemoveSign(string(in)); return false },
	"cmpp.ParseSignature": func(in []byte) bool { cmpp.ParseSignature(string(in)); return false },
}

var auxNames []string

func init() {
	for n := range auxFns {
		auxNames = append(auxNames, n)
	}
	sortStrings(auxNames)
}

func sortStrings(s []string) {
	for i := 1; i < len(s); i++ {
		for j := i; j > 0 && s[j] < s[j-1]; j-- {
			s[j], s[j-1] = s[j-1], s[j]
		}
	}
}

func genFuzz(g *genCtx) {
	r := g.rng(3)
	n := 0
	emit := func(fn string, in []byte) {
		if g.mine(n) {
			g.emit(Case{"fn": fn, "in": B(in)})
		}
		n++
	}
	// a dispatcher given the front part of an image of type `as` (command id intact): judged like that type's decoder
	emitAs := func(fn string, in []byte, as string) {
		if g.mine(n) {
			g.emit(Case{"fn": fn, "in": B(in), "as": as})
		}
		n++
	}
	subst := []byte{0, 1, 0x7f, 0x80, 0xff}
	protoOf := func(tn string) string {
		switch tn[:6] {
		case "cmpp20":
			return "DecodeCMPP20"
		case "cmpp30":
			return "DecodeCMPP30"
		case "sgip12":
			return "DecodeSGIP12"
		case "smgp30":
			return "DecodeSMGP30"
		case "smpp34":
			return "DecodeSMPP34"
		}
		return ""
	}
	for _, tn := range typeNames {
		nimg := 1
		if g.thorough() {
			nimg = 16
		}
		for it := 0; it < nimg; it++ {
			a := defaultAssign(r, tn, true)
			img, err := build(tn, a).IEncode()
			if err != nil {
				continue
			}
			both := func(in []byte) {
				emit(tn, in)
				if d := protoOf(tn); d != "" && it == 0 {
					emit(d, in)
				}
			}
			// every truncation point
			for k := 0; k <= len(img); k++ {
				if !g.thorough() && len(img) > 120 && k > 40 && k < len(img)-40 && k%3 != 0 {
					continue
				}
				emit(tn, img[:k])
				if d := protoOf(tn); d != "" && it == 0 {
					if k >= 8 {
						emitAs(d, img[:k], tn)
					} else {
						emit(d, img[:k])
					}
				}
			}
			// every length / count octet substituted
			offs := slotOffsets(tn, a)
			for _, f := range layouts[tn].Fields {
				if f.K != "N" && f.K != "Z" {
					continue
				}
				o := offs[f.N]
				for j := o[0]; j < o[0]+o[1] && j < len(img); j++ {
					for _, s := range subst {
						m := append([]byte{}, img...)
						m[j] = s
						both(m)
					}
				}
				if o[1] == 4 && o[0]+4 <= len(img) { // 32-bit length: all octets at once
					for _, s := range []byte{0x7f, 0x80, 0xff} {
						m := append([]byte{}, img...)
						m[o[0]], m[o[0]+1], m[o[0]+2], m[o[0]+3] = s, 0xff, 0xff, 0xf0
						both(m)
					}
				}
			}
			// the length prefix and the command id substituted
			for j := 0; j < 8 && j < len(img); j++ {
				for _, s := range subst {
					m := append([]byte{}, img...)
					m[j] = s
					both(m)
				}
			}
			// trailing garbage of every length 1..16
			for k := 1; k <= 16; k++ {
				both(append(append([]byte{}, img...), randBytes(r, k)...))
			}
			// optional-parameter tails, well-formed and malformed
			if tailField(tn) != "" {
				b := cloneAssign(a)
				b[tailField(tn)] = fval{}
				fixed, _ := build(tn, b).IEncode()
				for _, tail := range [][]byte{
					{0, 1, 0, 0}, {0, 1, 0, 1, 9}, {0, 1, 0, 2, 9}, {0, 1}, {0, 1, 0}, {0, 1, 0xff, 0xff}, {0, 1, 0xff, 0xff, 1, 2, 3},
					{0, 2, 0, 1, 1, 0, 2, 0, 1, 2}, {0, 0, 0, 0}, {0, 0, 0, 0, 0, 0, 0, 0}, {0xff},
				} {
					m := append(append([]byte{}, fixed...), tail...)
					setPrefix(m)
					both(m)
				}
				// long tails: thousands of (mostly empty) parameters under distinct tags - work and memory stay proportional
				if it == 0 {
					for _, cnt := range []int{600, 4000} {
						// (judging a tail of n parameters costs TLC n^2 and a recursion n deep: 4,000 is what it takes)
						if cnt > 600 && tn[:6] != "smgp30" || cnt > 4000 && !g.thorough() {
							continue
						}
						m := append([]byte{}, fixed...)
						for k := 0; k < cnt; k++ {
							tag := 0x1400 + k
							vl := 0
							if k%97 == 0 {
								vl = 3
							}
							m = append(m, byte(tag>>8), byte(tag), 0, byte(vl))
							m = append(m, make([]byte, vl)...)
						}
						if len(m) < 65536 || layouts[tn].Fields[0].W == 4 {
							setPrefix(m)
							both(m)
						}
					}
				}
			}
		}
	}
	// auxiliary parsers: structured and unstructured strings
	texts := []string{"", "id:", "id:123", "Sub", "sub:", "Sub:001", "stat:DELIVRD", "id:0123456789 sub:001 dlvrd:001 submit date:2401011200 done date:2401011201 stat:DELIVRD err:000 text:hello",
		"Submit_Date:2401011200 Sub:001", "Text", "err", "Err:", "done date:", "Done_Date", "\x05\x00\x03\x01\x02", "\x05\x00\x03\x01\x02\x01", "\x06\x08\x04\x00\x01\x02", "\x06\x08\x04\x00\x01\x02\x01",
		"【", "【a】", "[", "[]", "[a]b", "a[b]", "】【", "a【b】", "【】】", "\xff\xfe", "\x1b", "\x1b\x1b", "\x00", "\x0d"}
	// packed images of septet strings that end in the special septets (escape, CR filler, '@') around the
	// 8-septet block boundary: random octets almost never unpack to these endings
	for _, n := range []int{1, 2, 6, 7, 8, 9, 15, 16, 17, 24} {
		for _, a := range []byte{0x1b, 0x0d, 0x00, 0x61} {
			for _, b := range []byte{0x1b, 0x0d, 0x00, 0x61} {
				sp := make([]byte, n)
				for i := range sp {
					sp[i] = 0x61
				}
				sp[n-1] = b
				if n > 1 {
					sp[n-2] = a
				}
				texts = append(texts, string(packSeptetsLSB(sp)))
			}
		}
	}
	for _, fn := range auxNames {
		for _, t := range texts {
			emit(fn, []byte(t))
			for k := 1; k < len(t) && k < 12; k++ {
				emit(fn, []byte(t[:k]))
			}
		}
		nr := 150
		if g.thorough() {
			nr = 15000
		}
		for i := 0; i < nr; i++ {
			L := r.Intn(40)
			if r.Intn(10) == 0 {
				L = r.Intn(400)
			}
			if g.thorough() && r.Intn(400) == 0 {
				L = 60000 + r.Intn(5536)
			}
			var b []byte
			switch r.Intn(4) {
			case 0:
				b = randBytes(r, L)
			case 1:
				b = randBytesFrom(r, L, []byte{0, 0, 0, 1, 4, 5, 0xff, 0x1b, 0x0d})
			case 2:
				b = randBytesFrom(r, L, []byte("id:sub Sdlvrtae_D:01 "))
			default:
				b = randBytesFrom(r, L, []byte{0x81, 0x30, 0x39, 0xfe, 0xd8, 0x00, 0xdc, 0x41})
			}
			emit(fn, b)
		}
	}
	// unstructured octets into every PDU decoder
	nr := 10
	if g.thorough() {
		nr = 2000
	}
	for _, tn := range typeNames {
		for i := 0; i < nr; i++ {
			L := r.Intn(200)
			if g.thorough() && r.Intn(100) == 0 {
				L = 60000 + r.Intn(5536)
			}
			emit(tn, randBytes(r, L))
		}
	}
}

func runFuzz(c Case, tr *Tracer) {
	fn := caseStr(c, "fn")
	in := caseBytes(c, "in")
	tn := ""
	var call func(in []byte) bool
	site := fn
	if ctor, ok := ctors[fn]; ok {
		tn = fn
		site = fn + ".IDecode"
		call = func(in []byte) bool { return ctor().IDecode(in) != nil }
	} else {
		call = auxFns[fn]
		tn = caseStr(c, "as")
	}
	arg := append([]byte{}, in...)
	if caseInt(c, "t")%2 == 0 {
		// the input is the front of a larger receive buffer: what lies behind it (the tail of an earlier, longer
		// packet) is not input
		buf := make([]byte, len(in)+300)
		copy(buf, in)
		for i := len(in); i < len(buf); i++ {
			buf[i] = []byte{'A', 0, 0, 1}[i%4]
		}
		arg = buf[:len(in)]
	}
	var isErr bool
	var m0, m1 runtime.MemStats
	runtime.ReadMemStats(&m0)
	pan, hung := guardT(func() { isErr = call(arg) }, site)
	runtime.ReadMemStats(&m1)
	outcome := "ok"
	switch {
	case hung && skipped:
		outcome = "skipped" // not executed: no verdict
	case hung:
		outcome = "timeout"
	case pan:
		outcome = "panic"
	case isErr:
		outcome = "err"
	}
	alloc := int64(m1.TotalAlloc - m0.TotalAlloc)
	if alloc > 2000000000 {
		alloc = 2000000000 // TLC integers are 32-bit
	}
	tr.emit(Ev{"ev": "Fuzz", "type": tn, "in": B(in), "outcome": outcome, "alloc": alloc, "site": site})
	// the same octets into an object of the type that has been decoded into before (a receive loop that keeps one PDU per type)
	if ctor, ok := ctors[fn]; ok && outcome != "skipped" && outcome != "timeout" {
		u := usedFuzz[fn]
		if u == nil {
			u = ctor()
			usedFuzz[fn] = u
		}
		arg2 := append([]byte{}, in...)
		var isErr2 bool
		runtime.ReadMemStats(&m0)
		pan2, hung2 := guardT(func() { isErr2 = u.IDecode(arg2) != nil }, site+"/used")
		runtime.ReadMemStats(&m1)
		o2 := "ok"
		switch {
		case hung2 && skipped:
			o2 = "skipped"
		case hung2:
			o2 = "timeout"
		case pan2:
			o2 = "panic"
		case isErr2:
			o2 = "err"
		}
		if pan2 || hung2 {
			delete(usedFuzz, fn) // whatever state it was left in: start over with a new object
		}
		alloc2 := int64(m1.TotalAlloc - m0.TotalAlloc)
		if alloc2 > 2000000000 {
			alloc2 = 2000000000
		}
		tr.emit(Ev{"ev": "Fuzz", "type": tn, "in": B(in), "outcome": o2, "alloc": alloc2, "site": site + "/used"})
	}
}

var usedFuzz = map[string]codecPDU{}

var _ = rand.Int

var corpusSel = regexp.MustCompile(`(?m)^uint16\((\d+)\)$`)
var corpusData = regexp.MustCompile(`(?m)^\[\]byte\((".*")\)$`)

// loadFuzzCorpus turns the files of a `go test -fuzz FuzzDecode` corpus into fuzz cases
func loadFuzzCorpus(dir string) []Case {
	names := append(append([]string{}, typeNames...), auxNames...)
	files, _ := filepath.Glob(filepath.Join(dir, "*"))
	var out []Case
	for _, fn := range files {
		b, err := ioutil.ReadFile(fn)
		if err != nil {
			continue
		}
		ms, md := corpusSel.FindSubmatch(b), corpusData.FindSubmatch(b)
		if ms == nil || md == nil {
			continue
		}
		sel, _ := strconv.Atoi(string(ms[1]))
		data, err := strconv.Unquote(string(md[1]))
		if err != nil {
			continue
		}
		out = append(out, Case{"fn": names[sel%len(names)], "in": S(data)})
	}
	return out
}

// packSeptetsLSB packs septets into octets, least significant bits first (TS 23.038 6.1.2.1.1), no filler.
func packSeptetsLSB(sp []byte) []byte {
	out := make([]byte, (len(sp)*7+7)/8)
	for i, v := range sp {
		bit := i * 7
		w := uint16(v&0x7f) << (bit % 8)
		out[bit/8] |= byte(w)
		if bit/8+1 < len(out) {
			out[bit/8+1] |= byte(w >> 8)
		}
	}
	return out
}
