package main

import (
	"fmt"
	"math/rand"

	"github.com/hujm2023/go-sms-protocol/packet"
)

// Family "stringer": histories on packet.PDUStringer objects that follow one another (the builder pool hands the
// builders on), judged by Trace_Stringer against Stringer.tla.  Outside the listed properties: tags X.stringer.*.

func init() {
	families["stringer"] = family{gen: genStringer, run: runStringer}
}

func genStringer(g *genCtx) {
	r := g.rng(32)
	n := 200
	if g.thorough() {
		n = 4000
	}
	for i := 0; i < n; i++ {
		if !g.mine(i) {
			r.Int63()
			continue
		}
		g.emit(Case{"seed": r.Int63()})
	}
}

type namedText string

func (n namedText) String() string { return "<" + string(n) + ">" }

type pairAny struct{ A, B int }

func runStringer(c Case, tr *Tracer) {
	seedv := int64(caseInt(c, "seed"))
	if v, ok := c["seed"].(int64); ok {
		seedv = v
	}
	rr := rand.New(rand.NewSource(seedv))
	tr.emit(Ev{"ev": "Start", "site": "stringer"})
	word := func(max int) string {
		al := []string{"a", "Z", "0", " ", "\"", "%", "=", "中", "é", "\n", "\x00", "\xff"}
		s := ""
		for i := rr.Intn(max + 1); i > 0; i-- {
			s += al[rr.Intn(len(al))]
		}
		return s
	}
	if st := caseList(c, "steps"); len(st) > 0 { // a walk of Stringer.tla (Gen_Stringer)
		var p *packet.PDUStringer
		for _, x := range st {
			switch caseStr(x, "a") {
			case "new":
				p = packet.NewPDUStringer()
				tr.emit(Ev{"ev": "New", "site": "packet.NewPDUStringer"})
			case "w":
				field, kind, wb := string(caseBytes(x, "field")), caseStr(x, "kind"), caseBool(x, "wb")
				e := Ev{"ev": "W", "field": B([]byte(field)), "kind": kind, "wb": wb, "omit": caseBool(x, "omit"), "site": "PDUStringer.Write"}
				var v interface{}
				switch kind {
				case "s":
					e["v"], v = B(caseBytes(x, "v")), string(caseBytes(x, "v"))
				case "y":
					e["v"], v = B(caseBytes(x, "v")), caseBytes(x, "v")
				case "n":
					e["v"], v = caseInt(x, "n"), []interface{}{caseInt(x, "n"), int64(caseInt(x, "n")), int32(caseInt(x, "n"))}[rr.Intn(3)]
				default:
					e["v"], v = caseBool(x, "b"), caseBool(x, "b")
				}
				switch {
				case caseBool(x, "omit"):
					p.OmitWrite(field, v.(string))
				case wb:
					p.WriteWithBytes(field, v)
				default:
					p.Write(field, v)
				}
				tr.emit(e)
			case "str":
				tr.emit(Ev{"ev": "Str", "out": B([]byte(p.String())), "site": "PDUStringer.String"})
			case "rel":
				p.Release()
				tr.emit(Ev{"ev": "Rel", "site": "PDUStringer.Release"})
			}
		}
		return
	}
	for obj := 1 + rr.Intn(4); obj > 0; obj-- {
		p := packet.NewPDUStringer()
		tr.emit(Ev{"ev": "New", "site": "packet.NewPDUStringer"})
		for k := rr.Intn(8); k > 0; k-- {
			field := []string{"seq", "Msg_Id", "x", "", "短"}[rr.Intn(5)]
			wb := rr.Intn(2) == 0
			e := Ev{"ev": "W", "field": B([]byte(field)), "wb": wb, "omit": false, "site": "PDUStringer.Write"}
			var v interface{}
			switch rr.Intn(9) {
			case 0, 1:
				s := word(12)
				e["kind"], e["v"], v = "s", B([]byte(s)), s
			case 2:
				n := rr.Intn(1<<31-1) - rr.Intn(1<<31-1)
				e["kind"], e["v"] = "n", n
				switch rr.Intn(4) {
				case 0:
					v = n
				case 1:
					v = int64(n)
				case 2:
					v = int32(n)
				default:
					n = n & 0x7fff
					e["v"], v = n, int16(n)
				}
			case 3:
				n := rr.Intn(1 << 31)
				e["kind"], e["v"] = "n", n
				switch rr.Intn(5) {
				case 0:
					v = uint32(n)
				case 1:
					v = uint64(n)
				case 2:
					v = uint(n)
				case 3:
					n &= 0xffff
					e["v"], v = n, uint16(n)
				default:
					n &= 0xff
					e["v"], v = n, byte(n)
				}
			case 4:
				b := rr.Intn(2) == 0
				e["kind"], e["v"], v = "b", b, b
			case 5:
				y := []byte(word(10))
				e["kind"], e["v"], v = "y", B(y), y
			case 6:
				g := namedText(word(6))
				e["kind"], e["v"], v = "g", B([]byte(g.String())), g
			case 7: // types the switch does not name: the catch-all branch
				var a interface{}
				switch rr.Intn(4) {
				case 0:
					a = int8(rr.Intn(256) - 128)
				case 1:
					a = pairAny{rr.Intn(100), -rr.Intn(100)}
				case 2:
					a = []int{rr.Intn(9), rr.Intn(9)}
				default:
					a = fmt.Errorf("e%d", rr.Intn(100))
				}
				e["kind"], e["v"], v = "a", B([]byte(fmt.Sprintf("%v", a))), a
			default: // OmitWrite: a field that is left out when it is empty
				s := word(3)
				e["kind"], e["v"], e["omit"], e["wb"] = "s", B([]byte(s)), true, false
				p.OmitWrite(field, s)
				e["site"] = "PDUStringer.OmitWrite"
				tr.emit(e)
				continue
			}
			if wb {
				p.WriteWithBytes(field, v)
			} else {
				p.Write(field, v)
			}
			tr.emit(e)
		}
		for k := 1 + rr.Intn(2); k > 0; k-- {
			tr.emit(Ev{"ev": "Str", "out": B([]byte(p.String())), "site": "PDUStringer.String"})
		}
		p.Release()
		tr.emit(Ev{"ev": "Rel", "site": "PDUStringer.Release"})
	}
}
