package main

import (
	"math/rand"
	"reflect"
	"strings"

	sms "github.com/hujm2023/go-sms-protocol"
	"github.com/hujm2023/go-sms-protocol/cmpp/cmpp20"
	"github.com/hujm2023/go-sms-protocol/cmpp/cmpp30"
	"github.com/hujm2023/go-sms-protocol/sgip/sgip12"
	"github.com/hujm2023/go-sms-protocol/smgp/smgp30"
	"github.com/hujm2023/go-sms-protocol/smpp/smpp34"
)

// Family "session" (C10): request/response exchanges through the real
// constructors, SetSequenceID, IEncode, dispatchers and GenEmptyResponse.

func init() {
	families["session"] = family{gen: genSession, run: runSession}
}

var dispatchers = map[string]func([]byte) (sms.PDU, error){
	"cmpp20": cmpp20.DecodeCMPP20,
	"cmpp30": cmpp30.DecodeCMPP30,
	"sgip12": sgip12.DecodeSGIP12,
	"smgp30": smgp30.DecodeSMGP30,
	"smpp34": smpp34.DecodeSMPP34,
}

var pkgs = []string{"cmpp20", "cmpp30", "sgip12", "smgp30", "smpp34"}

func typeNameOf(p interface{}) string {
	t := reflect.TypeOf(p)
	if t.Kind() == reflect.Ptr {
		t = t.Elem()
	}
	return t.String()
}

func isRequestType(tn string) bool {
	p, ok := ctors[tn]().(sms.PDU)
	return ok && p.GenEmptyResponse() != nil
}

func genSession(g *genCtx) {
	r := g.rng(10)
	n := 0
	emit := func(c Case) {
		if g.mine(n) {
			g.emit(c)
		}
		n++
	}
	seqs := []uint32{0, 1, 2, 0x7fffffff, 0x80000000, 0xffffffff}
	if g.part == "" || g.part == "exchange" {
		for _, pkg := range pkgs {
			var reqs []string
			for _, tn := range typeNames {
				if strings.HasPrefix(tn, pkg+".") && isRequestType(tn) {
					reqs = append(reqs, tn)
				}
			}
			type rq = map[string]interface{}
			flavours := func(tn string) []int {
				if tn == "smpp34.Bind" {
					return []int{1, 2, 9}
				}
				return []int{0}
			}
			// every request type alone, every boundary sequence number, every bind flavour
			for _, tn := range reqs {
				for _, fl := range flavours(tn) {
					for _, s := range seqs {
						emit(Case{"pkg": pkg, "reqs": []interface{}{rq{"type": tn, "seq": be(uint64(s), 4), "flavour": fl, "w1": be(uint64(r.Uint32()), 4), "w2": be(uint64(r.Uint32()), 4)}}, "order": []int{0}})
					}
				}
			}
			// several outstanding requests answered in any order
			nr := 60
			if g.thorough() {
				nr = 8000
			}
			for i := 0; i < nr; i++ {
				k := 2 + r.Intn(3)
				var rs []interface{}
				used := map[uint32]bool{} // a client does not reuse an outstanding sequence identifier
				for j := 0; j < k; j++ {
					tn := reqs[r.Intn(len(reqs))]
					fl := flavours(tn)[r.Intn(len(flavours(tn)))]
					s := r.Uint32()
					if r.Intn(3) == 0 {
						s = seqs[r.Intn(len(seqs))]
					}
					for used[s] {
						s++
					}
					used[s] = true
					rs = append(rs, rq{"type": tn, "seq": be(uint64(s), 4), "flavour": fl, "w1": be(uint64(r.Uint32()), 4), "w2": be(uint64(r.Uint32()), 4)})
				}
				emit(Case{"pkg": pkg, "reqs": rs, "order": r.Perm(k)})
			}
			// several outstanding requests of the SAME type
			for _, tn := range reqs {
				fl := flavours(tn)[0]
				rs := []interface{}{}
				for j, s := range []uint32{0x11111111, 0x22222222, 0x33333333} {
					rs = append(rs, rq{"type": tn, "seq": be(uint64(s), 4), "flavour": fl, "w1": be(uint64(j+1), 4), "w2": be(uint64(7*j+3), 4)})
				}
				emit(Case{"pkg": pkg, "reqs": rs, "order": []int{0, 1, 2}})
				emit(Case{"pkg": pkg, "reqs": rs, "order": []int{2, 0, 1}})
			}
			// constructors and packet-building helpers
			for _, s := range seqs {
				emit(Case{"pkg": pkg, "ctor": true, "seq": be(uint64(s), 4)})
				emit(Case{"pkg": pkg, "helpers": true, "seq": be(uint64(s), 4)})
			}
		}
	}
	if g.part == "" || g.part == "dispatch" {
		// every encodable type must dispatch back to itself; other ids are unsupported
		for _, tn := range typeNames {
			if tn == "cmpp.SubPduDeliveryContent" {
				continue
			}
			fls := []int{0}
			if tn == "smpp34.Bind" || tn == "smpp34.BindResp" {
				fls = []int{1, 2, 9}
			}
			for _, fl := range fls {
				emit(Case{"disp": "type", "type": tn, "flavour": fl})
				// ... with a zero, an error and an all-ones status, as a full and as the shortest image of the type
				for _, st := range []int{0, 1, 0x58, 0xff, 0x7fffffff} {
					emit(Case{"disp": "type", "type": tn, "flavour": fl, "status": st})
					emit(Case{"disp": "type", "type": tn, "flavour": fl, "status": st, "bare": true})
				}
			}
		}
		nr := 800
		if g.thorough() {
			nr = 100000
		}
		for _, pkg := range pkgs {
			for c := 0; c < 64; c++ {
				emit(Case{"disp": "id", "pkg": pkg, "cmd": be(uint64(c), 4)})
				emit(Case{"disp": "id", "pkg": pkg, "cmd": be(uint64(0x80000000+uint32(c)), 4)})
			}
			for i := 0; i < nr/5; i++ {
				emit(Case{"disp": "id", "pkg": pkg, "cmd": be(uint64(r.Uint32()), 4)})
			}
			hl := map[string]int{"smpp34": 16, "cmpp20": 12, "cmpp30": 12, "smgp30": 12, "sgip12": 20}[pkg]
			for c := 0; c < 48; c++ {
				for _, top := range []uint32{0, 0x80000000} {
					emit(Case{"disp": "id", "pkg": pkg, "cmd": be(uint64(top+uint32(c)), 4), "bare": hl, "status": []int{1, 0x58, 0xff}[c%3]})
				}
			}
			emit(Case{"disp": "id", "pkg": pkg, "cmd": be(uint64(0xffffffff), 4), "bare": hl, "status": 0x58})
		}
	}
}

func pduGetCmd(p sms.PDU) []int { return be(uint64(p.GetCommand().ToUint32()), 4) }

// buildRequest makes a well-formed request of the type with its command id in the header
func buildRequest(rr *rand.Rand, tn string, flavour int) sms.PDU {
	a := defaultAssign(rr, tn, true)
	if tf := tailField(tn); tf != "" && rr.Intn(40) == 0 {
		// a text that travels in an optional parameter (message_payload and the like): a PDU of several thousand octets
		a[tf] = fval{tlvs: []tlvVal{{0x0424, randBytes(rr, 3000+rr.Intn(3000))}}}
	}
	if flavour != 0 {
		a["cmd"] = fval{b: []byte{0, 0, 0, byte(flavour)}}
	}
	return build(tn, a).(sms.PDU)
}

func dispatchName(pkg string, b []byte) (string, sms.PDU) {
	var p sms.PDU
	var err error
	if guard(func() { p, err = dispatchers[pkg](append([]byte{}, b...)) }) {
		return "panic", nil
	}
	switch {
	case err == sms.ErrUnsupportedPacket:
		return "unsupported", nil
	case err != nil:
		return "err", nil
	case p == nil || reflect.ValueOf(p).IsNil():
		return "nilnil", nil
	}
	return typeNameOf(p), p
}

func runSession(c Case, tr *Tracer) {
	if d := caseStr(c, "disp"); d != "" {
		runDispatch(c, d, tr)
		return
	}
	pkg := caseStr(c, "pkg")
	rr := rand.New(rand.NewSource(int64(caseInt(c, "t"))))
	tr.emit(Ev{"ev": "Start", "pkg": pkg, "site": pkg})
	if caseBool(c, "ctor") {
		seq := uint32(beUint(caseBytes(c, "seq")))
		var p sms.PDU
		switch pkg {
		case "cmpp20":
			p = cmpp20.NewConnect("acct", "pw", seq)
		case "sgip12":
			p = sgip12.NewBind("acct", "pw", 7, seq)
		case "smgp30":
			p = smgp30.NewLogin("acct", "pw", seq)
		default:
			return
		}
		b, err := p.IEncode()
		if err != nil {
			return
		}
		tr.emit(Ev{"ev": "Send", "type": typeNameOf(p), "v": be(uint64(seq), 4), "getseq": be(uint64(p.GetSequenceID()), 4), "getcmd": pduGetCmd(p), "bytes": B(b), "built": "ctor", "site": typeNameOf(p)})
		return
	}
	if caseBool(c, "helpers") {
		// the packet-building helpers return ready-made octets: sequence number at the header offset,
		// command id of the type they promise, and the dispatcher must give that type back
		seq := uint32(beUint(caseBytes(c, "seq")))
		type hp struct {
			name, want string
			b          []byte
		}
		var hs []hp
		switch pkg {
		case "cmpp20":
			hs = []hp{{"cmpp20.NewTerminatePacket", "cmpp20.PduTerminate", cmpp20.NewTerminatePacket(seq)}, {"cmpp20.NewActiveTestPacket", "cmpp20.PduActiveTest", cmpp20.NewActiveTestPacket(seq)}}
		case "smgp30":
			hs = []hp{{"smgp30.NewActiveTestPacket", "smgp30.ActiveTest", smgp30.NewActiveTestPacket(seq)}}
		case "smpp34":
			hs = []hp{{"smpp34.NewEnquireLinkReqBytes", "smpp34.EnquireLink", smpp34.NewEnquireLinkReqBytes(seq)}, {"smpp34.NewEnquireLinkRespBytes", "smpp34.EnquireLinkResp", smpp34.NewEnquireLinkRespBytes(seq)},
				{"smpp34.NewUnBindRespBytes", "smpp34.UnBindResp", smpp34.NewUnBindRespBytes(seq)}, {"smpp34.NewDeliverySMRespBytes", "smpp34.DeliverSmResp", smpp34.NewDeliverySMRespBytes(seq)},
				{"smpp34.NewUnBindBytes", "smpp34.Unbind", smpp34.NewUnBindBytes(seq)}}
		}
		for _, h := range hs {
			if len(h.b) < 16 && pkg == "smpp34" || len(h.b) < 12 {
				tr.emit(Ev{"ev": "Disp", "pkg": pkg, "cmd": []int{0, 0, 0, 0}, "res": "short:" + h.name, "site": h.name})
				continue
			}
			dt, p := dispatchName(pkg, h.b)
			gc := []int{}
			gs := []int{}
			if p != nil {
				gc, gs = pduGetCmd(p), be(uint64(p.GetSequenceID()), 4)
			}
			tr.emit(Ev{"ev": "Send", "type": h.want, "v": be(uint64(seq), 4), "getseq": gs, "getcmd": gc, "bytes": B(h.b), "built": "ctor", "site": h.name})
			tr.emit(Ev{"ev": "Helper", "want": h.want, "dtype": dt, "bytes": B(h.b), "site": h.name})
		}
		return
	}
	if sc := caseList(c, "script"); sc != nil {
		runSessionScript(pkg, sc, rr, tr)
		return
	}
	reqs := caseList(c, "reqs")
	var sent [][]byte
	var types []string
	for _, q := range reqs {
		tn := caseStr(q, "type")
		p := buildRequest(rr, tn, caseInt(q, "flavour"))
		if pkg == "sgip12" { // give the other two sequence words distinct values
			root := reflect.ValueOf(p).Elem()
			resolve(root, "Header.Sequence[0]").SetUint(beUint(caseBytes(q, "w1")))
			resolve(root, "Header.Sequence[1]").SetUint(beUint(caseBytes(q, "w2")))
		}
		v := uint32(beUint(caseBytes(q, "seq")))
		if v%2 == 0 {
			// the PDU was sent once already under another number (a keep-alive loop re-uses one object)
			p.SetSequenceID(v + 1)
			_, _ = p.IEncode()
		}
		p.SetSequenceID(v)
		b, err := p.IEncode()
		if err != nil {
			continue
		}
		tr.emit(Ev{"ev": "Send", "type": tn, "v": be(uint64(v), 4), "getseq": be(uint64(p.GetSequenceID()), 4), "getcmd": pduGetCmd(p), "bytes": B(b), "built": "user", "site": tn})
		sent = append(sent, b)
		types = append(types, tn)
	}
	order := []int{}
	if o, ok := c["order"].([]interface{}); ok {
		for _, x := range o {
			order = append(order, caseInt(map[string]interface{}{"x": x}, "x"))
		}
	} else if o, ok := c["order"].([]int); ok {
		order = o
	}
	var replies [][]byte
	// every second case the server generates all responses first and encodes them afterwards
	// (a response object must stay what it was when later requests are answered)
	hold := caseInt(c, "t")%2 == 0
	type pending struct {
		i    int
		b    []byte
		resp sms.PDU
		req  sms.PDU
	}
	var pend []pending
	flush := func() {
		for _, pd := range pend {
			re := Ev{"ev": "Reply", "type": types[pd.i], "reqbytes": B(pd.b), "rnil": true, "rtype": "", "rgetcmd": []int{}, "rbytes": []int{}, "site": types[pd.i]}
			if pd.resp != nil && !reflect.ValueOf(pd.resp).IsNil() {
				rb, err := pd.resp.IEncode()
				if err == nil {
					re["rnil"] = false
					re["rtype"] = typeNameOf(pd.resp)
					re["rgetcmd"] = pduGetCmd(pd.resp)
					re["rbytes"] = B(rb)
					replies = append(replies, rb)
				}
			}
			tr.emit(re)
			again(tr, pkg, pd.req, types[pd.i])
		}
		pend = nil
	}
	for _, i := range order {
		if i >= len(sent) {
			continue
		}
		b := sent[i]
		dt, p := dispatchName(pkg, b)
		e := Ev{"ev": "SRecv", "bytes": B(b), "dtype": dt, "getcmd": []int{}, "site": types[i]}
		if p != nil {
			e["getcmd"] = pduGetCmd(p)
		}
		tr.emit(e)
		if p == nil {
			// the dispatcher does not know the request: answer from a directly decoded value instead
			q := ctors[types[i]]().(sms.PDU)
			if q.IDecode(append([]byte{}, b...)) != nil {
				continue
			}
			p = q
		}
		var resp sms.PDU
		guard(func() { resp = p.GenEmptyResponse() })
		pend = append(pend, pending{i, b, resp, p})
		if !hold {
			flush()
		}
	}
	flush()
	rr.Shuffle(len(replies), func(i, j int) { replies[i], replies[j] = replies[j], replies[i] })
	for _, rb := range replies {
		dt, p := dispatchName(pkg, rb)
		e := Ev{"ev": "CRecv", "bytes": B(rb), "dtype": dt, "getcmd": []int{}, "gennil": true, "site": "response"}
		if p != nil {
			e["getcmd"] = pduGetCmd(p)
			g := p.GenEmptyResponse()
			e["gennil"] = g == nil // a typed nil pointer in the interface is not "none" for a caller that writes resp != nil
			e["site"] = dt
		}
		tr.emit(e)
	}
}

// again re-encodes a request after it has been answered: it is still a PDU obtained from the library, so the
// command it reports is the one in its encoded header and the dispatcher maps the octets back to its type
func again(tr *Tracer, pkg string, req sms.PDU, tn string) {
	var b []byte
	var err error
	if guard(func() { b, err = req.IEncode() }) || err != nil || len(b) < 12 {
		return
	}
	dt, _ := dispatchName(pkg, b)
	tr.emit(Ev{"ev": "Again", "type": typeNameOf(req), "bytes": B(b), "getcmd": pduGetCmd(req), "dtype": dt, "site": tn + ".after_reply"})
}

func be8(v uint64, w int) []byte {
	b := make([]byte, w)
	for i := w - 1; i >= 0; i-- {
		b[i] = byte(v)
		v >>= 8
	}
	return b
}

func runDispatch(c Case, kind string, tr *Tracer) {
	rr := rand.New(rand.NewSource(int64(caseInt(c, "t"))))
	if kind == "type" {
		tn := caseStr(c, "type")
		pkg := tn[:6]
		tr.emit(Ev{"ev": "Start", "pkg": pkg, "site": pkg}) // every case is a trace of its own
		a := defaultAssign(rr, tn, true)
		setCmd(tn, a)
		fixCounts(tn, a)
		if st := caseInt(c, "status"); st != 0 {
			if _, ok := a["status"]; ok { // SMPP: command_status in the header
				a["status"] = fval{b: be8(uint64(st), 4)}
			}
		}
		if caseBool(c, "bare") {
			a = defaultAssign(rr, tn, false) // every field empty / zero: the shortest image of the type
			setCmd(tn, a)
			if _, ok := a["status"]; ok {
				a["status"] = fval{b: be8(uint64(caseInt(c, "status")), 4)}
			}
		}
		if fl := caseInt(c, "flavour"); fl != 0 {
			top := byte(0)
			if strings.HasSuffix(tn, "Resp") {
				top = 0x80
			}
			a["cmd"] = fval{b: []byte{top, 0, 0, byte(fl)}}
		}
		b, err := build(tn, a).IEncode()
		if err != nil {
			return
		}
		dt, _ := dispatchName(pkg, b)
		tr.emit(Ev{"ev": "Disp", "pkg": pkg, "cmd": B(b[4:8]), "res": dt, "site": tn})
		return
	}
	pkg := caseStr(c, "pkg")
	cmd := caseBytes(c, "cmd")
	tr.emit(Ev{"ev": "Start", "pkg": pkg, "site": pkg})
	b := make([]byte, 400)
	b[2], b[3] = 1, 0x90
	if hl := caseInt(c, "bare"); hl > 0 {
		// nothing but a header (hl octets), with a non-zero status word behind the command id
		b = make([]byte, hl)
		b[3] = byte(hl)
		copy(b[8:12], be8(uint64(caseInt(c, "status")), 4))
	}
	copy(b[4:8], cmd)
	dt, _ := dispatchName(pkg, b)
	if dt == "err" {
		// a known command with an undecodable zero body: only the routing matters here
		return
	}
	tr.emit(Ev{"ev": "Disp", "pkg": pkg, "cmd": B(cmd), "res": dt, "site": pkg + ".dispatcher"})
}

// runSessionScript steps a behaviour generated by TLC (Gen_Session) through the real code:
// S = build a request, SetSequenceID, encode; R = the server dispatches request idx and answers it;
// C = the client dispatches the response to request idx.
func runSessionScript(pkg string, script []map[string]interface{}, rr *rand.Rand, tr *Tracer) {
	var sent, replies [][]byte
	var types []string
	for _, st := range script {
		switch caseStr(st, "a") {
		case "S":
			tn := caseStr(st, "type")
			p := buildRequest(rr, tn, caseInt(st, "flavour"))
			if pkg == "sgip12" {
				root := reflect.ValueOf(p).Elem()
				resolve(root, "Header.Sequence[0]").SetUint(uint64(1000 + len(sent)))
				resolve(root, "Header.Sequence[1]").SetUint(uint64(7 * (len(sent) + 1)))
			}
			v := uint32(beUint(caseBytes(st, "seq")))
			if v%2 == 0 {
				p.SetSequenceID(v + 1)
				_, _ = p.IEncode()
			}
			p.SetSequenceID(v)
			b, err := p.IEncode()
			if err != nil {
				b = nil
			} else {
				tr.emit(Ev{"ev": "Send", "type": tn, "v": be(uint64(v), 4), "getseq": be(uint64(p.GetSequenceID()), 4), "getcmd": pduGetCmd(p), "bytes": B(b), "built": "user", "site": tn})
			}
			sent = append(sent, b)
			replies = append(replies, nil)
			types = append(types, tn)
		case "R":
			i := caseInt(st, "idx") - 1
			if i < 0 || i >= len(sent) || sent[i] == nil {
				continue
			}
			b := sent[i]
			if i%2 == 0 && len(b) > 8 {
				// the frame before this one was cut short (the peer went away in the middle of it) and was refused
				dispatchName(pkg, b[:len(b)-1-i%3])
			}
			dt, p := dispatchName(pkg, b)
			e := Ev{"ev": "SRecv", "bytes": B(b), "dtype": dt, "getcmd": []int{}, "site": types[i]}
			if p != nil {
				e["getcmd"] = pduGetCmd(p)
			}
			tr.emit(e)
			if p == nil {
				continue
			}
			var resp sms.PDU
			guard(func() { resp = p.GenEmptyResponse() })
			re := Ev{"ev": "Reply", "type": types[i], "reqbytes": B(b), "rnil": true, "rtype": "", "rgetcmd": []int{}, "rbytes": []int{}, "site": types[i]}
			if resp != nil && !reflect.ValueOf(resp).IsNil() {
				if rb, err := resp.IEncode(); err == nil {
					re["rnil"], re["rtype"], re["rgetcmd"], re["rbytes"] = false, typeNameOf(resp), pduGetCmd(resp), B(rb)
					replies[i] = rb
				}
			}
			tr.emit(re)
			if gr, ok := legacyResponse(p); ok {
				re2 := Ev{"ev": "Reply", "type": types[i], "reqbytes": B(b), "rnil": true, "rtype": "", "rgetcmd": []int{}, "rbytes": []int{}, "site": types[i] + ".GenerateResponseHeader"}
				if gr != nil && !reflect.ValueOf(gr).IsNil() {
					if rb, err := gr.IEncode(); err == nil {
						re2["rnil"], re2["rtype"], re2["rgetcmd"], re2["rbytes"] = false, typeNameOf(gr), pduGetCmd(gr), B(rb)
					}
				}
				tr.emit(re2)
			}
			again(tr, pkg, p, types[i])
		case "C":
			i := caseInt(st, "idx") - 1
			if i < 0 || i >= len(replies) || replies[i] == nil {
				continue
			}
			rb := replies[i]
			dt, p := dispatchName(pkg, rb)
			e := Ev{"ev": "CRecv", "bytes": B(rb), "dtype": dt, "getcmd": []int{}, "gennil": true, "site": "response"}
			if p != nil {
				e["getcmd"] = pduGetCmd(p)
				g := p.GenEmptyResponse()
				e["gennil"] = g == nil // a typed nil pointer in the interface is not "none" for a caller that writes resp != nil
				e["site"] = dt
			}
			tr.emit(e)
		}
	}
}

// legacyResponse: the exported GenerateResponseHeader of the SMGP requests that have one
func legacyResponse(p sms.PDU) (resp sms.PDU, ok bool) {
	defer func() {
		if recover() != nil {
			resp, ok = nil, true
		}
	}()
	switch q := p.(type) {
	case *smgp30.Deliver:
		return q.GenerateResponseHeader(), true
	case *smgp30.ActiveTest:
		return q.GenerateResponseHeader(), true
	case *smgp30.Exit:
		return q.GenerateResponseHeader(), true
	}
	return nil, false
}
