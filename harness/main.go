// Command driver executes cases against the real go-sms-protocol library and
// records one ndjson event per public call (arguments, results, cheap
// projected state).  The events are judged by the Trace_*.tla specifications;
// the driver itself decides nothing.
//
//	driver <family> gen -tier quick|thorough -seed N -shard i/k -cases F -out F
//	driver <family> run -cases F -out F
package main

import (
	"encoding/json"
	"flag"
	"fmt"
	"os"
	"sort"
	"strings"
)

type family struct {
	// gen produces the cases of shard i of k for a tier and seed
	gen func(g *genCtx)
	// run executes one case against the real code, emitting events
	run func(c Case, tr *Tracer)
}

var families = map[string]family{}

func main() {
	if len(os.Args) < 3 {
		names := make([]string, 0)
		for n := range families {
			names = append(names, n)
		}
		sort.Strings(names)
		fmt.Fprintln(os.Stderr, "usage: driver <family> gen|run ...; families:", names)
		os.Exit(2)
	}
	fam, ok := families[os.Args[1]]
	if !ok {
		fmt.Fprintln(os.Stderr, "unknown family", os.Args[1])
		os.Exit(2)
	}
	mode := os.Args[2]
	fs := flag.NewFlagSet(mode, flag.ExitOnError)
	tier := fs.String("tier", "quick", "quick|thorough")
	seed := fs.Int64("seed", 1, "seed")
	shard := fs.String("shard", "0/1", "i/k")
	casesPath := fs.String("cases", "", "cases ndjson (written by gen, read by run)")
	outPath := fs.String("out", "", "trace ndjson")
	part := fs.String("part", "", "sub-generator selector (family specific)")
	_ = fs.Parse(os.Args[3:])

	switch mode {
	case "gen":
		var si, sk int
		fmt.Sscanf(*shard, "%d/%d", &si, &sk)
		if sk <= 0 {
			sk = 1
		}
		cw := newCaseWriter(*casesPath)
		tr := newTracer(*outPath)
		g := &genCtx{tier: *tier, seed: *seed, shard: si, shards: sk, part: *part}
		var recent []string // the last few cases, serialised
		emit1 := func(c Case) {
			g.n++
			// traces are numbered globally unique per shard: shard*1e7 + n
			c["t"] = si*10000000 + g.n
			cw.write(c)
			runGuarded(fam, c, tr)
		}
		g.emit = func(c Case) {
			emit1(c)
			if b, err := json.Marshal(c); err == nil && len(b) < 20000 && !strings.Contains(caseStr(c, "k"), "sweep") {
				recent = append(recent, string(b))
				if len(recent) > 4 {
					recent = recent[1:]
				}
			}
			// every seventh case is followed by a repetition of an earlier one (A, B, C, A): a call that was answered
			// before is answered the same way again, whatever came in between
			if g.n%7 == 0 && len(recent) == 4 {
				again := readCaseJSON(recent[0])
				if again != nil {
					delete(again, "t")
					emit1(again)
				}
			}
		}
		fam.gen(g)
		cw.close()
		tr.close()
		fmt.Fprintf(os.Stderr, "cases=%d events=%d\n", g.n, tr.n)
	case "corpus":
		// cases come from a Go fuzzing corpus directory (-part <dir>); family specific loader
		cw := newCaseWriter(*casesPath)
		tr := newTracer(*outPath)
		n := 0
		for _, c := range loadFuzzCorpus(*part) {
			n++
			c["t"] = 60000000 + n
			cw.write(c)
			runGuarded(fam, c, tr)
		}
		cw.close()
		tr.close()
		fmt.Fprintf(os.Stderr, "corpus cases=%d events=%d\n", n, tr.n)
	case "run":
		tr := newTracer(*outPath)
		for _, c := range readCases(*casesPath) {
			runGuarded(fam, c, tr)
		}
		tr.close()
	default:
		fmt.Fprintln(os.Stderr, "unknown mode", mode)
		os.Exit(2)
	}
}

// runGuarded executes a case; a panic that escapes the family's own recover
// wrappers is a driver bug, not a verdict: the process dies with exit 3.
func runGuarded(fam family, c Case, tr *Tracer) {
	tr.t = caseInt(c, "t")
	fam.run(c, tr)
}
