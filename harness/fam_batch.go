package main

import (
	"context"
	"math/rand"
	"runtime"
	"strings"
	"time"

	protocol "github.com/hujm2023/go-sms-protocol"
	"github.com/hujm2023/go-sms-protocol/datacoding"
)

// Family "batch" (C09): BatchDataCodingEncoder.Build and its sorter.

func init() {
	families["batch"] = family{gen: genBatch, run: runBatch}
}

var batchValid = map[string][]int{"CMPP": {0, 8, 9, 15}, "SMPP": {0, 1, 3, 8, 99}}

func batchContents() []string {
	long := func(s string, n int) string {
		out := ""
		for len([]rune(out)) < n {
			out += s
		}
		return string([]rune(out)[:n])
	}
	return []string{
		"hello world", "", "@", "price: 5€ [ok]", "café", "你好", "你好 hello", "😀 emoji", "abc\x1bdef",
		long("a", 140), long("a", 141), long("a", 160), long("a", 161), long("ab[", 153), long("ab[", 160), long("é", 70), long("é", 71), long("é", 141),
		long("中", 70), long("中", 71), long("中a", 135), long("x", 306), long("x", 307), long("[", 77), long("€uro ", 200), long("😀", 36),
		// contents that are white space only are contents (a blank keeps a conversation alive; line ends are characters)
		" ", "\n", "\r\n", "\t", "\u00a0", "\u3000", "  \n ",
	}
}

func genBatch(g *genCtx) {
	r := g.rng(9)
	n := 0
	emit := func(c Case) {
		if g.mine(n) {
			g.emit(c)
		}
		n++
	}
	// contents that need more than 255 parts in UCS-2 but not in a one-octet coding (and the other way round)
	for _, proto := range []string{"CMPP", "SMPP"} {
		for i, content := range []string{strings.Repeat("a", 20000), strings.Repeat("a", 34200), strings.Repeat("中", 17100), strings.Repeat("中a", 9000)} {
			for _, l := range [][]int{{batchValid[proto][0], 8}, {8}, batchValid[proto]} {
				emit(Case{"k": "build", "proto": proto, "cands": l, "origin": []int{-1, 8, batchValid[proto][0]}[i%3], "content": scalars(content), "procs": 4, "ref": i})
			}
		}
	}
	// long texts that are much longer in UTF-8 octets than in units on the wire (they still fit 255 parts)
	emit(Case{"k": "build", "proto": "SMPP", "cands": []int{0, 8}, "origin": -1, "content": scalars(strings.Repeat("é", 20000)), "procs": 4, "ref": 1})
	emit(Case{"k": "build", "proto": "CMPP", "cands": []int{15, 8}, "origin": -1, "content": scalars(strings.Repeat("啊", 14000)), "procs": 4, "ref": 2})
	emit(Case{"k": "build", "proto": "SMPP", "cands": []int{1, 3}, "origin": -1, "content": scalars(strings.Repeat("啊", 14000)), "procs": 4, "ref": 3})
	for _, proto := range []string{"CMPP", "SMPP"} {
		valid := batchValid[proto]
		// (i) the comparator: every permutation of every candidate subset x part counts 1..3
		var subsets [][]int
		for m := 1; m < 1<<uint(len(valid)); m++ {
			var s []int
			for i, v := range valid {
				if m>>uint(i)&1 == 1 {
					s = append(s, v)
				}
			}
			subsets = append(subsets, s)
		}
		for _, s := range subsets {
			perm := append([]int{}, s...)
			var rec func(i int)
			rec = func(i int) {
				if i == len(perm) {
					reps := 2
					if g.thorough() {
						reps = 12
					}
					for k := 0; k < reps; k++ {
						parts := make([]int, len(perm))
						for j := range parts {
							parts[j] = 1 + r.Intn(3)
						}
						emit(Case{"k": "sort", "proto": proto, "cands": append([]int{}, perm...), "parts": parts})
					}
					return
				}
				for j := i; j < len(perm); j++ {
					perm[i], perm[j] = perm[j], perm[i]
					rec(i + 1)
					perm[i], perm[j] = perm[j], perm[i]
				}
			}
			rec(0)
		}
		// (ii) Build: candidate lists (subsets, duplicates, invalid numbers) x origin x contents, repeated
		//      under shuffled candidate order and GOMAXPROCS 1..16
		pool := append(append([]int{}, valid...), 7, 200)
		contents := batchContents()
		reps := 4
		nlists := 40
		if g.thorough() {
			reps, nlists = 16, 400
		}
		var lists [][]int
		for _, s := range subsets {
			lists = append(lists, s)
		}
		for i := 0; i < nlists; i++ {
			L := 1 + r.Intn(5)
			l := make([]int, L)
			for j := range l {
				l[j] = pool[r.Intn(len(pool))]
			}
			lists = append(lists, l)
		}
		lists = append(lists, []int{}, []int{7}, []int{200, 7})
		for li, l := range lists {
			for ci, content := range contents {
				if !g.thorough() && (li+ci)%5 != 0 && li >= len(subsets) {
					continue
				}
				if !g.thorough() && (li*7+ci)%3 != 0 {
					continue
				}
				origin := -1
				if r.Intn(2) == 0 {
					origin = pool[r.Intn(len(pool))]
				}
				for rep := 0; rep < reps; rep++ {
					sh := append([]int{}, l...)
					r.Shuffle(len(sh), func(i, j int) { sh[i], sh[j] = sh[j], sh[i] })
					c := Case{"k": "build", "proto": proto, "cands": sh, "origin": origin, "content": scalars(content), "procs": []int{1, 2, 4, 16}[rep%4], "ref": r.Intn(256)}
					if rep == 0 {
						// ... and once more with only the original coding changed (or taken away)
						c["again"] = append([]int{-1}, pool...)[r.Intn(len(pool)+1)]
					}
					emit(c)
				}
			}
		}
	}
}

func toPDC(proto string, c int) datacoding.ProtocolDataCoding {
	if proto == "CMPP" {
		return datacoding.CMPPDataCoding(c)
	}
	return datacoding.SMPPDataCoding(c)
}

func intsOf(v interface{}) []int {
	var out []int
	switch a := v.(type) {
	case []int:
		return a
	case []interface{}:
		for _, x := range a {
			out = append(out, caseInt(map[string]interface{}{"x": x}, "x"))
		}
	}
	if out == nil {
		out = []int{}
	}
	return out
}

// singleCoding observes what one candidate can do through the single-coding entry point
func singleCoding(proto string, c int, content string, ref byte) (can bool, n int) {
	ctx := context.Background()
	if proto == "CMPP" {
		parts, actual, err := protocol.EncodeCMPPContentAndSplit(ctx, content, datacoding.CMPPDataCoding(c), ref)
		return err == nil && int(actual) == c, len(parts)
	}
	parts, actual, err := protocol.EncodeSMPPContentAndSplit(ctx, content, datacoding.SMPPDataCoding(c), ref)
	return err == nil && int(actual) == c, len(parts)
}

var reusedBuilders = map[string]*protocol.BatchDataCodingEncoder{}

func runBatch(c Case, tr *Tracer) {
	proto := caseStr(c, "proto")
	cands := intsOf(c["cands"])
	switch caseStr(c, "k") {
	case "sort":
		parts := intsOf(c["parts"])
		var pdc []datacoding.ProtocolDataCoding
		for _, x := range cands {
			pdc = append(pdc, toPDC(proto, x))
		}
		out := protocol.VerifSortCandidates(pdc, parts)
		o := make([]int, 0, len(out))
		for _, x := range out {
			if proto == "CMPP" {
				o = append(o, int(x.(datacoding.CMPPDataCoding)))
			} else {
				o = append(o, int(x.(datacoding.SMPPDataCoding)))
			}
		}
		tr.emit(Ev{"ev": "Sort", "proto": proto, "cands": cands, "parts": parts, "out": o, "site": proto + ".sorter"})
	case "build":
		content := scalarsToString(c["content"])
		origin := caseInt(c, "origin")
		ref := byte(caseInt(c, "ref"))
		var env []interface{}
		for _, v := range batchValid[proto] {
			can, n := singleCoding(proto, v, content, ref)
			if !can || n < 1 {
				n = 1
			}
			env = append(env, map[string]interface{}{"c": v, "can": can, "n": n})
		}
		ucs2can, _ := singleCoding(proto, 8, content, ref)
		old := runtime.GOMAXPROCS(caseInt(c, "procs"))
		defer runtime.GOMAXPROCS(old)
		b := protocol.NewBatchDataCodingEncoder().Protocol(protocol.Protocol(proto)).Content(content, ref)
		reuse := caseInt(c, "t")%3 == 0
		if reuse {
			// one builder serves request after request: every setter is called again, the answer depends on this request only
			if reusedBuilders[proto] == nil {
				reusedBuilders[proto] = protocol.NewBatchDataCodingEncoder()
			}
			b = reusedBuilders[proto].Protocol(protocol.Protocol(proto)).Content(content, ref)
		}
		// the candidate slice is a prefix of a longer configured list (spare capacity behind it):
		// Build must not write into the caller's array
		backing := make([]datacoding.ProtocolDataCoding, 0, len(cands)+3)
		for _, x := range cands {
			backing = append(backing, toPDC(proto, x))
		}
		spare := backing[:len(cands)+3]
		for i := len(cands); i < len(spare); i++ {
			spare[i] = toPDC(proto, 250+i)
		}
		pdc := backing[:len(cands)]
		b.DataCodings(pdc)
		if origin >= 0 {
			b.OriginDataCoding(toPDC(proto, origin))
		} else if reuse {
			b.OriginDataCoding(nil)
		}
		doBuild := func(origin int) {
			var parts [][]byte
			var actual datacoding.ProtocolDataCoding
			var err error
			ctx, cancel := context.Background(), func() {}
			switch caseInt(c, "t") % 5 {
			case 1: // a context that is over already
				ctx, cancel = context.WithCancel(ctx)
				cancel()
			case 2: // ... or ends while Build runs
				ctx, cancel = context.WithTimeout(ctx, 50*time.Microsecond)
			}
			pan := guard(func() { parts, actual, err = b.Build(ctx) })
			cancel()
			coding := -1
			if err == nil && !pan && actual != nil {
				switch a := actual.(type) {
				case datacoding.CMPPDataCoding:
					coding = int(a)
				case datacoding.SMPPDataCoding:
					coding = int(a)
				}
			}
			mutated := false
			for i := range spare {
				want := toPDC(proto, 250+i)
				if i < len(cands) {
					want = toPDC(proto, cands[i])
				}
				if spare[i] != want {
					mutated = true
				}
			}
			tr.emit(Ev{"ev": "Build", "mutated": mutated, "proto": proto, "cands": cands, "origin": origin, "content": scalars(content), "empty": content == "",
				"env": env, "ucs2can": ucs2can, "err": err != nil, "coding": coding, "nparts": len(parts), "panic": pan, "site": proto + ".Build"})
		}
		doBuild(origin)
		if o2, ok := c["again"]; ok {
			// the same builder is asked again after ONLY the original coding has been set anew
			origin2 := caseInt(map[string]interface{}{"o": o2}, "o")
			if origin2 >= 0 {
				b.OriginDataCoding(toPDC(proto, origin2))
			} else {
				b.OriginDataCoding(nil)
			}
			doBuild(origin2)
		}
	}
}

var _ = rand.Int
