package main

import (
	"math/rand"
	"time"
	"unicode/utf8"

	"golang.org/x/text/transform"

	"github.com/hujm2023/go-sms-protocol/datacoding"
	gsm7 "github.com/hujm2023/go-sms-protocol/datacoding/gsm7encoding"
)

// Family "gsm7" (C08): alphabet and septet packing, all entry points.

var dirtyDst = make([]byte, 1<<16)

func init() {
	families["gsm7"] = family{gen: genGsm7, run: runGsm7}
}

var branchAlpha = []byte{0x00, 0x01, 0x0d, 0x1b, 0x3f, 0x40, 0x7f}

func scalars(s string) []int {
	out := make([]int, 0, len(s))
	for _, r := range s {
		out = append(out, int(r))
	}
	return out
}

func scalarsToString(v interface{}) string {
	a, _ := v.([]interface{})
	rs := make([]rune, 0, len(a))
	for _, x := range a {
		rs = append(rs, rune(caseInt(map[string]interface{}{"x": x}, "x")))
	}
	if ints, ok := v.([]int); ok {
		for _, x := range ints {
			rs = append(rs, rune(x))
		}
	}
	return string(rs)
}

// the characters of the GSM repertoire, taken from the library's own validator
// (only used to bias random texts; the judgement uses the TS 23.038 table in Gsm7.tla)
var gsmChars []rune

func gsmRepertoire() []rune {
	if gsmChars == nil {
		for cp := rune(0); cp < 0x3000; cp++ {
			if gsm7.IsValidGSM7String(string(cp)) {
				gsmChars = append(gsmChars, cp)
			}
		}
	}
	return gsmChars
}

func genGsm7(g *genCtx) {
	r := g.rng(8)
	n := 0
	emit := func(c Case) {
		if g.mine(n) {
			if k := caseStr(c, "k"); n%3 == 1 && (k == "seq" || k == "text" || k == "septets" || k == "windows") {
				c["pre"] = 1 + n/3 // the call follows a series of refused calls (afterRefusals)
			}
			g.emit(c)
		}
		n++
	}
	if g.part == "" || g.part == "pack" {
		emit(Case{"k": "seq", "s": []int{}})
		// every length 0..64: one set bit at every position
		for L := 1; L <= 64; L++ {
			for p := 0; p < 7*L; p++ {
				if !g.thorough() && (p*31+L)%9 != 0 {
					continue
				}
				s := make([]byte, L)
				s[p/7] = 1 << uint(p%7)
				emit(Case{"k": "seq", "s": B(s)})
			}
		}
		// exhaustive short sequences over the branch alphabet (the MC_Gsm7 enumeration, replayed on the code)
		maxL := 4
		if g.thorough() {
			maxL = 6
		}
		var rec func(prefix []byte, L int)
		rec = func(prefix []byte, L int) {
			if len(prefix) == L {
				emit(Case{"k": "seq", "s": B(prefix)})
				return
			}
			for _, a := range branchAlpha {
				rec(append(append([]byte{}, prefix...), a), L)
			}
		}
		for L := 1; L <= maxL; L++ {
			rec(nil, L)
		}
		// every length 1..40: every assignment of the branch alphabet around every block boundary
		for L := 1; L <= 40; L++ {
			for bnd := 8; bnd <= L; bnd += 8 {
				for a := 0; a < 343; a++ {
					if !g.thorough() && (a*7+L+bnd)%23 != 0 {
						continue
					}
					s := randBytesFrom(r, L, []byte{0x20, 0x41, 0x61, 0x7a, 0x30, 0x00, 0x40})
					s[bnd-2] = branchAlpha[a%7]
					s[bnd-1] = branchAlpha[(a/7)%7]
					if bnd < L {
						s[bnd] = branchAlpha[(a/49)%7]
					}
					emit(Case{"k": "seq", "s": B(s)})
				}
			}
		}
		// windows of one array: 8k+7 septets per window is where the packer adds the CR filler
		for _, w := range []int{7, 15, 23, 8, 9, 151, 153} {
			for rep := 0; rep < 3; rep++ {
				L := w*3 + r.Intn(2*w)
				sw := randBytes(r, L)
				for j := range sw {
					sw[j] &= 0x7f
				}
				emit(Case{"k": "windows", "s": B(sw), "w": w})
			}
		}
		// random sequences up to 2000 septets
		nr, maxS := 300, 400
		if g.thorough() {
			nr, maxS = 6000, 2000
		}
		for i := 0; i < nr; i++ {
			L := r.Intn(maxS + 1)
			if r.Intn(3) == 0 {
				L = r.Intn(33)
			}
			var s []byte
			switch r.Intn(3) {
			case 0:
				s = randBytesFrom(r, L, branchAlpha)
			case 1:
				s = randBytesFrom(r, L, []byte{0, 0, 0x0d, 0x20, 0x3f, 0x40, 0x41})
			default:
				s = randBytes(r, L)
				for j := range s {
					s[j] &= 0x7f
				}
			}
			emit(Case{"k": "seq", "s": B(s)})
		}
	}
	if g.part == "" || g.part == "alpha" {
		// single characters of the repertoire and near it, random texts, septet strings
		rep := gsmRepertoire()
		for _, c := range rep {
			emit(Case{"k": "text", "text": []int{int(c)}})
		}
		for _, c := range []rune{0x1b, 0x80, 0xa0, 0xe7, 0x391, 0x20ad, 0x20ab, 0xfffd, 0x10000, 0x5b57} {
			emit(Case{"k": "text", "text": []int{int(c)}})
		}
		nr := 400
		if g.thorough() {
			nr = 8000
		}
		for i := 0; i < nr; i++ {
			L := r.Intn(40)
			rs := make([]int, L)
			for j := range rs {
				switch {
				case r.Intn(12) == 0:
					rs[j] = []int{0x1b, 0xe7, 0x5b57, 0x1f600, 0x80, 0x20ac, 0x0c}[r.Intn(7)]
				default:
					rs[j] = int(rep[r.Intn(len(rep))])
				}
			}
			emit(Case{"k": "text", "text": rs})
		}
		for i := 0; i < nr; i++ {
			L := r.Intn(24)
			var s []byte
			if r.Intn(2) == 0 {
				s = randBytesFrom(r, L, []byte{0x1b, 0x1b, 0x0a, 0x14, 0x28, 0x65, 0x41, 0x00, 0x7f, 0x80, 0xff, 0x1a, 0x1c})
			} else {
				s = randBytes(r, L)
			}
			emit(Case{"k": "septets", "s": B(s)})
		}
		// septet strings whose length is a multiple of 8 (and next to it) ending in CR, '@', ESC: nothing is padding
		// in the unpacked form, and a dangling ESC is refused, not a crash
		for _, L := range []int{1, 2, 7, 8, 9, 15, 16, 17, 24, 160} {
			for _, last := range []byte{0x0d, 0x00, 0x1b, 0x41} {
				for _, prev := range []byte{0x31, 0x40, 0x0d, 0x1b} {
					sq := randBytesFrom(r, L, []byte{0x31, 0x41, 0x61, 0x20})
					sq[L-1] = last
					if L > 1 {
						sq[L-2] = prev
					}
					emit(Case{"k": "septets", "s": B(sq)})
					emit(Case{"k": "text", "text": scalarsOfSeptets(sq)})
				}
			}
		}
		for a := 0; a < 256; a++ {
			emit(Case{"k": "pairrow", "a": a})
		}
		emit(Case{"k": "cpsweep", "step": map[bool]int{true: 1, false: 1}[g.thorough()]})
	}
}

func guard(f func()) (panicked bool) {
	p, _ := guardT(f, "")
	return p
}

// watchdog: a call that has not returned after this long is a hang (generous: the machine may be loaded)
const watchdog = 8 * time.Second

var hangs = map[string]int{}

// skipped is set when the last guardT call was not made (site already hung twice)
var skipped bool

// guardT runs f under recover and a watchdog.  A call that does not return is
// abandoned (its goroutine keeps spinning until the process exits); after two hangs
// at the same site further calls at that site are reported as hung without being made.
func guardT(f func(), site string) (panicked, hung bool) {
	if site != "" && hangs[site] >= 2 {
		skipped = true
		return false, true
	}
	skipped = false
	done := make(chan bool, 1)
	go func() {
		defer func() {
			if p := recover(); p != nil {
				done <- true
				return
			}
		}()
		f()
		done <- false
	}()
	select {
	case p := <-done:
		return p, false
	case <-time.After(watchdog):
		hangs[site]++
		return false, true
	}
}

// stream transformers that live as long as the process and are used again and again (transform.Bytes resets them)
var (
	reusedEncU, reusedEncP = gsm7.GSM7(false).NewEncoder(), gsm7.GSM7(true).NewEncoder()
	reusedDecU, reusedDecP = gsm7.GSM7(false).NewDecoder(), gsm7.GSM7(true).NewDecoder()
)

// scalarsOfSeptets renders a septet string as the text it denotes when every septet is a default-alphabet character
// (used to derive text cases from septet cases; undefined pairs simply give a text that is refused)
func scalarsOfSeptets(sq []byte) []int {
	var d []byte
	var err error
	if guard(func() { d, err = gsm7.Decode(sq) }) || err != nil {
		return scalars("x")
	}
	return scalars(string(d))
}

func runGsm7(c Case, tr *Tracer) {
	if k := caseInt(c, "pre"); k > 0 {
		afterRefusals(k)
	}
	switch caseStr(c, "k") {
	case "seq":
		s := caseBytes(c, "s")
		var packed []byte
		if guard(func() { packed = gsm7.Pack(append([]byte{}, s...)) }) {
			tr.emit(Ev{"ev": "Pack", "s": B(s), "out": []int{-1}, "site": "Pack"})
			return
		}
		tr.emit(Ev{"ev": "Pack", "s": B(s), "out": B(packed), "site": "Pack"})
		var un []byte
		p := guard(func() { un = gsm7.Unpack(append([]byte{}, packed...)) })
		tr.emit(Ev{"ev": "UnpackRT", "s": B(s), "o": B(packed), "out": B(un), "panic": p, "site": "Unpack"})
		// the packed transformer / datacoding.GSM7Packed on valid septet strings
		if len(gsm7.ValidateGSM7Buffer(s)) == 0 && len(s) > 0 {
			var out []byte
			var err error
			p := guard(func() { out, err = datacoding.GSM7Packed(packed).Decode() })
			tr.emit(Ev{"ev": "DecPacked", "s": B(s), "o": B(packed), "out": scalars(string(out)), "err": err != nil, "panic": p, "site": "GSM7Packed.Decode"})
			p = guard(func() { out, _, err = transform.Bytes(gsm7.GSM7(true).NewDecoder(), packed) })
			tr.emit(Ev{"ev": "DecPacked", "s": B(s), "o": B(packed), "out": scalars(string(out)), "err": err != nil, "panic": p, "site": "GSM7(true).Decoder"})
			_ = gsm7.GSM7(false).NewDecoder() // (somebody else makes a decoder of the other flavour in between)
			p = guard(func() { out, _, err = transform.Bytes(reusedDecP, packed) })
			tr.emit(Ev{"ev": "DecPacked", "s": B(s), "o": B(packed), "out": scalars(string(out)), "err": err != nil, "panic": p, "site": "GSM7(true).Decoder.reused"})
		}
	case "windows":
		// a long message packed window by window out of ONE septet array (what a splitter does): every call
		// sees the caller's septets, also behind the window it was given
		orig := caseBytes(c, "s")
		w := caseInt(c, "w")
		buf := append(make([]byte, 0, len(orig)+16), orig...)
		for a := 0; a < len(orig); a += w {
			b := a + w
			if b > len(orig) {
				b = len(orig)
			}
			var packed []byte
			if guard(func() { packed = gsm7.Pack(buf[a:b]) }) {
				tr.emit(Ev{"ev": "Pack", "s": B(orig[a:b]), "out": []int{-1}, "site": "Pack.window"})
				continue
			}
			tr.emit(Ev{"ev": "Pack", "s": B(orig[a:b]), "out": B(packed), "site": "Pack.window"})
		}
	case "text":
		text := scalarsToString(c["text"])
		sc := scalars(text)
		var enc []byte
		var err error
		if guard(func() { enc, err = gsm7.Encode(text) }) {
			tr.emit(Ev{"ev": "Enc", "text": sc, "out": []int{-1}, "err": false, "site": "Encode.panic"})
		} else {
			tr.emit(Ev{"ev": "Enc", "text": sc, "out": B(enc), "err": err != nil, "site": "Encode"})
		}
		out, _, err2 := transform.Bytes(gsm7.GSM7(false).NewEncoder(), []byte(text))
		if err2 != nil {
			out = nil
		}
		tr.emit(Ev{"ev": "Enc", "text": sc, "out": B(out), "err": err2 != nil, "site": "GSM7(false).Encoder"})
		_ = gsm7.GSM7(true).NewEncoder()
		out, _, err2 = transform.Bytes(reusedEncU, []byte(text))
		if err2 != nil {
			out = nil
		}
		tr.emit(Ev{"ev": "Enc", "text": sc, "out": B(out), "err": err2 != nil, "site": "GSM7(false).Encoder.reused"})
		out, err2 = datacoding.GSM7Unpacked(text).Encode()
		if err2 != nil {
			out = nil
		}
		tr.emit(Ev{"ev": "Enc", "text": sc, "out": B(out), "err": err2 != nil, "site": "GSM7Unpacked.Encode"})
		tr.emit(Ev{"ev": "Valid", "text": sc, "inv": scalars(string(gsm7.ValidateGSM7String(text))), "isvalid": gsm7.IsValidGSM7String(text), "site": "ValidateGSM7String"})
		out, err2 = datacoding.GSM7Packed(text).Encode()
		if err2 != nil {
			out = nil
		}
		tr.emit(Ev{"ev": "EncPacked", "text": sc, "out": B(out), "err": err2 != nil, "site": "GSM7Packed.Encode"})
		if fc := datacoding.NewSMPPCodec(datacoding.SMPP_CODING_GSM7_PACKED, text); fc != nil {
			out, err2 = fc.Encode()
			if err2 != nil {
				out = nil
			}
			tr.emit(Ev{"ev": "EncPacked", "text": sc, "out": B(out), "err": err2 != nil, "site": "NewSMPPCodec(packed).Encode"})
		}
		if fc := datacoding.GetSMPPCodec(datacoding.SMPP_CODING_GSM7_UNPACKED, text); fc != nil {
			out, err2 = fc.Encode()
			if err2 != nil {
				out = nil
			}
			tr.emit(Ev{"ev": "Enc", "text": sc, "out": B(out), "err": err2 != nil, "site": "GetSMPPCodec(unpacked).Encode"})
		}
		out, _, err2 = transform.Bytes(gsm7.GSM7(true).NewEncoder(), []byte(text))
		if err2 != nil {
			out = nil
		}
		tr.emit(Ev{"ev": "EncPacked", "text": sc, "out": B(out), "err": err2 != nil, "site": "GSM7(true).Encoder"})
		_ = gsm7.GSM7(false).NewEncoder()
		out, _, err2 = transform.Bytes(reusedEncP, []byte(text))
		if err2 != nil {
			out = nil
		}
		tr.emit(Ev{"ev": "EncPacked", "text": sc, "out": B(out), "err": err2 != nil, "site": "GSM7(true).Encoder.reused"})
		// the caller's own output buffer, used before (transform.Append into a recycled slice; Transform into a dirty array)
		for i := range dirtyDst {
			dirtyDst[i] = 0xFF
		}
		out, _, err2 = transform.Append(gsm7.GSM7(true).NewEncoder(), dirtyDst[:0], []byte(text))
		if err2 != nil {
			out = nil
		}
		tr.emit(Ev{"ev": "EncPacked", "text": sc, "out": B(out), "err": err2 != nil, "site": "GSM7(true).Encoder.append"})
		for i := range dirtyDst {
			dirtyDst[i] = 0xA5
		}
		out, _, err2 = transform.Append(gsm7.GSM7(false).NewEncoder(), dirtyDst[:0], []byte(text))
		if err2 != nil {
			out = nil
		}
		tr.emit(Ev{"ev": "Enc", "text": sc, "out": B(out), "err": err2 != nil, "site": "GSM7(false).Encoder.append"})
		if len(text) < 2000 {
			for i := range dirtyDst {
				dirtyDst[i] = 0xFF
			}
			nd, _, err3 := gsm7.GSM7(true).NewEncoder().Transform(dirtyDst, []byte(text), true)
			out = append([]byte{}, dirtyDst[:nd]...)
			if err3 != nil {
				out = nil
			}
			tr.emit(Ev{"ev": "EncPacked", "text": sc, "out": B(out), "err": err3 != nil, "site": "GSM7(true).Encoder.Transform"})
		}
	case "septets":
		s := caseBytes(c, "s")
		var dec []byte
		var err error
		if guard(func() { dec, err = gsm7.Decode(s) }) {
			// a panic is neither the text nor a refusal
			tr.emit(Ev{"ev": "Dec", "s": B(s), "out": []int{-1}, "err": false, "site": "Decode.panic"})
		} else {
			tr.emit(Ev{"ev": "Dec", "s": B(s), "out": scalars(string(dec)), "err": err != nil, "site": "Decode"})
		}
		dec, _, err = transform.Bytes(gsm7.GSM7(false).NewDecoder(), s)
		if err != nil {
			dec = nil
		}
		tr.emit(Ev{"ev": "Dec", "s": B(s), "out": scalars(string(dec)), "err": err != nil, "site": "GSM7(false).Decoder"})
		_, _ = gsm7.GSM7(true).NewDecoder(), gsm7.GSM7(true).NewEncoder()
		dec, _, err = transform.Bytes(reusedDecU, s)
		if err != nil {
			dec = nil
		}
		tr.emit(Ev{"ev": "Dec", "s": B(s), "out": scalars(string(dec)), "err": err != nil, "site": "GSM7(false).Decoder.reused"})
		dec, err = datacoding.GSM7Unpacked(s).Decode()
		if err != nil {
			dec = nil
		}
		tr.emit(Ev{"ev": "Dec", "s": B(s), "out": scalars(string(dec)), "err": err != nil, "site": "GSM7Unpacked.Decode"})
		tr.emit(Ev{"ev": "ValidBuf", "s": B(s), "inv": B(gsm7.ValidateGSM7Buffer(s)), "site": "ValidateGSM7Buffer"})
	case "pairrow":
		a := byte(caseInt(c, "a"))
		row := make([]int, 256)
		for b := 0; b < 256; b++ {
			s := []byte{a, byte(b)}
			v := 0
			// (a panic is neither an answer nor a refusal: bit 3)
			if guard(func() {
				if _, err := gsm7.Decode(s); err != nil {
					v |= 1
				}
			}) {
				v |= 8
			}
			if guard(func() {
				if len(gsm7.ValidateGSM7Buffer(s)) != 0 {
					v |= 2
				}
			}) {
				v |= 8
			}
			if guard(func() {
				if _, err := datacoding.GSM7Unpacked(s).Decode(); err != nil {
					v |= 4
				}
			}) {
				v |= 8
			}
			row[b] = v
		}
		tr.emit(Ev{"ev": "PairRow", "a": int(a), "row": row, "site": "pairs"})
	case "cpsweep":
		tr.emit(Ev{"ev": "SweepStart", "site": "cpsweep"})
		lo, cur := 0, ""
		flush := func(hi int) {
			if cur != "" {
				tr.emit(Ev{"ev": "Sweep", "lo": lo, "hi": hi, "class": cur, "site": "cpsweep"})
			}
		}
		for cp := 0; cp <= 0x10FFFF; cp++ {
			cl := classifyCP(rune(cp))
			if cl != cur {
				flush(cp - 1)
				lo, cur = cp, cl
			}
		}
		flush(0x10FFFF)
		tr.emit(Ev{"ev": "SweepEnd", "site": "cpsweep"})
	}
}

// classifyCP runs one code point through every encoding entry point.
// Only equalities between real-code values are evaluated here.
func classifyCP(cp rune) (class string) {
	defer func() {
		if recover() != nil {
			class = "PANIC"
		}
	}()
	return classifyCP1(cp)
}

func classifyCP1(cp rune) string {
	if cp >= 0xD800 && cp <= 0xDFFF {
		// not a scalar value: string(rune) yields U+FFFD, which must be refused
		cp = utf8.RuneError
	}
	s := string(cp)
	enc, err := gsm7.Encode(s)
	valid := gsm7.IsValidGSM7String(s)
	inv := gsm7.ValidateGSM7String(s)
	_, err2 := datacoding.GSM7Unpacked(s).Encode()
	_, err3 := datacoding.GSM7Packed(s).Encode()
	if (err == nil) != valid || valid != (len(inv) == 0) || (err2 == nil) != valid || (err3 == nil) != valid {
		return "DISAGREE"
	}
	if err != nil {
		return "refused"
	}
	dec, derr := gsm7.Decode(enc)
	if derr != nil || string(dec) != s {
		return "MISMATCH"
	}
	return "roundtrip"
}

var _ = rand.Int
