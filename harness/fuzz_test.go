package main

import (
	"testing"
)

// FuzzDecode is an additional INPUT SOURCE for C03 (thorough tier): Go's coverage-guided
// fuzzer explores the decoders and parsers; the corpus it builds is afterwards replayed
// through `driver fuzz run` and judged by TLC like every other input.  Nothing is decided here:
// panics are swallowed so that the engine keeps going.
func FuzzDecode(f *testing.F) {
	names := append(append([]string{}, typeNames...), auxNames...)
	for i := range names {
		f.Add(uint16(i), []byte{0, 0, 0, 16, 0, 0, 0, 1, 0, 0, 0, 0, 0, 0, 0, 1})
		f.Add(uint16(i), []byte("id:0123456789 sub:001 dlvrd:001 submit date:2401011200 done date:2401011201 stat:DELIVRD err:000 text:hi"))
	}
	f.Fuzz(func(t *testing.T, sel uint16, data []byte) {
		if len(data) > 4096 {
			return
		}
		fn := names[int(sel)%len(names)]
		site := fn
		var call func([]byte) bool
		if ctor, ok := ctors[fn]; ok {
			call = func(in []byte) bool { return ctor().IDecode(in) != nil }
		} else {
			call = auxFns[fn]
		}
		guardT(func() { call(append([]byte{}, data...)) }, site)
	})
}

// FuzzNames lets the runner map a selector back to a function name.
func TestFuzzNames(t *testing.T) {
	names := append(append([]string{}, typeNames...), auxNames...)
	for i, n := range names {
		t.Logf("FUZZNAME %d %s", i, n)
	}
}
