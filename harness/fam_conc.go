package main

import (
	"context"
	"fmt"
	"hash/fnv"
	"io/ioutil"
	"math/rand"
	"os"
	"os/exec"
	"path/filepath"
	"reflect"
	"runtime"
	"sort"
	"strconv"
	"strings"
	"sync"
	"time"
	"unsafe"

	protocol "github.com/hujm2023/go-sms-protocol"
	sms "github.com/hujm2023/go-sms-protocol"
	"github.com/hujm2023/go-sms-protocol/cmpp"
	"github.com/hujm2023/go-sms-protocol/cmpp/cmpp20"
	"github.com/hujm2023/go-sms-protocol/datacoding"
	gsm7 "github.com/hujm2023/go-sms-protocol/datacoding/gsm7encoding"
	"github.com/hujm2023/go-sms-protocol/packet"
	"github.com/hujm2023/go-sms-protocol/smgp/smgp30"
	"github.com/hujm2023/go-sms-protocol/smpp"
	"github.com/hujm2023/go-sms-protocol/smpp/smpp34"
)

// Family "conc" (C13): the same operations alone and on many goroutines, in a
// binary built with -race.  GORACE=log_path=... exitcode=0 makes the detector
// write its reports to files, which are turned into Race events.

func init() {
	families["conc"] = family{gen: genConc, run: runConc}
}

func genConc(g *genCtx) {
	r := g.rng(13)
	np, maxG, maxOps := 24, 8, 12
	if g.thorough() {
		np, maxG, maxOps = 400, 64, 30
	}
	for i := 0; i < np; i++ {
		seed := r.Int63()
		ng := 2 + r.Intn(maxG-1)
		if !g.mine(i) {
			continue
		}
		c := Case{"seed": seed, "g": ng, "ops": 1 + r.Intn(maxOps), "procs": []int{1, 2, 4, 8, 16}[r.Intn(5)]}
		if i%3 == 0 {
			// the program is the first thing a fresh process does, and its goroutines run before anything has been
			// called alone: whatever the library initialises on first use is initialised concurrently
			c["fresh"] = 1
			c["procs"] = []int{4, 8, 16}[r.Intn(3)]
		}
		g.emit(c)
	}
	// two programs that are all fan-out: every goroutine builds with every coding as a candidate / re-uses its own builder
	for k, hk := range []int{16, 17, 4, 18} {
		if g.mine(np + k) {
			g.emit(Case{"seed": r.Int63(), "g": maxG, "ops": 1, "procs": 8, "hk": hk})
		}
	}
}

var tmpl [2]*protocol.BatchDataCodingEncoder
var tmplOnce [2]sync.Once

func digest(s string) string {
	h := fnv.New64a()
	h.Write([]byte(s))
	return fmt.Sprintf("%d:%016x", len(s), h.Sum64())
}

// concOp executes operation (kind, seed) on values of its own and returns a canonical rendering of the result
func concOp(kind int, seed int64) string {
	rr := rand.New(rand.NewSource(seed))
	switch kind {
	case 0: // encode (+ decode back, so that optional parameters are compared as a set)
		tn := typeNames[rr.Intn(len(typeNames))]
		a := defaultAssign(rr, tn, true)
		b, err := build(tn, a).IEncode()
		if err != nil {
			return "err"
		}
		p := ctors[tn]()
		if p.IDecode(b) != nil {
			return "decerr"
		}
		return fmt.Sprint(len(b)) + snapJSON(project(tn, p))
	case 1: // String()
		tn := typeNames[rr.Intn(len(typeNames))]
		sp, ok := build(tn, defaultAssign(rr, tn, true)).(interface{ String() string })
		if !ok {
			return ""
		}
		lines := strings.Split(sp.String(), "\n")
		sort.Strings(lines)
		return strings.Join(lines, "\n")
	case 2: // content splitting
		txt := randText(rr, 1+rr.Intn(400))
		parts, a, err := protocol.EncodeSMPPContentAndSplit(context.Background(), txt, datacoding.SMPPDataCoding([]int{0, 1, 3, 8, 99}[rr.Intn(5)]), byte(rr.Intn(256)))
		return fmt.Sprint(parts, a, err != nil)
	case 3:
		txt := randText(rr, 1+rr.Intn(400))
		parts, a, err := protocol.EncodeCMPPContentAndSplit(context.Background(), txt, datacoding.CMPPDataCoding([]int{0, 8, 9, 15}[rr.Intn(4)]), byte(rr.Intn(256)))
		return fmt.Sprint(parts, a, err != nil)
	case 4: // batch encoder (starts goroutines itself)
		txt := randText(rr, 1+rr.Intn(300))
		if rr.Intn(2) == 0 { // a text every candidate can encode
			txt = strings.Repeat("plain ascii text 0123456789 ", 1+rr.Intn(12))
		}
		if rr.Intn(12) == 0 { // ... and one for which every candidate needs more than 255 parts
			txt = strings.Repeat("a", 40000+rr.Intn(100))
		}
		proto := []string{"CMPP", "SMPP"}[rr.Intn(2)]
		var pdc []datacoding.ProtocolDataCoding
		for _, v := range batchValid[proto] {
			if rr.Intn(3) != 0 {
				pdc = append(pdc, toPDC(proto, v))
			}
		}
		if rr.Intn(3) == 0 { // a number that is no data coding of the protocol at all, next to valid ones
			pdc = append(pdc, toPDC(proto, []int{2, 4, 7, 100, 255}[rr.Intn(5)]))
			rr.Shuffle(len(pdc), func(i, j int) { pdc[i], pdc[j] = pdc[j], pdc[i] })
		}
		b := protocol.NewBatchDataCodingEncoder().Protocol(protocol.Protocol(proto)).Content(txt, byte(rr.Intn(256))).DataCodings(pdc)
		if rr.Intn(2) == 0 { // the coding the message arrived in, usually not among the candidates
			b.OriginDataCoding(toPDC(proto, batchValid[proto][rr.Intn(len(batchValid[proto]))]))
		}
		// the caller's context may be over already, or end while Build runs: Build answers all the same
		ctx, cancel := context.Background(), func() {}
		switch rr.Intn(4) {
		case 1:
			ctx, cancel = context.WithCancel(ctx)
			cancel()
		case 2:
			ctx, cancel = context.WithTimeout(ctx, time.Duration(1+rr.Intn(200))*time.Microsecond)
		}
		parts, a, err := b.Build(ctx)
		cancel()
		return fmt.Sprint(parts, a, err != nil)
	case 5:
		if rr.Intn(3) == 0 {
			// the exported converter that reports invalid input: a refused text, then a good one
			bad, e1 := cmpp.Utf8ToUcs2("abc\xff" + randText(rr, rr.Intn(5)))
			good, e2 := cmpp.Utf8ToUcs2(randText(rr, rr.Intn(100)))
			return fmt.Sprint(bad, e1 != nil, good, e2 != nil)
		}
		return cmpp.Utf8ToUcs2Pooled(randText(rr, rr.Intn(300)))
	case 6:
		s := randBytes(rr, rr.Intn(300))
		for i := range s {
			s[i] &= 0x7f
		}
		p := gsm7.Pack(s)
		d, _ := gsm7.Decode(gsm7.Unpack(p))
		e, _ := gsm7.Encode(randText(rr, rr.Intn(50)))
		return string(p) + "|" + string(d) + "|" + string(e)
	case 7: // answer a request: decode, GenEmptyResponse, (yield), encode the response
		tn := typeNames[rr.Intn(len(typeNames))]
		if tn == "cmpp.SubPduDeliveryContent" {
			return "-"
		}
		a := defaultAssign(rr, tn, true)
		p, ok := build(tn, a).(sms.PDU)
		if !ok {
			return "-"
		}
		p.SetSequenceID(rr.Uint32())
		resp := p.GenEmptyResponse()
		if resp == nil || reflect.ValueOf(resp).IsNil() {
			return "nil"
		}
		runtime.Gosched()
		b, err := resp.IEncode()
		return fmt.Sprint(b, err != nil)
	case 15: // GSM 7-bit texts with extension characters through every decoder
		txt := textFrom(rr, 1+rr.Intn(60), "ab [](){}€^~|\\\f12")
		sep, err := gsm7.Encode(txt)
		if err != nil {
			return "encerr"
		}
		d1, _ := gsm7.Decode(sep)
		d2, _ := datacoding.GSM7Unpacked(sep).Decode()
		d3, _ := datacoding.GSM7Packed(gsm7.Pack(sep)).Decode()
		d4, _ := protocol.DecodeSMPPCContent(context.Background(), string(sep), 0)
		return fmt.Sprint(string(d1), string(d2), string(d3), d4, len(gsm7.ValidateGSM7Buffer(sep)))
	case 13: // packet-building helpers
		seq := rr.Uint32()
		return fmt.Sprint(cmpp20.NewTerminatePacket(seq), cmpp20.NewActiveTestPacket(seq+1), smpp34.NewEnquireLinkReqBytes(seq+2),
			smpp34.NewEnquireLinkRespBytes(seq+3), smpp34.NewUnBindRespBytes(seq+4), smpp34.NewDeliverySMRespBytes(seq+5),
			smpp34.NewUnBindBytes(seq+6), smgp30.NewActiveTestPacket(seq+7))
	case 14: // a burst of encodes of one package (what a busy connection does): per-package shared state overlaps
		pkg := []string{"cmpp20", "cmpp30", "smpp34", "sgip12", "smgp30"}[rr.Intn(5)]
		var names []string
		for _, tn := range typeNames {
			if strings.HasPrefix(tn, pkg+".") {
				names = append(names, tn)
			}
		}
		out := ""
		for k := 0; k < 12; k++ {
			tn := names[rr.Intn(len(names))]
			a := defaultAssign(rr, tn, true)
			setCmd(tn, a)
			fixCounts(tn, a)
			b, err := build(tn, a).IEncode()
			if err != nil {
				out += "err|"
				continue
			}
			if tailField(tn) != "" {
				// optional parameters are emitted in map order: compare header and length only
				out += fmt.Sprint(len(b), b[:12]) + "|"
			} else {
				out += string(b) + "|"
			}
		}
		return out
	case 11: // login authenticators and timestamps
		acc, sec := string(nulFree(rr, rr.Intn(7))), string(nulFree(rr, rr.Intn(20)))
		ts := uint32(rr.Intn(1231235960))
		a1, _ := smgp30.VerifGenAuthenticatorClient(acc, sec, ts)
		a2 := cmpp.GenConnectAuth(acc, sec, cmpp.TimeStamp2Str(ts))
		a3 := cmpp.GenConnectRespAuthISMG([]byte{byte(rr.Intn(256))}, string(a2), sec)
		return fmt.Sprint(a1, a2, a3)
	case 12: // message ids, receipts, validity periods
		id := rr.Uint64()
		a, b, c, d, e, g, h := cmpp.SplitMsgID(id)
		str := cmpp.MsgID2String(id)
		txt := fmt.Sprintf("id:%010d sub:001 dlvrd:001 submit date:2401011200 done date:2401011201 stat:DELIVRD err:%03d text:%s", rr.Intn(1e9), rr.Intn(1000), randText(rr, rr.Intn(12)))
		r1, _ := smpp34.ExtractDeliveryReceipt(txt)
		r2, _ := smgp30.ExtractDeliveryReceipt(txt)
		v, err := smpp.ToValidatePeriod(time.Unix(int64(rr.Intn(2000000000)), 0).UTC(), fmt.Sprintf("%ds", rr.Intn(3000000)), rr.Intn(2) == 0)
		return fmt.Sprint(a, b, c, d, e, g, h, str, cmpp.MsgIDString2Uint64(str), cmpp.CombineMsgID(a, b, c, d, e, g, h), r1, r2, v, err != nil)
	case 9: // an encode that must fail (a value too long for its slot), like a caller's mistake in production
		tn := []string{"smgp30.Submit", "cmpp20.PduSubmit", "cmpp30.Deliver", "sgip12.Bind", "smgp30.Login", "cmpp30.Submit", "cmpp30.Connect",
			"sgip12.Submit", "smgp30.Deliver", "cmpp20.PduDeliver"}[rr.Intn(10)]
		a := defaultAssign(rr, tn, true)
		for _, f := range layouts[tn].Fields {
			if f.K == "F" {
				a[f.N] = fval{b: nulFree(rr, f.W+1+rr.Intn(5))}
				break
			}
		}
		_, err := build(tn, a).IEncode()
		return fmt.Sprint("failenc ", err != nil)
	case 8: // a large encode (several KiB)
		tn, a := largeAssign(rr)
		b, err := build(tn, a).IEncode()
		if err != nil {
			return "err"
		}
		runtime.Gosched()
		p := ctors[tn]()
		if p.IDecode(b) != nil {
			return "decerr"
		}
		return fmt.Sprint(len(b)) + snapJSON(project(tn, p))
	case 16: // Build with every coding of the protocol as a candidate (the widest fan-out), contexts left alone
		proto := []string{"CMPP", "SMPP"}[rr.Intn(2)]
		var pdc []datacoding.ProtocolDataCoding
		for _, v := range batchValid[proto] {
			pdc = append(pdc, toPDC(proto, v))
		}
		if proto == "CMPP" {
			pdc = append(pdc, toPDC(proto, 4)) // (an undefined number as the fifth candidate)
		}
		txt := strings.Repeat("plain ascii text 0123456789 ", 1+rr.Intn(12))
		parts, a, err := protocol.NewBatchDataCodingEncoder().Protocol(protocol.Protocol(proto)).Content(txt, byte(rr.Intn(256))).DataCodings(pdc).Build(context.Background())
		return fmt.Sprint(parts, a, err != nil)
	case 17: // one builder of the caller's own, used for several requests in a row
		proto := []string{"CMPP", "SMPP"}[rr.Intn(2)]
		b := protocol.NewBatchDataCodingEncoder().Protocol(protocol.Protocol(proto))
		out := ""
		for k := 0; k < 3; k++ {
			var pdc []datacoding.ProtocolDataCoding
			for _, v := range batchValid[proto] {
				if rr.Intn(2) == 0 {
					pdc = append(pdc, toPDC(proto, v))
				}
			}
			pdc = append(pdc, toPDC(proto, 8))
			txt := randText(rr, 1+rr.Intn(200))
			if rr.Intn(2) == 0 {
				txt = strings.Repeat("plain ascii ", 1+rr.Intn(30))
			}
			parts, a, err := b.Content(txt, byte(rr.Intn(256))).DataCodings(pdc).Build(context.Background())
			out += fmt.Sprint(parts, a, err != nil)
			if k == 0 {
				runtime.Gosched()
			}
		}
		return out
	case 18: // a configured builder kept as a template: every request works on a copy of it
		pi := rr.Intn(2)
		proto := []string{"CMPP", "SMPP"}[pi]
		tmplOnce[pi].Do(func() {
			var pdc []datacoding.ProtocolDataCoding
			for _, v := range batchValid[proto] {
				pdc = append(pdc, toPDC(proto, v))
			}
			t := protocol.NewBatchDataCodingEncoder().Protocol(protocol.Protocol(proto)).DataCodings(pdc).Content("template", 1)
			_, _, _ = t.Build(context.Background()) // (it has been used once, e.g. to validate the configuration)
			tmpl[pi] = t
		})
		mine := *tmpl[pi]
		txt := randText(rr, 1+rr.Intn(200))
		if rr.Intn(2) == 0 {
			txt = strings.Repeat("plain ascii ", 1+rr.Intn(30))
		}
		parts, a, err := mine.Content(txt, byte(rr.Intn(256))).Build(context.Background())
		return fmt.Sprint(parts, a, err != nil)
	default: // decode via dispatcher-less IDecode + relay
		tn := typeNames[rr.Intn(len(typeNames))]
		a := defaultAssign(rr, tn, true)
		b, err := build(tn, a).IEncode()
		if err != nil {
			return "err"
		}
		p := ctors[tn]()
		in := append([]byte{}, b...)
		if p.IDecode(in) != nil {
			return "decerr"
		}
		for i := range in {
			in[i] = 0xEE
		}
		return snapJSON(project(tn, p))
	}
}

func runConc(c Case, tr *Tracer) {
	fresh := caseInt(c, "fresh") == 1
	if os.Getenv("VERIF_CONC_CHILD") == "" {
		// every program runs in a process of its own: a panic on a goroutine or a fatal error of the runtime
		// (concurrent map access) ends that process only and is reported as an event
		runConcChild(c, tr)
		return
	}
	seedv := int64(caseInt(c, "seed"))
	if v, ok := c["seed"].(int64); ok {
		seedv = v
	}
	ng, nops := caseInt(c, "g"), caseInt(c, "ops")
	rr := rand.New(rand.NewSource(seedv))
	type opd struct {
		kind int
		seed int64
	}
	prog := make([][]opd, ng)
	tr.emit(Ev{"ev": "Start", "site": "conc"})
	// counted from here: the batch encoder starts goroutines even when it is called alone, and the
	// detector reports each distinct race only once per process
	racesBefore := countRaceReports()
	opID := 0
	ids := make([][]int, ng)
	for g := 0; g < ng; g++ {
		for i := 0; i < nops; i++ {
			o := opd{rr.Intn(19), rr.Int63()}
			if i == 0 && g%2 == 0 {
				o.kind = 9 // every second goroutine starts with a failing encode
			}
			if i == 1 && g == 1 {
				o.kind = 4
			}
			if i == 1 && g != 1 && g%3 == 0 {
				o.kind = 14
			}
			if fresh && i == 0 {
				// first use of the lookup tables, on all goroutines at once
				o.kind = []int{15, 2, 11, 12, 13, 14, 6}[(int(uint(caseInt(c, "t")))/3+g%2)%7]
			}
			prog[g] = append(prog[g], o)
			opID++
			ids[g] = append(ids[g], opID)
		}
	}
	// the tail: after a barrier every goroutine runs the SAME kind of call again and again on values of its own, so
	// that calls into one piece of library code really overlap (the pools' own atomics order most other accesses)
	tailFrom := nops
	hk := int(uint(caseInt(c, "t")) % 18)
	if v := caseInt(c, "hk"); v > 0 {
		hk = v
	}
	reps := map[int]int{2: 3, 3: 3, 4: 3, 8: 3, 0: 20, 1: 20, 7: 20, 9: 20, 10: 20, 14: 6, 16: 6, 17: 4}[hk]
	if reps == 0 {
		reps = 100
	}
	if ng*reps > 600 {
		reps = 600/ng + 1
	}
	for g := 0; g < ng; g++ {
		for j := 0; j < reps; j++ {
			prog[g] = append(prog[g], opd{hk, rr.Int63()})
			opID++
			ids[g] = append(ids[g], opID)
		}
	}
	seqres := make([][]string, ng)
	alone := func() {
		// (also under the watchdog: a call that blocks for ever when run alone does not return either)
		var swg sync.WaitGroup
		swg.Add(1)
		go func() {
			defer swg.Done()
			for g := 0; g < ng; g++ {
				for _, o := range prog[g] {
					seqres[g] = append(seqres[g], digest(concOp(o.kind, o.seed)))
				}
			}
		}()
		waitOrReport(&swg, tr)
	}
	if !fresh {
		alone()
	}
	old := runtime.GOMAXPROCS(caseInt(c, "procs"))
	results := make([][]string, ng)
	var wg sync.WaitGroup
	start := make(chan struct{})
	// when a candidate is re-examined the goroutines run the program several times (VERIF_CONC_REPS): the first
	// round that differs from the sequential results is the one reported
	rounds := 1
	if n, err := strconv.Atoi(os.Getenv("VERIF_CONC_REPS")); err == nil && n > 1 && !fresh {
		rounds = n
	}
	// the pool hook of packet.Writer: one record per pool operation, ordered by a sequence taken under a lock
	type poolEv struct {
		op   string
		w, b int
		n    int
	}
	var pmu sync.Mutex
	var plog []poolEv
	// the maps hold pointers: every Writer and buffer seen stays alive (and keeps its address) while we record
	wid, bid := map[unsafe.Pointer]int{}, map[unsafe.Pointer]int{}
	nw := 0
	const maxWriters = 300
	// the observer's lock orders the goroutines and would hide data races from the detector: every second program
	// runs without it (no pool events, undisturbed schedules)
	observe := caseInt(c, "t")%2 == 0
	hook := func(op string, w, b unsafe.Pointer, n int) {
		pmu.Lock()
		defer pmu.Unlock()
		if op == "get" {
			if nw >= maxWriters {
				return
			}
			nw++
			wid[w] = nw
		}
		wi, ok := wid[w]
		if !ok {
			return
		}
		if _, ok := bid[b]; !ok {
			bid[b] = len(bid) + 1
		}
		plog = append(plog, poolEv{op, wi, bid[b], n})
	}
	if observe {
		packet.VerifPoolHook = hook
	}
	for rep := 0; rep < rounds; rep++ {
		round := make([][]string, ng)
		if rep > 0 {
			start = make(chan struct{})
		}
		var bar sync.WaitGroup
		bar.Add(ng)
		for g := 0; g < ng; g++ {
			wg.Add(1)
			go func(g int) {
				defer wg.Done()
				<-start
				yr := rand.New(rand.NewSource(seedv + int64(g) + int64(rep)*7919))
				for i, o := range prog[g] {
					if i == tailFrom {
						bar.Done()
						bar.Wait()
					}
					if i < tailFrom && yr.Intn(2) == 0 {
						runtime.Gosched()
					}
					round[g] = append(round[g], digest(concOp(o.kind, o.seed)))
				}
			}(g)
		}
		close(start)
		waitOrReport(&wg, tr)
		if rep == 0 {
			packet.VerifPoolHook = nil
		}
		results = round
		differs := false
		for g := 0; g < ng && !fresh; g++ {
			for i := range round[g] {
				if round[g][i] != seqres[g][i] {
					differs = true
				}
			}
		}
		if differs {
			break
		}
	}
	packet.VerifPoolHook = nil
	runtime.GOMAXPROCS(old)
	for _, pe := range plog {
		tr.emit(Ev{"ev": "Pool", "op": pe.op, "w": pe.w, "b": pe.b, "n": pe.n, "site": "packet.Writer/" + pe.op})
	}
	if fresh {
		alone() // the reference comes afterwards: nothing was called alone before the goroutines ran
	}
	// one event per call: what it returned on its goroutine (res) and what the same call returns alone (seq)
	for g := 0; g < ng; g++ {
		for i, res := range results[g] {
			tr.emit(Ev{"ev": "Par", "g": g, "i": i + 1, "op": ids[g][i], "kind": prog[g][i].kind, "res": res, "seq": seqres[g][i], "site": fmt.Sprintf("op%d", prog[g][i].kind)})
		}
	}
	tr.emit(Ev{"ev": "End", "races": countRaceReports() - racesBefore, "crash": false, "site": "race-detector"})
}

// runConcChild executes a "fresh" program in a process of its own (this binary again) and copies its events;
// a child that dies (fatal error: concurrent map read and map write, ...) is an End event with crash = true
func runConcChild(c Case, tr *Tracer) {
	base := fmt.Sprintf("%s.child%d_%d", tr.f.Name(), os.Getpid(), tr.t)
	defer func() {
		files, _ := filepath.Glob(base + "*")
		for _, f := range files {
			os.Remove(f)
		}
	}()
	cw := newCaseWriter(base + ".cases")
	cw.write(c)
	cw.close()
	cmd := exec.Command(os.Args[0], "conc", "run", "-cases", base+".cases", "-out", base+".trace")
	env := []string{}
	for _, kv := range os.Environ() {
		if !strings.HasPrefix(kv, "GORACE=") {
			env = append(env, kv)
		}
	}
	cmd.Env = append(env, "VERIF_CONC_CHILD=1", "GORACE=log_path="+base+".race exitcode=0")
	var stderr strings.Builder
	cmd.Stderr = &stderr
	done := make(chan error, 1)
	if err := cmd.Start(); err != nil {
		fmt.Fprintln(os.Stderr, "conc child:", err)
		os.Exit(2)
	}
	go func() { done <- cmd.Wait() }()
	var err error
	select {
	case err = <-done:
	case <-time.After(300 * time.Second):
		cmd.Process.Kill()
		fmt.Fprintln(os.Stderr, "conc child: timeout")
		os.Exit(2)
	}
	if err == nil {
		b, rerr := ioutil.ReadFile(base + ".trace")
		if rerr == nil {
			tr.w.Write(b)
			tr.n += strings.Count(string(b), "\n")
			return
		}
	}
	msg := stderr.String()
	races := strings.Count(msg, "WARNING: DATA RACE")
	files, _ := filepath.Glob(base + ".race.*")
	for _, f := range files {
		b, _ := ioutil.ReadFile(f)
		races += strings.Count(string(b), "WARNING: DATA RACE")
		msg += string(b)
	}
	// a child that ran out of memory or was killed says nothing about the library
	libraryFault := strings.Contains(msg, "fatal error: concurrent map") || strings.Contains(msg, "panic:") ||
		(strings.Contains(msg, "fatal error:") && !strings.Contains(msg, "out of memory") && !strings.Contains(msg, "cannot allocate"))
	if !libraryFault && races == 0 {
		// not the library's doing (the child could not start, was killed, ...): no verdict
		fmt.Fprintln(os.Stderr, "conc child failed:", err, msg)
		os.Exit(2)
	}
	first := msg
	if i := strings.Index(msg, "fatal error"); i >= 0 {
		first = msg[i:]
	}
	if len(first) > 200 {
		first = first[:200]
	}
	tr.emit(Ev{"ev": "Start", "site": "conc"})
	tr.emit(Ev{"ev": "End", "races": races, "crash": true, "msg": first, "site": "process-died"})
}

// countRaceReports counts "WARNING: DATA RACE" blocks in the files the race detector writes (GORACE log_path)
func countRaceReports() int {
	prefix := ""
	for _, kv := range strings.Fields(os.Getenv("GORACE")) {
		if strings.HasPrefix(kv, "log_path=") {
			prefix = strings.TrimPrefix(kv, "log_path=")
		}
	}
	if prefix == "" {
		return 0
	}
	files, _ := filepath.Glob(prefix + ".*")
	n := 0
	for _, f := range files {
		b, _ := ioutil.ReadFile(f)
		n += strings.Count(string(b), "WARNING: DATA RACE")
	}
	return n
}

// waitOrReport waits for the goroutines of a program.  Calls that take milliseconds and have not returned after two
// minutes, with goroutines blocked (not running) inside the library, are calls that do not return: the program ends
// with an End event that says so.  Goroutines that are still running or runnable mean a slow machine: no verdict.
func waitOrReport(wg *sync.WaitGroup, tr *Tracer) {
	done := make(chan struct{})
	go func() { wg.Wait(); close(done) }()
	limit := 120 * time.Second
	if v, err := strconv.Atoi(os.Getenv("VERIF_CONC_HANG_S")); err == nil && v > 0 {
		limit = time.Duration(v) * time.Second
	}
	select {
	case <-done:
		return
	case <-time.After(limit):
	}
	buf := make([]byte, 1<<24)
	buf = buf[:runtime.Stack(buf, true)]
	blocked, busy, where := 0, 0, ""
	for _, g := range strings.Split(string(buf), "\n\n") {
		if !strings.Contains(g, "go-sms-protocol") || !strings.Contains(g, "concOp") {
			continue // not one of the program's calls into the library
		}
		head := g
		if i := strings.Index(g, "\n"); i > 0 {
			head = g[:i]
		}
		switch {
		case strings.Contains(head, "[running") || strings.Contains(head, "[runnable") || strings.Contains(head, "[syscall"):
			busy++
		case strings.Contains(head, "[chan ") || strings.Contains(head, "[select") || strings.Contains(head, "[semacquire") ||
			strings.Contains(head, "[sync.") || strings.Contains(head, "[IO wait"):
			blocked++
			if where == "" {
				lines := strings.Split(g, "\n")
				for _, ln := range lines[1:] {
					if strings.Contains(ln, "go-sms-protocol") && !strings.HasPrefix(ln, "\t") {
						where = strings.TrimSpace(ln)
						break
					}
				}
			}
		}
	}
	if blocked == 0 || busy > 0 {
		fmt.Fprintf(os.Stderr, "conc: program not finished after %v (%d goroutines blocked in the library, %d busy): no verdict\n", limit, blocked, busy)
		os.Exit(2)
	}
	if len(where) > 160 {
		where = where[:160]
	}
	tr.emit(Ev{"ev": "End", "races": 0, "crash": false, "hung": true, "msg": fmt.Sprintf("%d calls blocked, e.g. in %s", blocked, where), "site": "no-return"})
	tr.close()
	os.Exit(0)
}
