package main

import (
	"context"
	"fmt"
	"hash/fnv"
	"io/ioutil"
	"math/rand"
	"os"
	"path/filepath"
	"reflect"
	"runtime"
	"sort"
	"strings"
	"sync"

	protocol "github.com/hujm2023/go-sms-protocol"
	sms "github.com/hujm2023/go-sms-protocol"
	"github.com/hujm2023/go-sms-protocol/cmpp"
	"github.com/hujm2023/go-sms-protocol/datacoding"
	gsm7 "github.com/hujm2023/go-sms-protocol/datacoding/gsm7encoding"
)

// Family "conc" (C13): the same operations alone and on many goroutines, in a
// binary built with -race.  GORACE=log_path=... exitcode=0 makes the detector
// write its reports to files, which are turned into Race events.

func init() {
	families["conc"] = family{gen: genConc, run: runConc}
}

func genConc(g *genCtx) {
	r := g.rng(13)
	np, maxG, maxOps := 24, 8, 12
	if g.thorough() {
		np, maxG, maxOps = 400, 64, 30
	}
	for i := 0; i < np; i++ {
		seed := r.Int63()
		ng := 2 + r.Intn(maxG-1)
		if !g.mine(i) {
			continue
		}
		g.emit(Case{"seed": seed, "g": ng, "ops": 1 + r.Intn(maxOps), "procs": []int{1, 2, 4, 8, 16}[r.Intn(5)]})
	}
}

func digest(s string) string {
	h := fnv.New64a()
	h.Write([]byte(s))
	return fmt.Sprintf("%d:%016x", len(s), h.Sum64())
}

// concOp executes operation (kind, seed) on values of its own and returns a canonical rendering of the result
func concOp(kind int, seed int64) string {
	rr := rand.New(rand.NewSource(seed))
	switch kind {
	case 0: // encode (+ decode back, so that optional parameters are compared as a set)
		tn := typeNames[rr.Intn(len(typeNames))]
		a := defaultAssign(rr, tn, true)
		b, err := build(tn, a).IEncode()
		if err != nil {
			return "err"
		}
		p := ctors[tn]()
		if p.IDecode(b) != nil {
			return "decerr"
		}
		return fmt.Sprint(len(b)) + snapJSON(project(tn, p))
	case 1: // String()
		tn := typeNames[rr.Intn(len(typeNames))]
		sp, ok := build(tn, defaultAssign(rr, tn, true)).(interface{ String() string })
		if !ok {
			return ""
		}
		lines := strings.Split(sp.String(), "\n")
		sort.Strings(lines)
		return strings.Join(lines, "\n")
	case 2: // content splitting
		txt := randText(rr, 1+rr.Intn(400))
		parts, a, err := protocol.EncodeSMPPContentAndSplit(context.Background(), txt, datacoding.SMPPDataCoding([]int{0, 1, 3, 8, 99}[rr.Intn(5)]), byte(rr.Intn(256)))
		return fmt.Sprint(parts, a, err != nil)
	case 3:
		txt := randText(rr, 1+rr.Intn(400))
		parts, a, err := protocol.EncodeCMPPContentAndSplit(context.Background(), txt, datacoding.CMPPDataCoding([]int{0, 8, 9, 15}[rr.Intn(4)]), byte(rr.Intn(256)))
		return fmt.Sprint(parts, a, err != nil)
	case 4: // batch encoder (starts goroutines itself)
		txt := randText(rr, 1+rr.Intn(300))
		if rr.Intn(2) == 0 { // a text every candidate can encode
			txt = strings.Repeat("plain ascii text 0123456789 ", 1+rr.Intn(12))
		}
		if rr.Intn(12) == 0 { // ... and one for which every candidate needs more than 255 parts
			txt = strings.Repeat("a", 40000+rr.Intn(100))
		}
		proto := []string{"CMPP", "SMPP"}[rr.Intn(2)]
		var pdc []datacoding.ProtocolDataCoding
		for _, v := range batchValid[proto] {
			if rr.Intn(3) != 0 {
				pdc = append(pdc, toPDC(proto, v))
			}
		}
		parts, a, err := protocol.NewBatchDataCodingEncoder().Protocol(protocol.Protocol(proto)).Content(txt, byte(rr.Intn(256))).DataCodings(pdc).Build(context.Background())
		return fmt.Sprint(parts, a, err != nil)
	case 5:
		return cmpp.Utf8ToUcs2Pooled(randText(rr, rr.Intn(300)))
	case 6:
		s := randBytes(rr, rr.Intn(300))
		for i := range s {
			s[i] &= 0x7f
		}
		p := gsm7.Pack(s)
		d, _ := gsm7.Decode(gsm7.Unpack(p))
		e, _ := gsm7.Encode(randText(rr, rr.Intn(50)))
		return string(p) + "|" + string(d) + "|" + string(e)
	case 7: // answer a request: decode, GenEmptyResponse, (yield), encode the response
		tn := typeNames[rr.Intn(len(typeNames))]
		if tn == "cmpp.SubPduDeliveryContent" {
			return "-"
		}
		a := defaultAssign(rr, tn, true)
		p, ok := build(tn, a).(sms.PDU)
		if !ok {
			return "-"
		}
		p.SetSequenceID(rr.Uint32())
		resp := p.GenEmptyResponse()
		if resp == nil || reflect.ValueOf(resp).IsNil() {
			return "nil"
		}
		runtime.Gosched()
		b, err := resp.IEncode()
		return fmt.Sprint(b, err != nil)
	case 9: // an encode that must fail (a value too long for its slot), like a caller's mistake in production
		tn := []string{"smgp30.Submit", "cmpp20.PduSubmit", "cmpp30.Deliver", "sgip12.Bind", "smgp30.Login"}[rr.Intn(5)]
		a := defaultAssign(rr, tn, true)
		for _, f := range layouts[tn].Fields {
			if f.K == "F" {
				a[f.N] = fval{b: nulFree(rr, f.W+1+rr.Intn(5))}
				break
			}
		}
		_, err := build(tn, a).IEncode()
		return fmt.Sprint("failenc ", err != nil)
	case 8: // a large encode (several KiB)
		tn, a := largeAssign(rr)
		b, err := build(tn, a).IEncode()
		if err != nil {
			return "err"
		}
		runtime.Gosched()
		p := ctors[tn]()
		if p.IDecode(b) != nil {
			return "decerr"
		}
		return fmt.Sprint(len(b)) + snapJSON(project(tn, p))
	default: // decode via dispatcher-less IDecode + relay
		tn := typeNames[rr.Intn(len(typeNames))]
		a := defaultAssign(rr, tn, true)
		b, err := build(tn, a).IEncode()
		if err != nil {
			return "err"
		}
		p := ctors[tn]()
		in := append([]byte{}, b...)
		if p.IDecode(in) != nil {
			return "decerr"
		}
		for i := range in {
			in[i] = 0xEE
		}
		return snapJSON(project(tn, p))
	}
}

func runConc(c Case, tr *Tracer) {
	seedv := int64(caseInt(c, "seed"))
	if v, ok := c["seed"].(int64); ok {
		seedv = v
	}
	ng, nops := caseInt(c, "g"), caseInt(c, "ops")
	rr := rand.New(rand.NewSource(seedv))
	type opd struct {
		kind int
		seed int64
	}
	prog := make([][]opd, ng)
	tr.emit(Ev{"ev": "Start", "site": "conc"})
	// counted from here: the batch encoder starts goroutines even when it is called alone, and the
	// detector reports each distinct race only once per process
	racesBefore := countRaceReports()
	opID := 0
	ids := make([][]int, ng)
	for g := 0; g < ng; g++ {
		for i := 0; i < nops; i++ {
			o := opd{rr.Intn(11), rr.Int63()}
			if i == 0 && g%2 == 0 {
				o.kind = 9 // every second goroutine starts with a failing encode
			}
			if i == 1 && g == 1 {
				o.kind = 4
			}
			prog[g] = append(prog[g], o)
			opID++
			ids[g] = append(ids[g], opID)
			tr.emit(Ev{"ev": "Seq", "op": opID, "kind": o.kind, "res": digest(concOp(o.kind, o.seed)), "site": fmt.Sprintf("op%d", o.kind)})
		}
	}
	old := runtime.GOMAXPROCS(caseInt(c, "procs"))
	results := make([][]string, ng)
	var wg sync.WaitGroup
	for g := 0; g < ng; g++ {
		wg.Add(1)
		go func(g int) {
			defer wg.Done()
			yr := rand.New(rand.NewSource(seedv + int64(g)))
			for _, o := range prog[g] {
				if yr.Intn(2) == 0 {
					runtime.Gosched()
				}
				results[g] = append(results[g], digest(concOp(o.kind, o.seed)))
			}
		}(g)
	}
	wg.Wait()
	runtime.GOMAXPROCS(old)
	for g := 0; g < ng; g++ {
		for i, res := range results[g] {
			tr.emit(Ev{"ev": "Par", "g": g, "i": i + 1, "op": ids[g][i], "res": res, "site": fmt.Sprintf("op%d", prog[g][i].kind)})
		}
	}
	tr.emit(Ev{"ev": "End", "races": countRaceReports() - racesBefore, "site": "race-detector"})
}

// countRaceReports counts "WARNING: DATA RACE" blocks in the files the race detector writes (GORACE log_path)
func countRaceReports() int {
	prefix := ""
	for _, kv := range strings.Fields(os.Getenv("GORACE")) {
		if strings.HasPrefix(kv, "log_path=") {
			prefix = strings.TrimPrefix(kv, "log_path=")
		}
	}
	if prefix == "" {
		return 0
	}
	files, _ := filepath.Glob(prefix + ".*")
	n := 0
	for _, f := range files {
		b, _ := ioutil.ReadFile(f)
		n += strings.Count(string(b), "WARNING: DATA RACE")
	}
	return n
}
