package main

import (
	"math/rand"
	"sort"

	"github.com/hujm2023/go-sms-protocol/packet"
	"github.com/hujm2023/go-sms-protocol/smgp"
	"github.com/hujm2023/go-sms-protocol/smpp"
)

// Family "tlv" (C16): SMPP TLV and SMGP option containers.

func init() {
	families["tlv"] = family{gen: genTlv, run: runTlv}
}

func genTlv(g *genCtx) {
	r := g.rng(16)
	n := 0
	emit := func(c Case) {
		if g.mine(n) {
			g.emit(c)
		}
		n++
	}
	kinds := []string{"smpp", "smgp"}
	mkSet := func(k int, maxV int) []interface{} {
		seen := map[int]bool{}
		var xs []tlvVal
		for len(xs) < k {
			tag := []int{0, 1, 2, 0x0204, 0xffff, r.Intn(65536), r.Intn(20)}[r.Intn(7)]
			if seen[tag] {
				continue
			}
			seen[tag] = true
			L := r.Intn(maxV + 1)
			if r.Intn(3) == 0 {
				L = r.Intn(3)
			}
			xs = append(xs, tlvVal{tag, randBytesFrom(r, L, []byte{0, 1, 2, 0xff, 0x41})})
		}
		return tlvJSONUnsorted(xs)
	}
	for _, kd := range kinds {
		// serialise: sets of 0..32 parameters
		nr := 150
		if g.thorough() {
			nr = 20000
		}
		for i := 0; i < nr; i++ {
			k := r.Intn(6)
			if r.Intn(5) == 0 {
				k = r.Intn(33)
			}
			emit(Case{"k": "ser", "kind": kd, "set": mkSet(k, 40)})
		}
		// boundaries of the 16-bit length field
		for _, L := range []int{65530, 65531, 65532, 65533, 65534, 65535, 65536, 65540, 70000} {
			emit(Case{"k": "ser", "kind": kd, "set": []interface{}{map[string]interface{}{"t": 9, "n": L, "c": 7}}})
			emit(Case{"k": "ser", "kind": kd, "set": []interface{}{map[string]interface{}{"t": 1, "v": []int{1}}, map[string]interface{}{"t": 9, "n": L, "c": 0}}})
		}
		// every permutation of emission order for <= 4 parameters: the octets are assembled
		// from the real single-triplet serialisations and handed to both parsers
		for k := 0; k <= 4; k++ {
			for rep := 0; rep < 3; rep++ {
				set := mkSet(k, 6)
				perm := make([]int, k)
				for i := range perm {
					perm[i] = i
				}
				var rec func(i int)
				rec = func(i int) {
					if i == k {
						emit(Case{"k": "perm", "kind": kd, "set": set, "order": append([]int{}, perm...)})
						return
					}
					for j := i; j < k; j++ {
						perm[i], perm[j] = perm[j], perm[i]
						rec(i + 1)
						perm[i], perm[j] = perm[j], perm[i]
					}
				}
				rec(0)
			}
		}
		// arbitrary octet strings (well-formed sequences with duplicates, truncations, junk)
		np := 600
		if g.thorough() {
			np = 100000
		}
		for i := 0; i < np; i++ {
			var b []byte
			switch r.Intn(4) {
			case 0: // well-formed with duplicates
				for j := r.Intn(5); j > 0; j-- {
					v := randBytesFrom(r, r.Intn(5), []byte{0, 1, 2})
					b = append(b, 0, byte(r.Intn(3)), 0, byte(len(v)))
					b = append(b, v...)
				}
			case 1: // well-formed then cut
				for j := 1 + r.Intn(4); j > 0; j-- {
					v := randBytes(r, r.Intn(6))
					b = append(b, byte(r.Intn(2)), byte(r.Intn(4)), 0, byte(len(v)))
					b = append(b, v...)
				}
				b = b[:r.Intn(len(b)+1)]
			case 2:
				b = randBytesFrom(r, r.Intn(14), []byte{0, 0, 0, 1, 2, 4})
			default:
				b = randBytes(r, r.Intn(30))
			}
			emit(Case{"k": "parse", "kind": kd, "in": B(b)})
		}
		// all strings of length <= 5 over {0,1,2} for the no-fabrication clause
		var rec func(p []byte, L int)
		rec = func(p []byte, L int) {
			if len(p) == L {
				emit(Case{"k": "parse", "kind": kd, "in": B(p)})
				return
			}
			for _, a := range []byte{0, 1, 2} {
				rec(append(append([]byte{}, p...), a), L)
			}
		}
		maxL := 5
		if g.thorough() {
			maxL = 8
		}
		for L := 0; L <= maxL; L++ {
			rec(nil, L)
		}
		// an optional-parameter area longer than 64 KiB: several long values (each length fits 16 bits, the sum does not)
		for _, ls := range [][]int{{40000, 40000}, {30000, 30000, 30000}, {65531, 9}} {
			set := []interface{}{}
			for i, L := range ls {
				set = append(set, map[string]interface{}{"t": 3 + i, "n": L, "c": 65 + i})
			}
			emit(Case{"k": "ser", "kind": kd, "set": set})
		}
		emit(Case{"k": "add", "kind": kd, "tag": 2, "v": []int{1}})
		emit(Case{"k": "add", "kind": kd, "tag": 0, "v": []int{}})
	}
	for _, v := range [][]int{{}, {0}, {1}, {1, 2}, {255}} {
		emit(Case{"k": "acc", "v": v})
	}
}

func tlvJSONUnsorted(xs []tlvVal) []interface{} {
	out := make([]interface{}, 0, len(xs))
	for _, x := range xs {
		out = append(out, map[string]interface{}{"t": x.T, "v": B(x.V)})
	}
	return out
}

func parseSet(v interface{}) []tlvVal {
	var xs []tlvVal
	arr, _ := v.([]interface{})
	for _, x := range arr {
		o, _ := x.(map[string]interface{})
		if _, ok := o["n"]; ok {
			xs = append(xs, tlvVal{caseInt(o, "t"), bytesOf(byte(caseInt(o, "c")), caseInt(o, "n"))})
		} else {
			xs = append(xs, tlvVal{caseInt(o, "t"), toBytes(o["v"])})
		}
	}
	return xs
}

func sortedTlv(xs []tlvVal) []interface{} {
	sort.Slice(xs, func(i, j int) bool { return xs[i].T < xs[j].T })
	return tlvJSONUnsorted(xs)
}

func runTlv(c Case, tr *Tracer) {
	kd := caseStr(c, "kind")
	switch caseStr(c, "k") {
	case "ser":
		set := parseSet(c["set"])
		var out []byte
		ln := -1
		pan := guard(func() {
			if kd == "smpp" {
				var t smpp.TLVs
				for _, x := range set {
					t.SetTLV(smpp.NewTLV(uint16(x.T), x.V))
				}
				out = t.Bytes()
			} else {
				o := make(smgp.Options)
				for _, x := range set {
					o.Add(smgp.NewOption(smgp.Tag(x.T), x.V))
				}
				out = o.Serialize()
				ln = o.Len()
			}
		})
		tr.emit(Ev{"ev": "Ser", "kind": kd, "set": tlvJSONUnsorted(set), "out": B(out), "len": ln, "panic": pan, "site": kd + ".serialize"})
		want := 0
		for _, x := range set {
			want += 4 + len(x.V)%65536
		}
		if !pan && len(out) > 0 && len(out) <= want {
			// ... and what was serialised reads back through every parser (an output that is longer than the
			// triplets it should hold is judged by the Ser event alone)
			parseBoth(kd, out, tr)
		}
	case "perm":
		set := parseSet(c["set"])
		var in []byte
		if ord, ok := c["order"].([]interface{}); ok {
			for _, o := range ord {
				x := set[caseInt(map[string]interface{}{"x": o}, "x")]
				in = append(in, oneTriplet(kd, x)...)
			}
		} else if ord, ok := c["order"].([]int); ok {
			for _, o := range ord {
				in = append(in, oneTriplet(kd, set[o])...)
			}
		}
		parseBoth(kd, in, tr)
	case "parse":
		parseBoth(kd, caseBytes(c, "in"), tr)
	case "add":
		tag, v := caseInt(c, "tag"), caseBytes(c, "v")
		present := false
		if kd == "smpp" {
			var t smpp.TLVs
			t.SetTLV(smpp.NewTLV(uint16(tag), v))
			_, present = t[uint16(tag)]
		} else {
			var o smgp.Options
			guard(func() { o.Add(smgp.NewOption(smgp.Tag(tag), v)) })
			_, present = o[smgp.Tag(tag)]
		}
		tr.emit(Ev{"ev": "Add", "kind": kd, "present": present, "site": kd + ".add"})
	case "acc":
		v := caseBytes(c, "v")
		o := smgp.Options{smgp.TAG_TP_udhi: smgp.NewOption(smgp.TAG_TP_udhi, v)}
		var out uint8
		pan := guard(func() { out = o.TP_udhi() })
		tr.emit(Ev{"ev": "Acc", "fn": "TP_udhi", "v": B(v), "out": int(out), "panic": pan, "site": "smgp.Options.TP_udhi"})
	}
}

func oneTriplet(kd string, x tlvVal) []byte {
	if kd == "smpp" {
		return smpp.NewTLV(uint16(x.T), x.V).Bytes()
	}
	return smgp.NewOption(smgp.Tag(x.T), x.V).Bytes()
}

// callerTag is a tag no generated input contains: the caller adds it to every container a parser returns, and
// no later parse may report it
const callerTag = 0x7777

func parseBoth(kd string, in []byte, tr *Tracer) {
	type res struct {
		xs  []tlvVal
		err bool
	}
	fns := map[string]func(b []byte) res{}
	if kd == "smpp" {
		fns["smpp.ReadTLVs"] = func(b []byte) res {
			t, err := smpp.ReadTLVs(packet.NewPacketReader(b))
			var xs []tlvVal
			for tag, v := range t {
				xs = append(xs, tlvVal{int(tag), v.Value()})
			}
			if t != nil {
				t.SetTLV(smpp.NewTLV(callerTag, []byte{9})) // the container is the caller's: what it adds stays there
			}
			return res{xs, err != nil}
		}
		fns["smpp.ReadTLVs1"] = func(b []byte) res {
			rd := packet.NewPacketReader(b)
			t := smpp.ReadTLVs1(rd)
			var xs []tlvVal
			for tag, v := range t {
				xs = append(xs, tlvVal{int(tag), v.Value()})
			}
			if t != nil {
				t.SetTLV(smpp.NewTLV(callerTag, []byte{9}))
			}
			return res{xs, rd.Error() != nil}
		}
	} else {
		fns["smgp.ParseOptions"] = func(b []byte) res {
			o, err := smgp.ParseOptions(b)
			var xs []tlvVal
			for tag, v := range o {
				xs = append(xs, tlvVal{int(tag), v.Value()})
			}
			if o != nil {
				o.Add(smgp.NewOption(smgp.Tag(callerTag), []byte{9}))
			}
			return res{xs, err != nil}
		}
		fns["smgp.ReadOptions"] = func(b []byte) res {
			rd := packet.NewPacketReader(b)
			o := smgp.ReadOptions(rd)
			var xs []tlvVal
			for tag, v := range o {
				xs = append(xs, tlvVal{int(tag), v.Value()})
			}
			if o != nil {
				o.Add(smgp.NewOption(smgp.Tag(callerTag), []byte{9}))
			}
			return res{xs, rd.Error() != nil}
		}
	}
	names := make([]string, 0)
	for nme := range fns {
		names = append(names, nme)
	}
	sort.Strings(names)
	for _, nme := range names {
		var rs res
		buf := append([]byte{}, in...)
		pan, hung := guardT(func() { rs = fns[nme](buf) }, nme)
		if hung && skipped {
			continue
		}
		if !hung {
			// the octets were parsed out of a read buffer that is used again: the set that was returned stays what it was
			for i := range buf {
				buf[i] = 0xEE
			}
		}
		tr.emit(Ev{"ev": "Parse", "kind": kd, "in": B(in), "res": sortedTlv(rs.xs), "err": rs.err, "panic": pan, "hang": hung, "site": nme})
	}
}

var _ = rand.Int
