package main

import (
	_ "embed"
	"encoding/hex"
	"encoding/json"
	"fmt"
	"reflect"
	"sort"
	"strconv"
	"strings"

	"github.com/hujm2023/go-sms-protocol/cmpp"
	"github.com/hujm2023/go-sms-protocol/cmpp/cmpp20"
	"github.com/hujm2023/go-sms-protocol/cmpp/cmpp30"
	"github.com/hujm2023/go-sms-protocol/sgip/sgip12"
	"github.com/hujm2023/go-sms-protocol/smgp"
	"github.com/hujm2023/go-sms-protocol/smgp/smgp30"
	"github.com/hujm2023/go-sms-protocol/smpp"
	"github.com/hujm2023/go-sms-protocol/smpp/smpp34"
)

// Reflection bridge between the field names of Layouts.tla and the Go structs.
// layouts.json is generated from the same source as Layouts.tla; the harness uses
// it only to find struct members and to generate inputs, never to judge.

//go:embed layouts.json
var layoutsJSON []byte

type fieldSpec struct {
	N  string `json:"n"`
	K  string `json:"k"`
	W  int    `json:"w"`
	Go string `json:"go"`
}

type typeSpec struct {
	Cmd    uint32      `json:"cmd"`
	Fields []fieldSpec `json:"fields"`
}

var layouts map[string]typeSpec
var typeNames []string

type codecPDU interface {
	IEncode() ([]byte, error)
	IDecode([]byte) error
}

var ctors = map[string]func() codecPDU{
	"cmpp.SubPduDeliveryContent": func() codecPDU { return new(cmpp.SubPduDeliveryContent) },
	"cmpp20.PduConnect":          func() codecPDU { return new(cmpp20.PduConnect) },
	"cmpp20.PduConnectResp":      func() codecPDU { return new(cmpp20.PduConnectResp) },
	"cmpp20.PduTerminate":        func() codecPDU { return new(cmpp20.PduTerminate) },
	"cmpp20.PduTerminateResp":    func() codecPDU { return new(cmpp20.PduTerminateResp) },
	"cmpp20.PduSubmit":           func() codecPDU { return new(cmpp20.PduSubmit) },
	"cmpp20.PduSubmitResp":       func() codecPDU { return new(cmpp20.PduSubmitResp) },
	"cmpp20.PduDeliver":          func() codecPDU { return new(cmpp20.PduDeliver) },
	"cmpp20.PduDeliverResp":      func() codecPDU { return new(cmpp20.PduDeliverResp) },
	"cmpp20.PduQuery":            func() codecPDU { return new(cmpp20.PduQuery) },
	"cmpp20.PduQueryResp":        func() codecPDU { return new(cmpp20.PduQueryResp) },
	"cmpp20.PduActiveTest":       func() codecPDU { return new(cmpp20.PduActiveTest) },
	"cmpp20.PduActiveTestResp":   func() codecPDU { return new(cmpp20.PduActiveTestResp) },
	"cmpp30.Connect":             func() codecPDU { return new(cmpp30.Connect) },
	"cmpp30.ConnectResp":         func() codecPDU { return new(cmpp30.ConnectResp) },
	"cmpp30.Terminate":           func() codecPDU { return new(cmpp30.Terminate) },
	"cmpp30.TerminateResp":       func() codecPDU { return new(cmpp30.TerminateResp) },
	"cmpp30.Submit":              func() codecPDU { return new(cmpp30.Submit) },
	"cmpp30.SubmitResp":          func() codecPDU { return new(cmpp30.SubmitResp) },
	"cmpp30.Deliver":             func() codecPDU { return new(cmpp30.Deliver) },
	"cmpp30.DeliverResp":         func() codecPDU { return new(cmpp30.DeliverResp) },
	"cmpp30.Query":               func() codecPDU { return new(cmpp30.Query) },
	"cmpp30.QueryResp":           func() codecPDU { return new(cmpp30.QueryResp) },
	"cmpp30.Cancel":              func() codecPDU { return new(cmpp30.Cancel) },
	"cmpp30.CancelResp":          func() codecPDU { return new(cmpp30.CancelResp) },
	"cmpp30.ActiveTest":          func() codecPDU { return new(cmpp30.ActiveTest) },
	"cmpp30.ActiveTestResp":      func() codecPDU { return new(cmpp30.ActiveTestResp) },
	"sgip12.Bind":                func() codecPDU { return new(sgip12.Bind) },
	"sgip12.BindResp":            func() codecPDU { return new(sgip12.BindResp) },
	"sgip12.Unbind":              func() codecPDU { return new(sgip12.Unbind) },
	"sgip12.UnbindResp":          func() codecPDU { return new(sgip12.UnbindResp) },
	"sgip12.Submit":              func() codecPDU { return new(sgip12.Submit) },
	"sgip12.SubmitResp":          func() codecPDU { return new(sgip12.SubmitResp) },
	"sgip12.Deliver":             func() codecPDU { return new(sgip12.Deliver) },
	"sgip12.DeliverResp":         func() codecPDU { return new(sgip12.DeliverResp) },
	"sgip12.Report":              func() codecPDU { return new(sgip12.Report) },
	"sgip12.ReportResp":          func() codecPDU { return new(sgip12.ReportResp) },
	"smgp30.Login":               func() codecPDU { return new(smgp30.Login) },
	"smgp30.LoginResp":           func() codecPDU { return new(smgp30.LoginResp) },
	"smgp30.Submit":              func() codecPDU { return new(smgp30.Submit) },
	"smgp30.SubmitResp":          func() codecPDU { return new(smgp30.SubmitResp) },
	"smgp30.Deliver":             func() codecPDU { return new(smgp30.Deliver) },
	"smgp30.DeliverResp":         func() codecPDU { return new(smgp30.DeliverResp) },
	"smgp30.ActiveTest":          func() codecPDU { return new(smgp30.ActiveTest) },
	"smgp30.ActiveTestResp":      func() codecPDU { return new(smgp30.ActiveTestResp) },
	"smgp30.Exit":                func() codecPDU { return new(smgp30.Exit) },
	"smgp30.ExitResp":            func() codecPDU { return new(smgp30.ExitResp) },
	"smpp34.Bind":                func() codecPDU { return new(smpp34.Bind) },
	"smpp34.BindResp":            func() codecPDU { return new(smpp34.BindResp) },
	"smpp34.SubmitSm":            func() codecPDU { return new(smpp34.SubmitSm) },
	"smpp34.SubmitSmResp":        func() codecPDU { return new(smpp34.SubmitSmResp) },
	"smpp34.DeliverSm":           func() codecPDU { return new(smpp34.DeliverSm) },
	"smpp34.DeliverSmResp":       func() codecPDU { return new(smpp34.DeliverSmResp) },
	"smpp34.Unbind":              func() codecPDU { return new(smpp34.Unbind) },
	"smpp34.UnBindResp":          func() codecPDU { return new(smpp34.UnBindResp) },
	"smpp34.EnquireLink":         func() codecPDU { return new(smpp34.EnquireLink) },
	"smpp34.EnquireLinkResp":     func() codecPDU { return new(smpp34.EnquireLinkResp) },
	"smpp34.GenericNack":         func() codecPDU { return new(smpp34.GenericNack) },
}

func init() {
	if err := json.Unmarshal(layoutsJSON, &layouts); err != nil {
		panic(err)
	}
	for n := range layouts {
		typeNames = append(typeNames, n)
	}
	sort.Strings(typeNames)
	for _, n := range typeNames {
		if _, ok := ctors[n]; !ok {
			panic("no constructor for " + n)
		}
	}
}

type tlvVal struct {
	T int
	V []byte
}

// fval is the value of one layout field
type fval struct {
	b    []byte
	list [][]byte
	tlvs []tlvVal
}

type assign map[string]fval

func resolve(root reflect.Value, path string) reflect.Value {
	v := root
	for _, seg := range strings.Split(path, ".") {
		idx := -1
		if i := strings.IndexByte(seg, '['); i >= 0 {
			idx, _ = strconv.Atoi(seg[i+1 : len(seg)-1])
			seg = seg[:i]
		}
		if v.Kind() == reflect.Ptr {
			v = v.Elem()
		}
		v = v.FieldByName(seg)
		if !v.IsValid() {
			panic("no field " + path)
		}
		if idx >= 0 {
			v = v.Index(idx)
		}
	}
	return v
}

func beUint(b []byte) uint64 {
	var v uint64
	for _, x := range b {
		v = v<<8 | uint64(x)
	}
	return v
}

// build fills a fresh struct of the type from an assignment
func build(tn string, a assign) codecPDU {
	obj := ctors[tn]()
	root := reflect.ValueOf(obj).Elem()
	for _, f := range layouts[tn].Fields {
		fv := resolve(root, f.Go)
		val := a[f.N]
		switch f.K {
		case "U", "N", "Z":
			fv.SetUint(beUint(val.b))
		case "F", "C", "B", "FB":
			if fv.Kind() == reflect.String {
				fv.SetString(string(val.b))
			} else {
				fv.SetBytes(append([]byte{}, val.b...))
			}
		case "FH":
			// the struct holds the id as hexadecimal text, or - what encoders also take - as the raw octets themselves:
			// the raw form is used when the octets are all ASCII digits / hexadecimal letters
			// (smgp30.Deliver and SubmitResp take both forms; DeliverResp reads its member as hexadecimal text only)
			raw := len(val.b) > 0 && (tn == "smgp30.Deliver" || tn == "smgp30.SubmitResp")
			for _, c := range val.b {
				if !(c >= '0' && c <= '9' || c >= 'a' && c <= 'f' || c >= 'A' && c <= 'F') {
					raw = false
				}
			}
			if raw {
				fv.SetString(string(val.b))
			} else {
				fv.SetString(hex.EncodeToString(val.b))
			}
		case "L":
			l := make([]string, len(val.list))
			for i, s := range val.list {
				l[i] = string(s)
			}
			fv.Set(reflect.ValueOf(l))
		case "T":
			var t smpp.TLVs
			for _, x := range val.tlvs {
				t.SetTLV(smpp.NewTLV(uint16(x.T), append([]byte{}, x.V...)))
			}
			fv.Set(reflect.ValueOf(t))
		case "O":
			if len(val.tlvs) > 0 {
				o := make(smgp.Options)
				for _, x := range val.tlvs {
					o[smgp.Tag(x.T)] = smgp.NewOption(smgp.Tag(x.T), append([]byte{}, x.V...))
				}
				fv.Set(reflect.ValueOf(o))
			}
		}
	}
	return obj
}

// project reads the struct back into layout field values (JSON-ready)
func project(tn string, obj codecPDU) map[string]interface{} {
	out := map[string]interface{}{}
	root := reflect.ValueOf(obj).Elem()
	for _, f := range layouts[tn].Fields {
		fv := resolve(root, f.Go)
		switch f.K {
		case "U", "N", "Z":
			out[f.N] = be(fv.Uint(), f.W)
		case "F", "C", "B", "FB":
			if fv.Kind() == reflect.String {
				out[f.N] = S(fv.String())
			} else {
				out[f.N] = B(fv.Bytes())
			}
		case "FH":
			if d, err := hex.DecodeString(fv.String()); err == nil && len(fv.String()) == 2*f.W {
				out[f.N] = B(d)
			} else {
				out[f.N] = B([]byte(fv.String())) // the raw octets
			}
		case "L":
			l := make([]interface{}, 0)
			for i := 0; i < fv.Len(); i++ {
				l = append(l, S(fv.Index(i).String()))
			}
			out[f.N] = l
		case "T":
			t, _ := fv.Interface().(smpp.TLVs)
			var xs []tlvVal
			for tag, tlv := range t {
				xs = append(xs, tlvVal{int(tag), tlv.Value()})
			}
			out[f.N] = tlvJSON(xs)
		case "O":
			o, _ := fv.Interface().(smgp.Options)
			var xs []tlvVal
			for tag, opt := range o {
				xs = append(xs, tlvVal{int(tag), opt.Value()})
			}
			out[f.N] = tlvJSON(xs)
		}
	}
	return out
}

func tlvJSON(xs []tlvVal) []interface{} {
	sort.Slice(xs, func(i, j int) bool { return xs[i].T < xs[j].T })
	out := make([]interface{}, 0, len(xs))
	for _, x := range xs {
		out = append(out, map[string]interface{}{"t": x.T, "v": B(x.V)})
	}
	return out
}

// headerLen returns the total-length member of the decoded header as 4 octets
func headerLen(obj codecPDU) []int {
	root := reflect.ValueOf(obj).Elem()
	h := root.FieldByName("Header")
	if !h.IsValid() {
		return []int{}
	}
	for _, n := range []string{"TotalLength", "Length"} {
		if f := h.FieldByName(n); f.IsValid() {
			return be(f.Uint(), 4)
		}
	}
	return []int{}
}

// setHeaderLen stores v in the total-length member of the header (what an earlier encode or decode left there)
func setHeaderLen(obj codecPDU, v uint64) {
	h := reflect.ValueOf(obj).Elem().FieldByName("Header")
	if !h.IsValid() {
		return
	}
	for _, n := range []string{"TotalLength", "Length"} {
		if f := h.FieldByName(n); f.IsValid() && f.CanSet() {
			f.SetUint(v)
			return
		}
	}
}

// assignToJSON / assignFromJSON move assignments through case files
func assignToJSON(tn string, a assign) map[string]interface{} {
	out := map[string]interface{}{}
	for _, f := range layouts[tn].Fields {
		v := a[f.N]
		switch f.K {
		case "L":
			l := make([]interface{}, 0)
			for _, s := range v.list {
				l = append(l, B(s))
			}
			out[f.N] = l
		case "T", "O":
			out[f.N] = tlvJSON(append([]tlvVal{}, v.tlvs...))
		default:
			out[f.N] = B(v.b)
		}
	}
	return out
}

func assignFromJSON(tn string, m map[string]interface{}) assign {
	a := assign{}
	for _, f := range layouts[tn].Fields {
		switch f.K {
		case "L":
			var l [][]byte
			if arr, ok := m[f.N].([]interface{}); ok {
				for _, x := range arr {
					l = append(l, toBytes(x))
				}
			}
			a[f.N] = fval{list: l}
		case "T", "O":
			var xs []tlvVal
			if arr, ok := m[f.N].([]interface{}); ok {
				for _, x := range arr {
					if o, ok := x.(map[string]interface{}); ok {
						xs = append(xs, tlvVal{caseInt(o, "t"), toBytes(o["v"])})
					}
				}
			}
			a[f.N] = fval{tlvs: xs}
		default:
			a[f.N] = fval{b: toBytes(m[f.N])}
		}
	}
	return a
}

var _ = fmt.Sprint
