package main

import (
	"context"
	"math/rand"
	"reflect"

	protocol "github.com/hujm2023/go-sms-protocol"
	sms "github.com/hujm2023/go-sms-protocol"
	"github.com/hujm2023/go-sms-protocol/cmpp"
	"github.com/hujm2023/go-sms-protocol/cmpp/cmpp20"
	"github.com/hujm2023/go-sms-protocol/cmpp/cmpp30"
	"github.com/hujm2023/go-sms-protocol/codec"
	"github.com/hujm2023/go-sms-protocol/datacoding"
	"github.com/hujm2023/go-sms-protocol/sgip"
	"github.com/hujm2023/go-sms-protocol/sgip/sgip12"
	"github.com/hujm2023/go-sms-protocol/smgp"
	"github.com/hujm2023/go-sms-protocol/smgp/smgp30"
	"github.com/hujm2023/go-sms-protocol/smpp"
	"github.com/hujm2023/go-sms-protocol/smpp/smpp34"
)

// Family "gateway": an end-to-end SP -> gateway exchange assembled from the real
// library pieces (growth beyond the listed properties; judged by Trace_Gateway).

func init() {
	families["gateway"] = family{gen: genGateway, run: runGateway}
}

func genGateway(g *genCtx) {
	r := g.rng(21)
	n := 120
	if g.thorough() {
		n = 4000
	}
	for i := 0; i < n; i++ {
		seed := r.Int63()
		if g.mine(i) {
			g.emit(Case{"seed": seed, "proto": pickS(r, "cmpp30", "smpp34", "cmpp20", "smgp30", "sgip12"), "msgs": 1 + r.Intn(3)})
		}
	}
}

type gwMsg struct {
	text   string
	coding int
	ref    int
	parts  [][]byte
}

func runGateway(c Case, tr *Tracer) {
	seedv := int64(caseInt(c, "seed"))
	if v, ok := c["seed"].(int64); ok {
		seedv = v
	}
	rr := rand.New(rand.NewSource(seedv))
	proto := caseStr(c, "proto")
	nm := caseInt(c, "msgs")
	tr.emit(Ev{"ev": "Start", "site": "gateway." + proto})
	site := "gateway." + proto
	ctx := context.Background()

	// ---- SP: split every message (distinct references while in flight)
	msgs := map[int]*gwMsg{}
	refs := rr.Perm(256)
	type part struct{ m, i int }
	var unsent []part
	for m := 1; m <= nm; m++ {
		var txt string
		coding := 0
		pools := map[int][]rune{}
		if proto != "smpp34" {
			coding = []int{0, 8, 15}[rr.Intn(3)]
			pools = map[int][]rune{0: []rune("abc XYZ 0189.,"), 8: []rune("abc 中文é😀"), 15: []rune("abc 中文汉字")}
		} else {
			coding = []int{0, 1, 3, 8}[rr.Intn(4)]
			pools = map[int][]rune{0: []rune("abc XYZ @£ 019"), 1: []rune("abc XYZ 0189.,"), 3: []rune("abc éü€ÿ"), 8: []rune("abc 中文é")}
		}
		L := 1 + rr.Intn(500)
		if rr.Intn(2) == 0 {
			L = 1 + rr.Intn(100)
		}
		rs := make([]rune, L)
		for j := range rs {
			rs[j] = pools[coding][rr.Intn(len(pools[coding]))]
		}
		txt = string(rs)
		var parts [][]byte
		var err error
		if proto != "smpp34" {
			parts, _, err = protocol.EncodeCMPPContentAndSplit(ctx, txt, datacoding.CMPPDataCoding(coding), byte(refs[m]))
		} else {
			parts, _, err = protocol.EncodeSMPPContentAndSplit(ctx, txt, datacoding.SMPPDataCoding(coding), byte(refs[m]))
		}
		if err != nil {
			continue
		}
		msgs[m] = &gwMsg{text: txt, coding: coding, ref: refs[m], parts: parts}
		tr.emit(Ev{"ev": "GSubmit", "m": m, "coding": coding, "ref": refs[m], "text": scalars(txt), "nparts": len(parts), "site": site})
		for i := range parts {
			unsent = append(unsent, part{m, i + 1})
		}
	}
	rr.Shuffle(len(unsent), func(i, j int) { unsent[i], unsent[j] = unsent[j], unsent[i] })

	// ---- the connection and the gateway side
	conn := &scriptedConn{fault: "eof"}
	var cd codec.Codec = codec.NewCMPPCodec()
	dispatch := cmpp30.DecodeCMPP30
	switch proto {
	case "smpp34":
		cd = codec.NewSMPPCodec()
		dispatch = smpp34.DecodeSMPP34
	case "cmpp20":
		dispatch = cmpp20.DecodeCMPP20
	case "smgp30":
		dispatch = smgp30.DecodeSMGP30 // SMGP and SGIP frames carry the same 4-octet total length in front
	case "sgip12":
		dispatch = sgip12.DecodeSGIP12
	}
	sid := 0
	outstanding := map[int]part{}
	type asmEntry struct {
		total int
		got   map[int][]byte
	}
	asm := map[int]*asmEntry{}
	codingOf := map[int]int{} // reference -> coding (the gateway learns it from the PDU)

	buildPDU := func(p part, sidv int) []byte {
		mg := msgs[p.m]
		content := mg.parts[p.i-1]
		udhi := len(mg.parts) > 1
		u8 := uint8(0)
		if udhi {
			u8 = 1
		}
		switch proto {
		case "cmpp30":
			s := &cmpp30.Submit{Header: cmpp.Header{CommandID: cmpp.CommandSubmit}, PkTotal: uint8(len(mg.parts)), PkNumber: uint8(p.i), TpUDHI: u8,
				MsgFmt: uint8(mg.coding), DestUsrTL: 1, DestTerminalID: []string{"13800000000"}, MsgLength: uint8(len(content)), MsgContent: string(content)}
			s.SetSequenceID(uint32(sidv))
			b, _ := s.IEncode()
			return b
		case "cmpp20":
			s := &cmpp20.PduSubmit{Header: cmpp.Header{CommandID: cmpp.CommandSubmit}, PkTotal: uint8(len(mg.parts)), PkNumber: uint8(p.i), TpUDHI: u8,
				MsgFmt: uint8(mg.coding), DestUsrTL: 1, DestTerminalID: []string{"13800000000"}, MsgLength: uint8(len(content)), MsgContent: string(content)}
			s.SetSequenceID(uint32(sidv))
			b, _ := s.IEncode()
			return b
		case "smgp30":
			s := &smgp30.Submit{Header: smgp.NewHeader(0, smgp.CommandSubmit, 0), MsgFormat: uint8(mg.coding), DestTermIDCount: 1, DestTermID: []string{"13800000000"},
				MsgLength: uint8(len(content)), MsgContent: string(content)}
			if udhi {
				s.Options = smgp.Options{}
				s.Options.Add(smgp.NewOption(smgp.TAG_TP_udhi, []byte{1}))
			}
			s.SetSequenceID(uint32(sidv))
			b, _ := s.IEncode()
			return b
		case "sgip12":
			s := &sgip12.Submit{Header: sgip.NewHeader(0, sgip.SGIP_SUBMIT, 1, uint32(sidv)), UserCount: 1, UserNumber: []string{"8613800000000"}, TpUdhi: u8,
				MessageCoding: uint8(mg.coding), MessageLength: uint32(len(content)), MessageContent: string(content)}
			s.SetSequenceID(uint32(sidv))
			b, _ := s.IEncode()
			return b
		}
		s := &smpp34.SubmitSm{Header: smpp.Header{ID: smpp.SUBMIT_SM}, DataCoding: uint8(mg.coding), DestinationAddr: "13800000000", SmLength: uint8(len(content)), ShortMessage: content}
		if udhi {
			s.ESMClass = 0x40
		}
		s.SetSequenceID(uint32(sidv))
		b, _ := s.IEncode()
		return b
	}

	gatewayDrain := func() {
		for {
			frame, err := cd.Decode(conn)
			if err != nil {
				return
			}
			pdu, derr := dispatch(append([]byte{}, frame...))
			if derr != nil || pdu == nil {
				tr.emit(Ev{"ev": "GRecv", "sid": -1, "rsid": -1, "rok": false, "valid": false, "key": 0, "total": 0, "index": 0, "deliv": []int{-1}, "site": site})
				continue
			}
			var content string
			var udhi bool
			var coding int
			switch s := pdu.(type) {
			case *cmpp30.Submit:
				content, udhi, coding = s.MsgContent, s.TpUDHI == 1, int(s.MsgFmt)
			case *smpp34.SubmitSm:
				content, udhi, coding = string(s.ShortMessage), s.ESMClass&0x40 != 0, int(s.DataCoding)
			case *cmpp20.PduSubmit:
				content, udhi, coding = s.MsgContent, s.TpUDHI == 1, int(s.MsgFmt)
			case *smgp30.Submit:
				content, udhi, coding = s.MsgContent, s.Options.TP_udhi() == 1, int(s.MsgFormat)
			case *sgip12.Submit:
				content, udhi, coding = s.MessageContent, s.TpUdhi == 1, int(s.MessageCoding)
			}
			resp := pdu.GenEmptyResponse()
			rsid, rok := -1, false
			if resp != nil && !reflect.ValueOf(resp).IsNil() {
				if rb, e := resp.IEncode(); e == nil {
					if back, e2 := dispatch(rb); e2 == nil && back != nil {
						rsid, rok = int(back.GetSequenceID()), back.GenEmptyResponse() == nil
					}
				}
			}
			key, total, index, rest, valid := 0, 0, 0, content, false
			if udhi {
				key, total, index, rest, valid = protocol.ParseLongSmsContent(content)
			}
			deliv := []int{-1}
			var whole []byte
			complete := false
			if !valid {
				whole, complete = []byte(rest), true
			} else {
				codingOf[key] = coding
				en := asm[key]
				if en == nil {
					en = &asmEntry{total: total, got: map[int][]byte{}}
					asm[key] = en
				}
				en.got[index] = []byte(rest)
				if len(en.got) == en.total {
					complete = true
					for k := 1; k <= en.total; k++ {
						whole = append(whole, en.got[k]...)
					}
					delete(asm, key)
				}
			}
			if complete {
				var txt string
				var e error
				if proto != "smpp34" {
					txt, e = protocol.DecodeCMPPCContent(ctx, string(whole), uint8(coding))
				} else {
					txt, e = protocol.DecodeSMPPCContent(ctx, string(whole), coding)
				}
				if e == nil {
					deliv = scalars(txt)
				} else {
					deliv = []int{-2}
				}
			}
			tr.emit(Ev{"ev": "GRecv", "sid": int(pdu.GetSequenceID()), "rsid": rsid, "rok": rok, "valid": valid, "key": key, "total": total, "index": index, "deliv": deliv, "site": site})
			if rok {
				// the response travels back and is matched by the SP
				tr.emit(Ev{"ev": "GAck", "sid": rsid, "site": site})
				delete(outstanding, rsid)
			}
		}
	}

	send := func(p part, resendOf int) {
		sid++
		b := buildPDU(p, sid)
		if resendOf > 0 {
			tr.emit(Ev{"ev": "GResend", "oldsid": resendOf, "sid": sid, "site": site})
		} else {
			tr.emit(Ev{"ev": "GSend", "m": p.m, "i": p.i, "sid": sid, "site": site})
		}
		outstanding[sid] = p
		// the PDU enters the byte stream in arbitrary pieces
		for off := 0; off < len(b); {
			k := 1 + rr.Intn(len(b)-off)
			if rr.Intn(3) == 0 {
				k = 1 + rr.Intn(minInt(len(b)-off, 5))
			}
			conn.chunks = append(conn.chunks, append([]byte{}, b[off:off+k]...))
			off += k
		}
	}

	for _, p := range unsent {
		send(p, 0)
		if rr.Intn(6) == 0 && len(outstanding) > 0 {
			// re-send some part that is still unanswered
			for s, q := range outstanding {
				send(q, s)
				break
			}
		}
		// the network delivers some of the pending chunks, the gateway works
		for len(conn.chunks) > 0 && rr.Intn(4) != 0 {
			conn.arrive()
			gatewayDrain()
		}
	}
	for len(conn.chunks) > 0 {
		conn.arrive()
		gatewayDrain()
	}
}

var _ sms.PDU
