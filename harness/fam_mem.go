package main

import (
	"context"
	"encoding/json"
	"math/rand"
	"reflect"
	"unsafe"

	protocol "github.com/hujm2023/go-sms-protocol"
	"github.com/hujm2023/go-sms-protocol/cmpp"
	"github.com/hujm2023/go-sms-protocol/cmpp/cmpp20"
	"github.com/hujm2023/go-sms-protocol/codec"
	"github.com/hujm2023/go-sms-protocol/datacoding"
	"github.com/hujm2023/go-sms-protocol/datacoding/gsm7encoding"
	"github.com/hujm2023/go-sms-protocol/packet"
	"github.com/hujm2023/go-sms-protocol/smgp"
	"github.com/hujm2023/go-sms-protocol/smgp/smgp30"
	"github.com/hujm2023/go-sms-protocol/smpp"
	"github.com/hujm2023/go-sms-protocol/smpp/smpp34"
)

// Family "mem" (C12): histories of library calls with the caller scribbling over
// every input buffer after decoding and over every returned output; after every
// step every earlier result is compared with its snapshot.

func init() {
	families["mem"] = family{gen: genMem, run: runMem}
}

func genMem(g *genCtx) {
	r := g.rng(12)
	nh, maxSteps := 120, 40
	if g.thorough() {
		nh, maxSteps = 2500, 1000
	}
	for i := 0; i < nh; i++ {
		seed := r.Int63()
		if !g.mine(i) {
			continue
		}
		steps := 1 + r.Intn(maxSteps)
		if g.thorough() && r.Intn(10) != 0 {
			steps = 1 + r.Intn(80)
		}
		g.emit(Case{"seed": seed, "steps": steps})
	}
}

type liveResult struct {
	id    int
	kind  string
	snap  string        // snapshot (JSON of the projection / copy of the bytes)
	read  func() string // re-reads the current content
	owned []byte        // for byte results: the slice the caller may scribble over
	pdu   codecPDU      // for decode results
	tn    string
}

func snapJSON(v interface{}) string {
	b, _ := json.Marshal(v)
	return string(b)
}

func runMem(c Case, tr *Tracer) {
	seedv := int64(caseInt(c, "seed"))
	if v, ok := c["seed"].(int64); ok {
		seedv = v
	}
	rr := rand.New(rand.NewSource(seedv))
	steps := caseInt(c, "steps")
	tr.emit(Ev{"ev": "Start", "site": "mem"})
	var live []*liveResult
	var forget []int
	nextID, nextIn := 1, 1
	changedSince := func() ([]int, string) {
		ch := []int{}
		site := ""
		for _, lr := range live {
			if lr.read() != lr.snap {
				ch = append(ch, lr.id)
				if site == "" {
					site = lr.kind
					if lr.tn != "" {
						site += ":" + lr.tn
					}
				}
				lr.snap = lr.read() // report each change once
			}
		}
		return ch, site
	}
	emit := func(e Ev, op string) {
		ch, site := changedSince()
		e["changed"] = ch
		if site == "" {
			site = "-"
		}
		e["site"] = site + "/" + op
		if _, ok := e["same"]; !ok {
			e["same"] = true
		}
		tr.emit(e)
		// results the caller has let go of leave the model too
		for _, id := range forget {
			tr.emit(Ev{"ev": "Forget", "r": id, "changed": []int{}, "same": true, "site": "-/Forget"})
		}
		forget = nil
	}
	add := func(lr *liveResult) {
		lr.snap = lr.read()
		live = append(live, lr)
		if len(live) > 10 {
			forget = append(forget, live[0].id)
			live = live[1:]
		}
	}
	cm, sm := codec.NewCMPPCodec(), codec.NewSMPPCodec()
	conn := &scriptedConn{fault: "eof"}
	// the same call twice in a row (a function-local pool or cache is hit again while the first result is held), and scripted
	// follow-ups (format the PDU that was just decoded)
	forceOp, forceSub, lastSub, bodyNext := -1, -1, -1, false
	var formatNext *liveResult
	for s := 0; s < steps; s++ {
		if forceSub == -2 {
			forceSub = -1
			if forceOp == 7 {
				forceSub = lastSub
			}
		}
		op := rr.Intn(18)
		if forceOp >= 0 {
			op, forceOp = forceOp, -1
		} else if r := rr.Intn(8); r == 0 {
			forceOp, forceSub = op, -2 // -2: the sub-case of this step, once known
		} else if r == 1 {
			op, bodyNext = 2, true
		}
		switch op {
		case 0, 1: // encode, then the caller scribbles over the returned bytes
			tn := typeNames[rr.Intn(len(typeNames))]
			a := defaultAssign(rr, tn, true)
			if rr.Intn(3) == 0 {
				tn, a = largeAssign(rr)
			}
			ref, err0 := build(tn, a).IEncode()
			out, err := build(tn, a).IEncode()
			if err != nil || err0 != nil {
				continue
			}
			id := nextID
			nextID++
			lr := &liveResult{id: id, kind: "encode", tn: tn, owned: out}
			lr.read = func() string { return string(lr.owned) }
			same := string(out) == string(ref) || tailField(tn) != "" // optional parameters are emitted in map order
			add(lr)
			emit(Ev{"ev": "Encode", "r": id, "type": tn, "same": same}, "Encode")
			full := out[:cap(out)]
			for i := range full {
				full[i] = 0xDD
			}
			lr.snap = lr.read()
			emit(Ev{"ev": "ScribbleResult", "r": id}, "ScribbleResult")
		case 2, 3: // decode from a caller buffer, then scribble over that buffer
			tn := typeNames[rr.Intn(len(typeNames))]
			if rr.Intn(3) == 0 { // the PDUs with lists, bodies and optional parameters come up more often
				tn = richTypes()[rr.Intn(len(richTypes()))]
			}
			if bodyNext {
				tn = []string{"smpp34.SubmitSm", "smpp34.DeliverSm", "cmpp20.PduSubmit", "cmpp30.Deliver", "smgp30.Submit", "sgip12.Deliver"}[rr.Intn(6)]
			}
			a := defaultAssign(rr, tn, true)
			if bodyNext {
				for _, f := range layouts[tn].Fields {
					if f.K == "B" {
						a[f.N] = fval{b: randBytes(rr, 67+rr.Intn(180))}
					}
				}
				fixCounts(tn, a)
			}
			if tf := tailField(tn); tf != "" && rr.Intn(2) == 0 {
				// binary optional parameters (sar_* and the like)
				a[tf] = fval{tlvs: []tlvVal{{0x020c, []byte{0, byte(rr.Intn(256))}}, {0x020e, []byte{byte(rr.Intn(32))}}, {5 + rr.Intn(3), randBytes(rr, 1+rr.Intn(6))}}}
			}
			img, err := build(tn, a).IEncode()
			if err != nil {
				continue
			}
			in := append([]byte{}, img...)
			iid := nextIn
			nextIn++
			emit(Ev{"ev": "NewInput", "i": iid}, "NewInput")
			p := ctors[tn]()
			if tn != "cmpp.SubPduDeliveryContent" && rr.Intn(2) == 0 {
				// through the package's dispatcher: every decoded PDU is an object of its own
				dt, dp := dispatchName(tn[:6], in)
				cp, ok := dp.(codecPDU)
				if dt != tn || !ok {
					continue
				}
				p = cp
			} else if p.IDecode(in) != nil {
				continue
			}
			refp := ctors[tn]()
			_ = refp.IDecode(append([]byte{}, img...))
			id := nextID
			nextID++
			lr := &liveResult{id: id, kind: "decode", tn: tn, pdu: p}
			lr.read = func() string { return snapJSON(project(tn, lr.pdu)) }
			add(lr)
			emit(Ev{"ev": "Decode", "r": id, "i": iid, "type": tn, "same": lr.snap == snapJSON(project(tn, refp))}, "Decode")
			for i := range in {
				in[i] = 0xEE
			}
			emit(Ev{"ev": "Scribble", "i": iid}, "Scribble")
			if bodyNext {
				bodyNext, forceOp, formatNext = false, 4, lr
			}
		case 12: // the blocking frame extractor hands out a frame of the caller's own
			tn := typeNames[1+rr.Intn(len(typeNames)-1)]
			img, err := build(tn, defaultAssign(rr, tn, true)).IEncode()
			if err != nil || len(img) < 16 {
				continue
			}
			bconn := &scriptedConn{fault: "eof"}
			for off := 0; off < len(img); {
				k := 1 + rr.Intn(len(img)-off)
				bconn.chunks = append(bconn.chunks, append([]byte{}, img[off:off+k]...))
				off += k
			}
			cd := codec.Codec(cm)
			if tn[:4] == "smpp" {
				cd = sm
			}
			frame, err := cd.DecodeBlocked(bconn)
			if err != nil {
				continue
			}
			id := nextID
			nextID++
			lr := &liveResult{id: id, kind: "frameB", tn: tn, owned: frame}
			lr.read = func() string { return string(lr.owned) }
			add(lr)
			emit(Ev{"ev": "Codec", "r": id, "fn": "DecodeBlocked", "same": string(frame) == string(img)}, "Codec")
		case 14: // the caller's own packet.Writer stays in use while the library encodes (sometimes after an encode that failed)
			if rr.Intn(2) == 0 {
				ftn := []string{"smgp30.Submit", "cmpp20.PduSubmit", "cmpp30.Deliver", "sgip12.Bind", "smgp30.Login", "cmpp30.Submit", "cmpp30.Connect",
					"sgip12.Submit", "smgp30.Deliver", "cmpp20.PduDeliver"}[rr.Intn(10)]
				fa := defaultAssign(rr, ftn, true)
				for _, f := range layouts[ftn].Fields {
					if f.K == "F" {
						fa[f.N] = fval{b: nulFree(rr, f.W+1+rr.Intn(5))}
						break
					}
				}
				_, _ = build(ftn, fa).IEncode()
			}
			hw := packet.NewPacketWriter()
			own := nulFree(rr, 1+rr.Intn(40))
			hw.WriteBytes(own)
			id := nextID
			nextID++
			lr := &liveResult{id: id, kind: "writer", tn: "packet.Writer"}
			lr.read = func() string { b, _ := hw.Bytes(); return string(b) }
			add(lr)
			emit(Ev{"ev": "Codec", "r": id, "fn": "packet.Writer", "same": lr.snap == string(own)}, "Codec")
		case 17: // a text codec built over the caller's own octets (a field of a PDU it holds, a read buffer): the codec reads them
			names := []string{"Latin1", "Ascii", "UCS2", "GB18030", "GSM7Unpacked", "GSM7Packed"}
			ci := rr.Intn(len(names))
			mkb := []func([]byte) datacoding.Codec{
				func(b []byte) datacoding.Codec { return datacoding.Latin1(b) },
				func(b []byte) datacoding.Codec { return datacoding.Ascii(b) },
				func(b []byte) datacoding.Codec { return datacoding.UCS2(b) },
				func(b []byte) datacoding.Codec { return datacoding.GB18030(b) },
				func(b []byte) datacoding.Codec { return datacoding.GSM7Unpacked(b) },
				func(b []byte) datacoding.Codec { return datacoding.GSM7Packed(b) },
			}[ci]
			txt := textFrom(rr, 1+rr.Intn(60), "abc XYZ 0189")
			if ci == 2 || ci == 3 {
				txt = textFrom(rr, 1+rr.Intn(40), "abc XYZ 0189中文é")
			}
			decode := rr.Intn(2) == 0
			src := []byte(txt)
			if decode {
				enc, e := mkb(src).Encode()
				if e != nil {
					continue
				}
				src = append([]byte{}, enc...)
				if ci == 2 && rr.Intn(3) == 0 && len(src)%2 == 0 {
					// UCS-2 with a byte-order mark, big- or little-endian (octet pairs swapped)
					if rr.Intn(2) == 0 {
						src = append([]byte{0xFE, 0xFF}, src...)
					} else {
						for i := 0; i+1 < len(src); i += 2 {
							src[i], src[i+1] = src[i+1], src[i]
						}
						src = append([]byte{0xFF, 0xFE}, src...)
					}
				}
			}
			before := string(src)
			iid := nextIn
			nextIn++
			emit(Ev{"ev": "NewInput", "i": iid}, "NewInput")
			cd := mkb(src)
			var out, ref []byte
			var err, rerr error
			if decode {
				out, err = cd.Decode()
				ref, rerr = mkb([]byte(before)).Decode()
			} else {
				out, err = cd.Encode()
				ref, rerr = mkb([]byte(before)).Encode()
			}
			if err != nil || rerr != nil {
				continue
			}
			id := nextID
			nextID++
			lr := &liveResult{id: id, kind: "codec", tn: "datacoding." + names[ci], owned: out}
			lr.read = func() string { return string(lr.owned) }
			add(lr)
			// same: the answer is right, and the caller's octets are what they were
			emit(Ev{"ev": "Decode", "r": id, "i": iid, "type": "datacoding." + names[ci], "same": string(out) == string(ref) && string(src) == before}, "Decode")
			for i := range src {
				src[i] = 0xEE
			}
			emit(Ev{"ev": "Scribble", "i": iid}, "Scribble")
		case 16: // the owner of a decoded PDU writes to it: containers, byte members, octets behind the entries' accessors
			var decs []*liveResult
			for _, lr := range live {
				if lr.kind == "decode" && lr.pdu != nil {
					decs = append(decs, lr)
				}
			}
			if len(decs) == 0 {
				continue
			}
			own := decs[rr.Intn(len(decs))]
			callerMutates(own.pdu)
			own.snap = own.read()
			emit(Ev{"ev": "ScribbleResult", "r": own.id}, "ScribbleResult")
		case 15: // a held result goes through a short-lived writer of the caller (prefix a frame, copy it on): the writer is given back
			var held []*liveResult
			for _, lr := range live {
				if len(lr.owned) > 0 {
					held = append(held, lr)
				}
			}
			if len(held) == 0 {
				continue
			}
			src := held[rr.Intn(len(held))]
			k := 1 + rr.Intn(len(src.owned))
			sw := packet.NewPacketWriter()
			sw.WriteBytes(src.owned[:k])
			if rr.Intn(2) == 0 {
				sw.WriteUint8(0x5A)
			}
			cp, _ := sw.Bytes()
			want := string(src.owned[:k])
			if len(cp) == k+1 {
				want += "\x5a"
			}
			sw.Release()
			id := nextID
			nextID++
			lr := &liveResult{id: id, kind: "codec", tn: "packet.Writer", owned: cp}
			lr.read = func() string { return string(lr.owned) }
			add(lr)
			emit(Ev{"ev": "Codec", "r": id, "fn": "packet.Writer.relay", "same": string(cp) == want}, "Codec")
		case 13: // a decode that fails half-way: the error it returns is a value too, and the input is reused afterwards
			tn := typeNames[rr.Intn(len(typeNames))]
			img, err := build(tn, defaultAssign(rr, tn, true)).IEncode()
			if err != nil || len(img) < 8 {
				continue
			}
			in := append([]byte{}, img[:4+rr.Intn(len(img)-4)]...)
			iid := nextIn
			nextIn++
			emit(Ev{"ev": "NewInput", "i": iid}, "NewInput")
			var derr error
			if tn != "cmpp.SubPduDeliveryContent" && rr.Intn(2) == 0 {
				_, derr = dispatchers[tn[:6]](in)
			} else {
				derr = ctors[tn]().IDecode(in)
			}
			if derr == nil {
				continue
			}
			id := nextID
			nextID++
			lr := &liveResult{id: id, kind: "error", tn: tn}
			held := derr
			lr.read = func() string { return held.Error() }
			add(lr)
			emit(Ev{"ev": "Decode", "r": id, "i": iid, "type": tn, "same": true}, "Decode")
			for i := range in {
				in[i] = 0xEE
			}
			emit(Ev{"ev": "Scribble", "i": iid}, "Scribble")
		case 11: // keep-alive traffic: two frames of one header-only type, different sequence numbers, through the dispatcher
			var small []string
			for _, tn := range typeNames {
				if len(layouts[tn].Fields) <= 3 && tn != "cmpp.SubPduDeliveryContent" {
					small = append(small, tn)
				}
			}
			tn := small[rr.Intn(len(small))]
			for k := 0; k < 2; k++ {
				a := defaultAssign(rr, tn, true)
				setCmd(tn, a)
				img, err := build(tn, a).IEncode()
				if err != nil {
					break
				}
				iid := nextIn
				nextIn++
				emit(Ev{"ev": "NewInput", "i": iid}, "NewInput")
				dt, dp := dispatchName(tn[:6], append([]byte{}, img...))
				cp, ok := dp.(codecPDU)
				if dt != tn || !ok {
					break
				}
				refp := ctors[tn]()
				_ = refp.IDecode(append([]byte{}, img...))
				id := nextID
				nextID++
				lr := &liveResult{id: id, kind: "decode", tn: tn, pdu: cp}
				lr.read = func() string { return snapJSON(project(lr.tn, lr.pdu)) }
				add(lr)
				emit(Ev{"ev": "Decode", "r": id, "i": iid, "type": tn, "same": lr.snap == snapJSON(project(tn, refp))}, "Decode")
			}
		case 10: // the caller keeps the lists / byte fields of a decoded PDU and decodes the next frame into the same object
			var decs []*liveResult
			for _, lr := range live {
				if lr.kind == "decode" && lr.pdu != nil && hasListField(lr.tn) {
					decs = append(decs, lr)
				}
			}
			if len(decs) == 0 {
				// decode a PDU with a destination list first
				tn := listTypes()[rr.Intn(len(listTypes()))]
				a := defaultAssign(rr, tn, true)
				for _, f := range layouts[tn].Fields {
					if f.K == "L" {
						l := make([][]byte, 2+rr.Intn(4))
						for i := range l {
							l[i] = nulFree(rr, 1+rr.Intn(f.W))
						}
						a[f.N] = fval{list: l}
					}
				}
				fixCounts(tn, a)
				img, err := build(tn, a).IEncode()
				if err != nil {
					continue
				}
				iid := nextIn
				nextIn++
				emit(Ev{"ev": "NewInput", "i": iid}, "NewInput")
				p := ctors[tn]()
				if p.IDecode(append([]byte{}, img...)) != nil {
					continue
				}
				id := nextID
				nextID++
				lr := &liveResult{id: id, kind: "decode", tn: tn, pdu: p}
				lr.read = func() string { return snapJSON(project(tn, lr.pdu)) }
				add(lr)
				emit(Ev{"ev": "Decode", "r": id, "i": iid, "type": tn, "same": true}, "Decode")
				decs = append(decs, lr)
			}
			old := decs[rr.Intn(len(decs))]
			root := reflect.ValueOf(old.pdu).Elem()
			var heldLists [][]string
			var heldBytes [][]byte
			for _, f := range layouts[old.tn].Fields {
				fv := resolve(root, f.Go)
				switch v := fv.Interface().(type) {
				case []string:
					heldLists = append(heldLists, v)
				case []byte:
					heldBytes = append(heldBytes, v)
				}
			}
			if len(heldLists)+len(heldBytes) == 0 {
				continue
			}
			// the object is used again: its old content is given up, the fields taken out of it are not
			for i, lr := range live {
				if lr == old {
					live = append(live[:i], live[i+1:]...)
					forget = append(forget, old.id)
					break
				}
			}
			id := nextID
			nextID++
			fl := &liveResult{id: id, kind: "fields", tn: old.tn}
			fl.read = func() string { return snapJSON([]interface{}{heldLists, heldBytes}) }
			add(fl)
			emit(Ev{"ev": "Codec", "r": id, "fn": "fields of a decoded " + old.tn, "same": true}, "Codec")
			img, err := build(old.tn, defaultAssign(rr, old.tn, true)).IEncode()
			if err != nil {
				emit(Ev{"ev": "NewInput", "i": nextIn}, "NewInput")
				nextIn++
				continue
			}
			iid := nextIn
			nextIn++
			emit(Ev{"ev": "NewInput", "i": iid}, "NewInput")
			if old.pdu.IDecode(append([]byte{}, img...)) != nil {
				continue
			}
			nid := nextID
			nextID++
			nr := &liveResult{id: nid, kind: "decode", tn: old.tn, pdu: old.pdu}
			nr.read = func() string { return snapJSON(project(nr.tn, nr.pdu)) }
			add(nr)
			emit(Ev{"ev": "Decode", "r": nid, "i": iid, "type": old.tn, "same": true}, "Decode")
		case 4: // String() of a PDU: a fresh one, or (every second time) a decoded one the caller still holds
			tn := typeNames[rr.Intn(len(typeNames))]
			var obj interface{} = build(tn, defaultAssign(rr, tn, true))
			if formatNext != nil {
				tn, obj, formatNext = formatNext.tn, formatNext.pdu, nil
			} else if rr.Intn(2) == 0 {
				var decs []*liveResult
				for _, lr := range live {
					if lr.kind == "decode" && lr.pdu != nil {
						decs = append(decs, lr)
					}
				}
				if len(decs) > 0 {
					lr := decs[rr.Intn(len(decs))]
					tn, obj = lr.tn, lr.pdu
				}
			}
			sp, ok := obj.(interface{ String() string })
			if !ok {
				continue
			}
			str := sp.String()
			ref := sp.String()
			id := nextID
			nextID++
			lr := &liveResult{id: id, kind: "string", tn: tn}
			held := str
			lr.read = func() string { return string(append([]byte{}, held...)) }
			add(lr)
			emit(Ev{"ev": "String", "r": id, "type": tn, "same": str == ref || tailField(tn) != ""}, "String")
		case 5: // split / UCS-2 helper
			if rr.Intn(2) == 0 {
				txt := randText(rr, 1+rr.Intn(300))
				if rr.Intn(3) == 0 {
					txt = textFrom(rr, 1+rr.Intn(140), "abc XYZ 0189.,") // fits one part in every coding
				}
				var parts [][]byte
				var err error
				if rr.Intn(3) == 0 {
					parts, _, err = protocol.EncodeCMPPContentAndSplit(context.Background(), txt, datacoding.CMPPDataCoding([]int{0, 8, 9, 15}[rr.Intn(4)]), byte(rr.Intn(256)))
				} else {
					parts, _, err = protocol.EncodeSMPPContentAndSplit(context.Background(), txt, datacoding.SMPPDataCoding([]int{0, 1, 3, 8, 99}[rr.Intn(5)]), byte(rr.Intn(256)))
				}
				if err != nil {
					continue
				}
				id := nextID
				nextID++
				lr := &liveResult{id: id, kind: "split"}
				lr.read = func() string { return snapJSON(parts) }
				add(lr)
				emit(Ev{"ev": "Split", "r": id}, "Split")
				keep := string(append([]byte{}, txt...)) // a copy in memory of its own
				// every part is the caller's, spare capacity included: writing all over one part leaves the others alone
				shared := false
				before := make([]string, len(parts))
				for i, p := range parts {
					before[i] = string(p)
				}
				for i, p := range parts {
					full := p[:cap(p)]
					for k := range full {
						full[k] = byte(0xD0 + i%16)
					}
					for j := i + 1; j < len(parts); j++ {
						if string(parts[j]) != before[j] {
							shared = true
						}
					}
				}
				lr.snap = lr.read()
				e := Ev{"ev": "ScribbleResult", "r": id, "shared": shared}
				if txt != keep {
					// the parts handed out were the memory of the caller's own text
					e["same"] = false
				}
				emit(e, "ScribbleResult")
			} else {
				txt := randText(rr, rr.Intn(200))
				s1 := cmpp.Utf8ToUcs2Pooled(txt)
				id := nextID
				nextID++
				lr := &liveResult{id: id, kind: "ucs2"}
				lr.read = func() string { return string(append([]byte{}, s1...)) }
				add(lr)
				emit(Ev{"ev": "Ucs2", "r": id, "same": s1 == cmpp.Utf8ToUcs2Back(txt)}, "Ucs2")
			}
		case 7: // text codecs and the GSM 7-bit function set: byte results belong to the caller
			txt := textFrom(rr, 1+rr.Intn(120), "abc XYZ 0189@[]{}€é\f")
			var out, ref []byte
			var err error
			name := ""
			sub := rr.Intn(17)
			if forceSub >= 0 {
				sub, forceSub = forceSub, -1
			}
			lastSub = sub
			switch sub {
			case 0, 4, 5:
				name = "gsm7encoding.Decode"
				sep, e := gsm7encoding.Encode(txt)
				if e != nil {
					continue
				}
				out, err = gsm7encoding.Decode(sep)
				ref = []byte(txt)
			case 1:
				name = "gsm7encoding.Encode"
				out, err = gsm7encoding.Encode(txt)
				ref, _ = gsm7encoding.Encode(txt)
			case 16: // the caller packs a held septet result window by window (what a splitter of its own does)
				sep, e := gsm7encoding.Encode(textFrom(rr, 40+rr.Intn(200), "abc XYZ 0189@[]{}"))
				if e != nil {
					continue
				}
				hid := nextID
				nextID++
				hl := &liveResult{id: hid, kind: "codec", tn: "gsm7encoding.Encode", owned: sep}
				hl.read = func() string { return string(hl.owned) }
				add(hl)
				emit(Ev{"ev": "Codec", "r": hid, "fn": "gsm7encoding.Encode", "same": true}, "Codec")
				w := []int{7, 15, 8, 153, 152, 151, 23}[rr.Intn(7)]
				if w > len(sep) {
					w = 7
				}
				name = "gsm7encoding.Pack"
				out = gsm7encoding.Pack(sep[:w])
				ref = gsm7encoding.Pack(append([]byte{}, sep[:w]...))
			case 2:
				name = "gsm7encoding.Pack"
				sep, e := gsm7encoding.Encode(txt)
				if e != nil {
					continue
				}
				out = gsm7encoding.Pack(sep)
				ref = gsm7encoding.Pack(sep)
			case 3:
				name = "gsm7encoding.Unpack"
				sep, e := gsm7encoding.Encode(txt)
				if e != nil {
					continue
				}
				out = gsm7encoding.Unpack(gsm7encoding.Pack(sep))
				ref = gsm7encoding.Unpack(gsm7encoding.Pack(sep))
			case 6: // serialised optional parameters
				name = "smpp.TLVs.Bytes"
				var t smpp.TLVs
				for k := 0; k < 1+rr.Intn(3); k++ {
					t.SetTLV(smpp.NewTLV(uint16(0x1400+rr.Intn(4)), randBytes(rr, rr.Intn(20))))
				}
				out = t.Bytes()
				ref = nil
				if len(t) == 1 {
					ref = t.Bytes()
				} else {
					ref = out // several parameters are emitted in map order: only ownership is judged
				}
			case 7:
				name = "smgp.Options.Serialize"
				o := smgp.Options{}
				o.Add(smgp.NewOption(smgp.Tag(1+rr.Intn(10)), randBytes(rr, rr.Intn(20))))
				out, ref = o.Serialize(), o.Serialize()
			case 9: // headers, single triplets, authenticators, validators
				switch rr.Intn(7) {
				case 0:
					name = "cmpp.Header.Bytes"
					h := cmpp.NewHeader(rr.Uint32(), cmpp.CommandSubmit, rr.Uint32())
					out, ref = h.Bytes(), h.Bytes()
				case 1:
					name = "smgp.Header.Bytes"
					h := smgp.NewHeader(rr.Uint32(), smgp.CommandSubmit, rr.Uint32())
					out, ref = h.Bytes(), h.Bytes()
				case 2:
					name = "smpp.TLV.Bytes"
					t := smpp.NewTLV(uint16(rr.Intn(65536)), randBytes(rr, rr.Intn(30)))
					out, ref = t.Bytes(), t.Bytes()
				case 3:
					name = "smgp.Option.Bytes"
					o := smgp.NewOption(smgp.Tag(rr.Intn(20)), randBytes(rr, rr.Intn(30)))
					out, ref = o.Bytes(), o.Bytes()
				case 4:
					name = "cmpp.GenConnectAuth"
					acc, sec := string(nulFree(rr, rr.Intn(7))), string(nulFree(rr, rr.Intn(20)))
					out, ref = cmpp.GenConnectAuth(acc, sec, "0102030405"), cmpp.GenConnectAuth(acc, sec, "0102030405")
				case 5:
					name = "cmpp.GenConnectRespAuthISMG"
					st, auth, sec := randBytes(rr, 1+rr.Intn(4)), string(randBytes(rr, 16)), string(nulFree(rr, rr.Intn(20)))
					out, ref = cmpp.GenConnectRespAuthISMG(st, auth, sec), cmpp.GenConnectRespAuthISMG(st, auth, sec)
				default:
					name = "gsm7encoding.ValidateGSM7Buffer"
					b := randBytes(rr, 1+rr.Intn(40))
					out, ref = gsm7encoding.ValidateGSM7Buffer(b), gsm7encoding.ValidateGSM7Buffer(b)
				}
			case 10: // strings handed out by the content decoders and the header parser
				txt2 := textFrom(rr, 1+rr.Intn(60), "abc XYZ 0189中文")
				enc, e := datacoding.UCS2(txt2).Encode()
				if e != nil {
					continue
				}
				if rr.Intn(2) == 0 {
					name = "DecodeSMPPCContent"
					str, e2 := protocol.DecodeSMPPCContent(context.Background(), string(enc), 8)
					if e2 != nil {
						continue
					}
					out, ref = strBytes(str), []byte(txt2)
				} else {
					name = "ParseLongSmsContent"
					udh := string([]byte{5, 0, 3, byte(rr.Intn(256)), 2, 1}) + string(enc)
					_, _, _, rest, _ := protocol.ParseLongSmsContent(udh)
					out, ref = strBytes(rest), enc
				}
			case 8: // strings are results too
				name = "cmpp.MsgID2String"
				id := rr.Uint64()
				out = strBytes(cmpp.MsgID2String(id))
				ref = []byte(cmpp.MsgID2String(id))
			default:
				mk := []func(string) datacoding.Codec{
					func(x string) datacoding.Codec { return datacoding.GSM7Packed(x) },
					func(x string) datacoding.Codec { return datacoding.GSM7Unpacked(x) },
					func(x string) datacoding.Codec { return datacoding.UCS2(x) },
					func(x string) datacoding.Codec { return datacoding.GB18030(x) },
					func(x string) datacoding.Codec { return datacoding.Latin1(x) },
					func(x string) datacoding.Codec { return datacoding.Ascii(x) },
				}[rr.Intn(6)]
				switch mk("").Name() {
				case datacoding.DataCodingUcs2, datacoding.DataCodingGB18030:
					txt = randText(rr, 1+rr.Intn(120))
				case datacoding.DataCodingASCII, datacoding.DataCodingLatin1:
					txt = textFrom(rr, 1+rr.Intn(120), "abc XYZ 0189@[]{}~")
				}
				enc, e := mk(txt).Encode()
				if e != nil {
					continue
				}
				if rr.Intn(2) == 0 {
					name = string(mk("").Name()) + ".Encode"
					out, ref = enc, nil
					ref, _ = mk(txt).Encode()
				} else {
					name = string(mk("").Name()) + ".Decode"
					out, err = mk(string(enc)).Decode()
					ref, _ = mk(string(enc)).Decode()
				}
			}
			if err != nil {
				continue
			}
			id := nextID
			nextID++
			lr := &liveResult{id: id, kind: "codec", tn: name, owned: out}
			lr.read = func() string { return string(lr.owned) }
			add(lr)
			emit(Ev{"ev": "Codec", "r": id, "fn": name, "same": string(out) == string(ref)}, "Codec")
			if name == "cmpp.MsgID2String" {
				// the next id is rendered while the first string is still held (a batch of receipts is logged)
				id2 := nextID
				nextID++
				o2 := strBytes(cmpp.MsgID2String(rr.Uint64() | 1))
				l2 := &liveResult{id: id2, kind: "codec", tn: name, owned: o2}
				l2.read = func() string { return string(l2.owned) }
				add(l2)
				emit(Ev{"ev": "Codec", "r": id2, "fn": name, "same": true}, "Codec")
			}
			if name != "cmpp.MsgID2String" && name != "DecodeSMPPCContent" && name != "ParseLongSmsContent" { // (a string cannot be written to; it is only held and read again later)
				full := out[:cap(out)]
				for i := range full {
					full[i] = 0xDD
				}
				lr.snap = lr.read()
				emit(Ev{"ev": "ScribbleResult", "r": id}, "ScribbleResult")
			}
		case 8: // the batch encoder, asked again on the same builder: every Build hands out memory of its own
			txt := randText(rr, 1+rr.Intn(300))
			proto := []string{"CMPP", "SMPP"}[rr.Intn(2)]
			var pdc []datacoding.ProtocolDataCoding
			for _, x := range batchValid[proto] {
				if rr.Intn(2) == 0 {
					pdc = append(pdc, toPDC(proto, x))
				}
			}
			b := protocol.NewBatchDataCodingEncoder().Protocol(protocol.Protocol(proto)).Content(txt, byte(rr.Intn(256))).DataCodings(pdc)
			var first string
			for k := 0; k < 2; k++ {
				parts, _, err := b.Build(context.Background())
				if err != nil {
					break
				}
				id := nextID
				nextID++
				lr := &liveResult{id: id, kind: "build", tn: proto}
				held := parts
				lr.read = func() string { return snapJSON(held) }
				add(lr)
				if k == 0 {
					first = lr.snap
				}
				emit(Ev{"ev": "Build", "r": id, "same": lr.snap == first}, "Build")
				for _, p := range parts {
					full := p[:cap(p)]
					for i := range full {
						full[i] = 0xDD
					}
				}
				lr.snap = lr.read()
				emit(Ev{"ev": "ScribbleResult", "r": id}, "ScribbleResult")
			}
		case 9: // packet-building helpers: each call hands out a packet of its own
			seq := rr.Uint32()
			fns := []struct {
				n string
				f func(uint32) []byte
			}{
				{"cmpp20.NewTerminatePacket", cmpp20.NewTerminatePacket}, {"cmpp20.NewActiveTestPacket", cmpp20.NewActiveTestPacket},
				{"smpp34.NewEnquireLinkReqBytes", smpp34.NewEnquireLinkReqBytes}, {"smpp34.NewEnquireLinkRespBytes", smpp34.NewEnquireLinkRespBytes},
				{"smpp34.NewUnBindRespBytes", smpp34.NewUnBindRespBytes}, {"smpp34.NewDeliverySMRespBytes", smpp34.NewDeliverySMRespBytes},
				{"smpp34.NewUnBindBytes", smpp34.NewUnBindBytes}, {"smgp30.NewActiveTestPacket", smgp30.NewActiveTestPacket},
			}
			h := fns[rr.Intn(len(fns))]
			n := 1 + rr.Intn(2)
			for k := 0; k < n; k++ {
				out := h.f(seq + uint32(k))
				ref := h.f(seq + uint32(k))
				id := nextID
				nextID++
				lr := &liveResult{id: id, kind: "helper", tn: h.n, owned: out}
				lr.read = func() string { return string(lr.owned) }
				off := 8 // sequence identifier: CMPP / SMGP octets 8..11, SMPP octets 12..15
				if h.n[:4] == "smpp" {
					off = 12
				}
				same := string(out) == string(ref) && len(out) >= off+4 && beUint(out[off:off+4]) == uint64(seq+uint32(k))
				add(lr)
				emit(Ev{"ev": "Helper", "r": id, "fn": h.n, "same": same}, "Helper")
				if rr.Intn(2) == 0 {
					full := out[:cap(out)]
					for i := range full {
						full[i] = 0xDD
					}
					lr.snap = lr.read()
					emit(Ev{"ev": "ScribbleResult", "r": id}, "ScribbleResult")
				}
			}
		case 6: // zero-copy frame extractor + decoder, then the reader refills
			tn := typeNames[1+rr.Intn(len(typeNames)-1)]
			a := defaultAssign(rr, tn, true)
			img, err := build(tn, a).IEncode()
			if err != nil || len(img) < 16 {
				continue
			}
			conn.chunks = append(conn.chunks, append([]byte{}, img...))
			conn.arrive()
			cd := codec.Codec(cm)
			if tn[:4] == "smpp" {
				cd = sm
			}
			frame, err := cd.Decode(conn)
			if err != nil {
				continue
			}
			fid := nextID
			nextID++
			fr := &liveResult{id: fid, kind: "frame"}
			fr.read = func() string { return string(frame) }
			add(fr)
			emit(Ev{"ev": "FrameDecode", "r": fid, "same": string(frame) == string(img)}, "FrameDecode")
			p := ctors[tn]()
			if p.IDecode(frame) != nil {
				continue
			}
			id := nextID
			nextID++
			lr := &liveResult{id: id, kind: "decode", tn: tn, pdu: p}
			lr.read = func() string { return snapJSON(project(tn, lr.pdu)) }
			add(lr)
			emit(Ev{"ev": "Decode", "r": id, "i": 0, "type": tn}, "Decode")
			// the reader receives more data and reuses its buffer
			conn.chunks = append(conn.chunks, bytesOf(0xEE, len(img)+rr.Intn(40)))
			conn.arrive()
			conn.Discard(conn.Size())
			emit(Ev{"ev": "Refill"}, "Refill")
		}
	}
}

// strBytes views the memory of a string without copying it (read-only use: to see whether a later call changes it)
func strBytes(s string) []byte {
	if s == "" {
		return nil
	}
	return unsafe.Slice((*byte)(unsafe.Pointer((*reflect.StringHeader)(unsafe.Pointer(&s)).Data)), len(s))
}

func hasListField(tn string) bool {
	for _, f := range layouts[tn].Fields {
		if f.K == "L" {
			return true
		}
	}
	return false
}

var richTypesCache []string

// richTypes: PDU types with a destination list, a message body or optional parameters, and the header-only ones
func richTypes() []string {
	if richTypesCache == nil {
		for _, tn := range typeNames {
			n := 0
			for _, f := range layouts[tn].Fields {
				if f.K == "L" || f.K == "B" || f.K == "T" || f.K == "O" {
					n = 100
				}
				n++
			}
			if n >= 100 || n <= 3 {
				richTypesCache = append(richTypesCache, tn)
			}
		}
	}
	return richTypesCache
}

var listTypesCache []string

func listTypes() []string {
	if listTypesCache == nil {
		for _, tn := range typeNames {
			if hasListField(tn) {
				listTypesCache = append(listTypesCache, tn)
			}
		}
	}
	return listTypesCache
}

func randText(r *rand.Rand, n int) string {
	return textFrom(r, n, "abc XYZ 0189@[]{}€é中文😀")
}

func textFrom(r *rand.Rand, n int, chars string) string {
	rs := make([]rune, n)
	pool := []rune(chars)
	for i := range rs {
		rs[i] = pool[r.Intn(len(pool))]
	}
	return string(rs)
}

// largeAssign: a PDU of several KiB (many destinations, long bodies, big optional values)
func largeAssign(rr *rand.Rand) (string, assign) {
	big := []string{"cmpp20.PduSubmit", "cmpp30.Submit", "sgip12.Submit", "smgp30.Submit", "sgip12.Deliver", "smpp34.SubmitSm", "smpp34.DeliverSm"}
	tn := big[rr.Intn(len(big))]
	a := defaultAssign(rr, tn, true)
	for _, f := range layouts[tn].Fields {
		switch f.K {
		case "L":
			var l [][]byte
			for i := 60 + rr.Intn(196); i > 0; i-- {
				l = append(l, nulFree(rr, f.W))
			}
			a[f.N] = fval{list: l}
		case "B":
			for i, g := range layouts[tn].Fields {
				if g.N == f.N && layouts[tn].Fields[i-1].W == 4 {
					a[f.N] = fval{b: randBytes(rr, 2000+rr.Intn(6000))}
				}
			}
		case "T", "O":
			a[f.N] = fval{tlvs: []tlvVal{{0x1401, randBytes(rr, 3000+rr.Intn(3000))}, {5, randBytes(rr, 10)}}}
		}
	}
	fixCounts(tn, a)
	return tn, a
}
