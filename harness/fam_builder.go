package main

import (
	"context"
	"math/rand"

	protocol "github.com/hujm2023/go-sms-protocol"
	"github.com/hujm2023/go-sms-protocol/datacoding"
)

// Family "builder" (C09): histories of setter calls and Builds on ONE BatchDataCodingEncoder.
// A case is a script; scripts come from the generator below and from behaviours TLC generates
// from Gen_Builder.tla.  Every step is one event; a Build event carries what was observed only.

func init() {
	families["builder"] = family{gen: genBuilder, run: runBuilder}
}

// contents by index (0 = empty)
func builderContents() []string {
	return append([]string{""}, "hello world", "price: 5€ [ok]", "你好 hello", "café", batchContents()[9], batchContents()[18])
}

func genBuilder(g *genCtx) {
	r := g.rng(21)
	n := 80
	if g.thorough() {
		n = 3000
	}
	for i := 0; i < n; i++ {
		rr := rand.New(rand.NewSource(r.Int63()))
		if !g.mine(i) {
			continue
		}
		var script []interface{}
		proto := []string{"CMPP", "SMPP"}[rr.Intn(2)]
		script = append(script, map[string]interface{}{"a": "proto", "v": []interface{}{proto}},
			map[string]interface{}{"a": "content", "v": []int{1 + rr.Intn(len(builderContents())-1)}})
		for j := 2 + rr.Intn(10); j > 0; j-- {
			switch rr.Intn(8) {
			case 0:
				script = append(script, map[string]interface{}{"a": "proto", "v": []interface{}{[]string{"CMPP", "SMPP"}[rr.Intn(2)]}})
			case 1:
				script = append(script, map[string]interface{}{"a": "content", "v": []int{rr.Intn(len(builderContents()))}})
			case 2, 3:
				pool := []int{0, 1, 3, 8, 9, 15, 99, 7}
				k := rr.Intn(4)
				l := make([]int, k)
				for x := range l {
					l[x] = pool[rr.Intn(len(pool))]
				}
				script = append(script, map[string]interface{}{"a": "codings", "v": l})
			case 4, 5:
				script = append(script, map[string]interface{}{"a": "origin", "v": []int{[]int{-1, 0, 1, 3, 8, 9, 15, 99, 7}[rr.Intn(9)]}})
			default:
				script = append(script, map[string]interface{}{"a": "build", "v": []int{}})
			}
		}
		script = append(script, map[string]interface{}{"a": "build", "v": []int{}})
		g.emit(Case{"steps": script})
	}
}

func runBuilder(c Case, tr *Tracer) {
	tr.emit(Ev{"ev": "New", "site": "builder"})
	b := protocol.NewBatchDataCodingEncoder()
	proto, content := "", ""
	var backing, spare []datacoding.ProtocolDataCoding
	var cands []int
	originVal := -2
	setCodings := func(cs []int) {
		// a prefix of a longer array, as in the batch family: Build must not write behind it
		backing = make([]datacoding.ProtocolDataCoding, 0, len(cs)+2)
		for _, x := range cs {
			backing = append(backing, toPDC(orCMPP(proto), x))
		}
		spare = backing[:len(cs)+2]
		spare[len(cs)], spare[len(cs)+1] = toPDC(orCMPP(proto), 251), toPDC(orCMPP(proto), 252)
		b.DataCodings(backing[:len(cs)])
	}
	for _, st := range caseList(c, "steps") {
		v, _ := st["v"].([]interface{})
		switch caseStr(st, "a") {
		case "proto":
			proto = ""
			if len(v) > 0 {
				proto, _ = v[0].(string)
			}
			b.Protocol(protocol.Protocol(proto))
			// the coding values are typed per protocol: the caller hands the same numbers over again in the new type
			if cands != nil {
				setCodings(cands)
			}
			if originVal >= 0 {
				b.OriginDataCoding(toPDC(orCMPP(proto), originVal))
			}
			tr.emit(Ev{"ev": "Set", "what": "proto", "s": proto, "site": "builder.Protocol"})
		case "content":
			idx := 0
			if xs := intsOf(st["v"]); len(xs) > 0 {
				idx = xs[0] % len(builderContents())
			}
			content = builderContents()[idx]
			b.Content(content, byte(idx))
			tr.emit(Ev{"ev": "Set", "what": "content", "empty": content == "", "site": "builder.Content"})
		case "codings":
			cands = intsOf(st["v"])
			if cands == nil {
				cands = []int{}
			}
			setCodings(cands)
			tr.emit(Ev{"ev": "Set", "what": "codings", "v": cands, "site": "builder.DataCodings"})
		case "origin":
			o := -1
			if xs := intsOf(st["v"]); len(xs) > 0 {
				o = xs[0]
			}
			originVal = o
			if o >= 0 {
				b.OriginDataCoding(toPDC(orCMPP(proto), o))
			} else {
				b.OriginDataCoding(nil)
			}
			tr.emit(Ev{"ev": "Set", "what": "origin", "v": []int{o}, "site": "builder.OriginDataCoding"})
		case "build":
			var env []interface{}
			ucs2can := false
			if proto != "" {
				for _, x := range batchValid[proto] {
					can, n := singleCoding(proto, x, content, 0)
					if !can || n < 1 {
						n = 1
					}
					env = append(env, map[string]interface{}{"c": x, "can": can, "n": n})
				}
				ucs2can, _ = singleCoding(proto, 8, content, 0)
			}
			if env == nil {
				env = []interface{}{}
			}
			var parts [][]byte
			var actual datacoding.ProtocolDataCoding
			var err error
			pan := guard(func() { parts, actual, err = b.Build(context.Background()) })
			coding := -1
			if err == nil && !pan && actual != nil {
				switch a := actual.(type) {
				case datacoding.CMPPDataCoding:
					coding = int(a)
				case datacoding.SMPPDataCoding:
					coding = int(a)
				}
			}
			mutated := false
			for i := range spare {
				want := toPDC(orCMPP(proto), 251+i-len(cands))
				if i < len(cands) {
					want = backing[i]
				}
				if i >= len(cands) && spare[i] != want {
					mutated = true
				}
			}
			tr.emit(Ev{"ev": "Build", "env": env, "ucs2can": ucs2can, "err": err != nil, "coding": coding, "nparts": len(parts), "panic": pan, "mutated": mutated,
				"site": "builder.Build/" + proto})
		}
	}
}

func orCMPP(p string) string {
	if p == "" {
		return "CMPP"
	}
	return p
}
