package main

import (
	"fmt"
	"math/rand"
	"time"

	"github.com/hujm2023/go-sms-protocol/smpp"
)

// Family "validity" (C19): smpp.ToValidatePeriod.

func init() {
	families["validity"] = family{gen: genValidity, run: runValidity}
}

var epoch2000 = time.Date(2000, 1, 1, 0, 0, 0, 0, time.UTC)

func genValidity(g *genCtx) {
	r := g.rng(19)
	n := 0
	emit := func(c Case) {
		if g.mine(n) {
			g.emit(c)
		}
		n++
	}
	nows := []int64{0, 86399, 59 * 86400, 60 * 86400, 365*86400 + 86399, 8826 * 86400, 9131*86400 + 86399,
		36524*86400 + 86399, 36524 * 86400, 20000*86400 + 43200}
	zones := []int{0, 8 * 3600, -5 * 3600, 5*3600 + 1800}
	day := 86400
	var durs []string
	for _, b := range []int{0, 1, 59, 60, 61, 3599, 3600, 3601, day - 1, day, day + 1, 30*day + day - 1, 31 * day, 31*day + 1, 32 * day,
		61 * day, 62 * day, 99*day + day - 1, 100 * day, 100*day + 1, 310 * day, 365 * day, 366 * day, 3650 * day, 36500 * day, 36525 * day} {
		for _, d := range []int{-1, 0, 1} {
			s := b + d
			if s < 0 {
				continue
			}
			durs = append(durs, fmt.Sprintf("%ds", s))
		}
		if b%3600 == 0 && b > 0 {
			durs = append(durs, fmt.Sprintf("%dh", b/3600))
		}
	}
	durs = append(durs, "-1s", "-1ns", "-0.5s", "-24h", "0", "0s", "0h0m0s", "1ns", "999ms", "1000ms", "1.5s", "1.999s", "0.5h", "1h2m3s", "23h59m59s",
		"1h30m", "90m", "1.5h", "24h0m0.5s", "2562047h", "", "abc", "15ahaha", "1d", "1 h", "h", "1h-", "+1h", "1e3s", ".5m", "5", "1h1", "１ｈ")
	for _, ds := range durs {
		for i, ns := range nows {
			if !g.thorough() && (i+len(ds))%3 != 0 {
				continue
			}
			for _, rel := range []bool{true, false} {
				emit(Case{"now": ns, "zone": zones[(i+len(ds))%len(zones)], "d": ds, "rel": rel})
			}
		}
	}
	nr := 400
	if g.thorough() {
		nr = 300000
	}
	for i := 0; i < nr; i++ {
		var ds string
		switch r.Intn(5) {
		case 0:
			ds = fmt.Sprintf("%ds", r.Intn(100*day+1000))
		case 1:
			ds = fmt.Sprintf("%dh%dm%ds", r.Intn(2500), r.Intn(60), r.Intn(60))
		case 2:
			ds = fmt.Sprintf("%d.%03ds", r.Intn(40*day), r.Intn(1000))
		case 3:
			ds = fmt.Sprintf("%dh", r.Intn(24*36600))
		default:
			ds = fmt.Sprintf("%dm%dms", r.Intn(200000), r.Intn(100000))
		}
		emit(Case{"now": r.Int63n(36525 * 86400), "zone": zones[r.Intn(len(zones))], "d": ds, "rel": r.Intn(2) == 0})
	}
}

func runValidity(c Case, tr *Tracer) {
	nowSecs := int64(caseInt(c, "now"))
	if v, ok := c["now"].(int64); ok {
		nowSecs = v
	}
	now := epoch2000.Add(time.Duration(nowSecs) * time.Second).In(time.FixedZone("z", caseInt(c, "zone")))
	ds := caseStr(c, "d")
	rel := caseBool(c, "rel")
	d, perr := time.ParseDuration(ds)
	var out string
	var err error
	if caseInt(c, "t")%2 == 0 {
		// the same text has just been asked for in the other form, and a moment earlier within the same second
		guard(func() { _, _ = smpp.ToValidatePeriod(now, ds, !rel) })
		guard(func() { _, _ = smpp.ToValidatePeriod(now.Add(-300*time.Millisecond), ds, rel) })
		guard(func() { _, _ = smpp.ToValidatePeriod(now.Add(400*time.Millisecond), ds, !rel) })
	}
	pan := guard(func() { out, err = smpp.ToValidatePeriod(now, ds, rel) })
	whole := int64(d / time.Second) // truncated toward zero; only used when d >= 0
	tr.emit(Ev{"ev": "Validity", "nowday": int(nowSecs / 86400), "nowsec": int(nowSecs % 86400), "dstr": S(ds),
		"parsed": perr == nil, "neg": perr == nil && d < 0, "ddays": int(whole / 86400), "dsec": int(whole % 86400),
		"relative": rel, "out": S(out), "err": err != nil, "panic": pan,
		"site": map[bool]string{true: "ToValidatePeriod.relative", false: "ToValidatePeriod.absolute"}[rel]})
}

var _ = rand.Int
