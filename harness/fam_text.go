package main

import (
	"context"
	"math/rand"

	protocol "github.com/hujm2023/go-sms-protocol"
	"github.com/hujm2023/go-sms-protocol/cmpp"
	"github.com/hujm2023/go-sms-protocol/datacoding"
	gsm7 "github.com/hujm2023/go-sms-protocol/datacoding/gsm7encoding"
	"golang.org/x/text/transform"
)

// Family "text" (C05): the text codecs, the UCS-2 helpers and the
// protocol-level content decoders.

func init() {
	families["text"] = family{gen: genText, run: runText}
}

var textCodings = []string{"ascii", "latin1", "ucs2", "gb", "gsm7u", "gsm7p"}

func codecFor(coding string, data []byte) datacoding.Codec {
	switch coding {
	case "ascii":
		return datacoding.Ascii(data)
	case "latin1":
		return datacoding.Latin1(data)
	case "ucs2":
		return datacoding.UCS2(data)
	case "gb":
		return datacoding.GB18030(data)
	case "gsm7u":
		return datacoding.GSM7Unpacked(data)
	case "gsm7p":
		return datacoding.GSM7Packed(data)
	}
	return nil
}

func genText(g *genCtx) {
	r := g.rng(5)
	n := 0
	emit := func(c Case) {
		if g.mine(n) {
			// every third call is made after a series of refused calls on the same goroutine (see afterRefusals)
			if k := caseStr(c, "k"); n%3 == 1 && (k == "codec" || k == "content") {
				c["pre"] = 1 + n/3
			}
			g.emit(c)
		}
		n++
	}
	if g.part == "" || g.part == "strings" {
		rep := gsmRepertoire()
		edges := []int{0, 1, 0x1b, 0x7e, 0x7f, 0x80, 0x81, 0x9f, 0xa0, 0xff, 0x100, 0x152, 0x20ac, 0x2122, 0x7ff, 0x800, 0xd7ff, 0xe000, 0xe864, 0xe865,
			0xfffd, 0xffff, 0x10000, 0x1f600, 0x10ffff, 0x4e2d, 0x40, 0x0d, 0x5b}
		pools := map[string][]int{}
		for _, c := range textCodings {
			pools[c] = edges
		}
		for _, c := range rep {
			pools["gsm7u"] = append(pools["gsm7u"], int(c))
			pools["gsm7p"] = append(pools["gsm7p"], int(c))
		}
		for c := 0x20; c < 0x7f; c++ {
			pools["ascii"] = append(pools["ascii"], c)
			pools["latin1"] = append(pools["latin1"], c, c+0x80)
			pools["gb"] = append(pools["gb"], c, 0x4e00+c)
			pools["ucs2"] = append(pools["ucs2"], c, 0x4e00+c)
		}
		nr := 250
		if g.thorough() {
			nr = 60000
		}
		for _, coding := range textCodings {
			emit(Case{"k": "codec", "coding": coding, "text": []int{}})
			for _, e := range edges {
				emit(Case{"k": "codec", "coding": coding, "text": []int{e}})
			}
			for i := 0; i < nr; i++ {
				L := r.Intn(24)
				if r.Intn(10) == 0 {
					L = r.Intn(200)
				}
				t := make([]int, L)
				pool := pools[coding]
				for j := range t {
					if r.Intn(15) == 0 {
						t[j] = edges[r.Intn(len(edges))]
					} else {
						t[j] = pool[len(edges)+r.Intn(len(pool)-len(edges))]
					}
				}
				emit(Case{"k": "codec", "coding": coding, "text": t})
			}
			if coding == "gsm7p" || coding == "gsm7u" {
				// the end-of-message ambiguities and their neighbours: 7, 8, 9, 15, 16 septets ending in @ / CR
				for _, L := range []int{7, 8, 9, 15, 16, 17} {
					for _, last := range []int{0x40, 0x0d, 'a'} {
						for _, prev := range []int{'1', 'a', 0x40, 0xa1} {
							t := make([]int, L)
							for j := range t {
								t[j] = 'x'
							}
							t[L-2], t[L-1] = prev, last
							emit(Case{"k": "codec", "coding": coding, "text": t})
						}
					}
				}
				emit(Case{"k": "codec", "coding": coding, "text": scalars("1234567@abcdefgh")})
			}
		}
		for i := 0; i < nr; i++ {
			L := r.Intn(30)
			t := make([]int, L)
			for j := range t {
				t[j] = pools["ucs2"][r.Intn(len(pools["ucs2"]))]
			}
			emit(Case{"k": "helpers", "text": t})
		}
	}
	if g.part == "" || g.part == "content" {
		// every data-coding number 0..255 on the output of every encoder
		for _, proto := range []string{"cmpp", "smpp"} {
			for num := 0; num < 256; num++ {
				for _, coding := range []string{"ascii", "latin1", "ucs2", "gb", "gsm7u"} {
					if !g.thorough() && num > 20 && coding != "ascii" && (num+len(coding))%7 != 0 {
						continue
					}
					var t []int
					switch coding {
					case "ascii", "gsm7u":
						t = scalars("Hello, World 123")
					case "latin1":
						t = scalars("café über €")
					case "ucs2", "gb":
						t = scalars("你好, world \U0001F600")
					}
					emit(Case{"k": "content", "proto": proto, "n": num, "coding": coding, "text": t})
				}
			}
		}
		// texts whose encoded form ends in an octet 0x00 (or begins with one): content is binary, nothing is padding
		for _, pc := range []struct {
			proto, coding string
			n             int
		}{{"cmpp", "ascii", 0}, {"cmpp", "ucs2", 8}, {"cmpp", "ucs2", 9}, {"cmpp", "gb", 15},
			{"smpp", "gsm7u", 0}, {"smpp", "ascii", 1}, {"smpp", "latin1", 3}, {"smpp", "ucs2", 8}} {
			for _, txt := range []string{"mail me @", "@", "@@", "x@", "\u8bf7\u6253\u5f00", "x\u0100", "\u4e00", "\u3000 \u3000", "a\x00", "\x00", "\x00a", "ab\x00\x00"} {
				emit(Case{"k": "content", "proto": pc.proto, "n": pc.n, "coding": pc.coding, "text": scalars(txt)})
			}
		}
		for i := 0; i < 300; i++ {
			proto := pickS(r, "cmpp", "smpp")
			coding := pickS(r, "ascii", "latin1", "ucs2", "gb", "gsm7u")
			L := r.Intn(40)
			t := make([]int, L)
			for j := range t {
				switch coding {
				case "ascii":
					t[j] = 0x20 + r.Intn(0x5f)
				case "gsm7u":
					t[j] = int(gsmRepertoire()[r.Intn(len(gsmRepertoire()))])
				case "latin1":
					t[j] = []int{0x41, 0xe9, 0xff, 0x20ac, 0xa0}[r.Intn(5)]
				default:
					t[j] = []int{0x41, 0x4e2d, 0x1f600, 0xe9, 0xffff}[r.Intn(5)]
				}
			}
			emit(Case{"k": "content", "proto": proto, "n": []int{0, 1, 3, 8, 9, 15}[r.Intn(6)], "coding": coding, "text": t})
		}
	}
	if g.part == "" || g.part == "sweep" {
		for _, coding := range textCodings {
			for ctx := 0; ctx < 4; ctx++ {
				step := 1
				if !g.thorough() {
					step = 0 // quick: BMP boundaries and a sample (see runText)
				}
				emit(Case{"k": "sweep", "coding": coding, "ctx": ctx, "full": step == 1})
			}
		}
	}
}

// afterRefusals makes the calls a gateway makes on malformed traffic - every decoder on a valid prefix followed
// by something it must refuse, every encoder on a text it cannot represent - and discards the results.  A judged
// call that follows must behave as if they had never happened (the properties hold for every history).
func afterRefusals(k int) {
	bad := []byte{0x41, 0x43, 0x45, 0x1b, 0x01}
	txt := "ACE[\u4e2d"
	ctx := context.Background()
	calls := []func(){
		func() { _, _ = gsm7.Decode(bad) },
		func() { _, _, _ = transform.Bytes(gsm7.GSM7(false).NewDecoder(), bad) },
		func() { _, _, _ = transform.Bytes(gsm7.GSM7(true).NewDecoder(), gsm7.Pack(bad)) },
		func() { _, _ = datacoding.GSM7Unpacked(bad).Decode() },
		func() { _, _ = datacoding.GSM7Packed(gsm7.Pack(bad)).Decode() },
		func() { _, _ = gsm7.Encode(txt) },
		func() { _, _, _ = transform.Bytes(gsm7.GSM7(false).NewEncoder(), []byte(txt)) },
		func() { _, _, _ = transform.Bytes(gsm7.GSM7(true).NewEncoder(), []byte(txt)) },
		func() { _, _, _ = transform.Bytes(reusedEncU, []byte(txt)) },
		func() { _, _, _ = transform.Bytes(reusedEncP, []byte(txt)) },
		func() { _, _, _ = transform.Bytes(reusedDecU, bad) },
		func() { _, _, _ = transform.Bytes(reusedDecP, gsm7.Pack(bad)) },
		func() { _, _ = protocol.DecodeSMPPCContent(ctx, string(gsm7.Pack(bad)), 0) },
		func() { _, _ = protocol.DecodeSMPPCContent(ctx, "\x00A\xd8", 8) },
		func() { _, _ = protocol.DecodeCMPPCContent(ctx, "AB\x81", 15) },
		func() { _, _ = protocol.DecodeCMPPCContent(ctx, "AB", 77) },
	}
	for _, c := range textCodings {
		c := c
		calls = append(calls,
			func() { _, _ = codecFor(c, []byte(txt+"\U0001F600")).Encode() },
			func() { _, _ = codecFor(c, []byte("AB\x81")).Decode() },
			func() { _, _ = codecFor(c, []byte("\x00A\xd8")).Decode() })
	}
	guard(func() {
		for _, f := range calls {
			f()
		}
		// ... and one of them is the last thing that happened before the judged call
		calls[k%len(calls)]()
	})
}

func runText(c Case, tr *Tracer) {
	if k := caseInt(c, "pre"); k > 0 {
		afterRefusals(k)
	}
	switch caseStr(c, "k") {
	case "codec":
		coding := caseStr(c, "coding")
		text := scalarsToString(c["text"])
		var enc, dec []byte
		var e1, e2 error
		pan := guard(func() {
			enc, e1 = codecFor(coding, []byte(text)).Encode()
			if e1 == nil {
				dec, e2 = codecFor(coding, enc).Decode()
			}
		})
		if e1 != nil {
			enc = nil
		}
		if e2 != nil {
			dec = nil
		}
		tr.emit(Ev{"ev": "Codec", "coding": coding, "text": scalars(text), "encerr": e1 != nil, "enc": B(enc), "decerr": e1 != nil || e2 != nil,
			"dec": scalars(string(dec)), "panic": pan, "site": coding})
	case "helpers":
		text := scalarsToString(c["text"])
		a, err := cmpp.Utf8ToUcs2(text)
		if err != nil {
			a = "\xff"
		}
		tr.emit(Ev{"ev": "Helpers", "text": scalars(text), "a": S(a), "b": S(cmpp.Utf8ToUcs2Back(text)), "c": S(cmpp.Utf8ToUcs2Pooled(text)), "site": "cmpp.Utf8ToUcs2*"})
	case "content":
		proto, num, coding := caseStr(c, "proto"), caseInt(c, "n"), caseStr(c, "coding")
		text := scalarsToString(c["text"])
		enc, err := codecFor(coding, []byte(text)).Encode()
		if err != nil {
			return
		}
		var out string
		var derr error
		pan := guard(func() {
			if proto == "cmpp" {
				out, derr = protocol.DecodeCMPPCContent(context.Background(), string(enc), uint8(num))
			} else {
				out, derr = protocol.DecodeSMPPCContent(context.Background(), string(enc), num)
			}
		})
		if derr != nil {
			out = ""
		}
		tr.emit(Ev{"ev": "Content", "proto": proto, "n": num, "coding": coding, "text": scalars(text), "err": derr != nil, "out": scalars(out), "panic": pan,
			"site": map[string]string{"cmpp": "DecodeCMPPCContent", "smpp": "DecodeSMPPCContent"}[proto]})
	case "sweep":
		coding, ctx, full := caseStr(c, "coding"), caseInt(c, "ctx"), caseBool(c, "full")
		site := "sweep." + coding
		tr.emit(Ev{"ev": "SweepStart", "coding": coding, "ctx": ctx, "site": site})
		lo, cur := 0, ""
		flush := func(hi int) {
			if cur != "" {
				tr.emit(Ev{"ev": "Sweep", "coding": coding, "ctx": ctx, "lo": lo, "hi": hi, "class": cur, "site": site})
			}
		}
		last := ""
		for cp := 0; cp <= 0x10FFFF; cp++ {
			cl := last
			// quick tier: every code point up to U+3100, around every plane boundary and the carve-out, every 17th otherwise
			if full || cp < 0x3100 || cp%17 == 0 || (cp&0xffff) < 0x40 || (cp&0xffff) > 0xffc0 || (cp >= 0xd700 && cp <= 0xe900) || last == "" {
				cl = classifyText(coding, ctx, rune(cp))
			}
			last = cl
			if cl != cur {
				flush(cp - 1)
				lo, cur = cp, cl
			}
		}
		flush(0x10FFFF)
		tr.emit(Ev{"ev": "SweepEnd", "coding": coding, "site": site})
	}
}

func classifyText(coding string, ctx int, cp rune) string {
	if cp >= 0xD800 && cp <= 0xDFFF {
		return "surrogate" // not a scalar value: no valid UTF-8 string contains it
	}
	var s string
	switch ctx {
	case 0:
		s = string(cp)
	case 1:
		s = "a" + string(cp)
	case 2:
		s = string(cp) + "a"
	default:
		s = "a" + string(cp) + "b"
	}
	enc, err := codecFor(coding, []byte(s)).Encode()
	if err != nil {
		return "refused"
	}
	dec, err := codecFor(coding, enc).Decode()
	if err != nil || string(dec) != s {
		return "MISMATCH"
	}
	return "roundtrip"
}

var _ = rand.Int
