package main

import (
	"context"
	"fmt"
	"math/rand"
	"strings"

	"golang.org/x/text/encoding/charmap"
	"golang.org/x/text/encoding/simplifiedchinese"

	protocol "github.com/hujm2023/go-sms-protocol"
	"github.com/hujm2023/go-sms-protocol/datacoding"
)

// Family "split" (C06, C07, C14): long-SMS splitting and UDH parsing.

func init() {
	families["split"] = family{gen: genSplit, run: runSplit}
}

type codingPlan struct {
	proto  string
	req    int
	filler []rune // 1-"slot" characters
	multi  []rune // multi-unit characters
	unit   func(r rune) int
	max    int
	per    int
}

func splitPlans() []codingPlan {
	one := func(rune) int { return 1 }
	gsmU := func(r rune) int {
		switch r {
		case '[', ']', '{', '}', '^', '~', '\\', '|', '€', '\f':
			return 2
		}
		return 1
	}
	ucs := func(r rune) int {
		if r >= 0x10000 {
			return 4
		}
		return 2
	}
	gb := func(r rune) int {
		b, err := simplifiedchinese.GB18030.NewEncoder().Bytes([]byte(string(r)))
		if err != nil {
			return 1
		}
		return len(b)
	}
	return []codingPlan{
		{"cmpp", 0, []rune("ab1 "), nil, one, 140, 134},
		{"cmpp", 8, []rune("ab中é"), []rune{0x1F600, 0x10000}, ucs, 140, 134},
		{"cmpp", 9, []rune("xy文"), []rune{0x1F601}, ucs, 140, 134},
		{"cmpp", 15, []rune("ab1"), []rune{'中', '文', 0x1F600, 'ß'}, gb, 140, 134},
		{"smpp", 0, []rune("ab1@ "), []rune("[]{}€^~\\|\f"), gsmU, 160, 153},
		{"smpp", 99, []rune("ab1@ \r"), []rune("[]{}€^~\\|\f"), gsmU, 160, 153},
		{"smpp", 1, []rune("ab1 "), nil, one, 140, 134},
		{"smpp", 3, []rune("abé€ÿ"), nil, one, 140, 134},
		{"smpp", 8, []rune("ab中"), []rune{0x1F600}, ucs, 140, 134},
	}
}

// planText builds a text of exactly total units (as far as character sizes allow)
// with a multi-unit character starting at each of the given unit offsets.
func planText(r *rand.Rand, p codingPlan, total int, multiAt map[int]rune) []int {
	var out []int
	pos := 0
	fu := p.unit(p.filler[0])
	for pos < total {
		if m, ok := multiAt[pos]; ok && pos+p.unit(m) <= total {
			out = append(out, int(m))
			pos += p.unit(m)
			continue
		}
		f := p.filler[r.Intn(len(p.filler))]
		if p.unit(f) != fu || pos+fu > total {
			f = p.filler[0]
		}
		if pos+p.unit(f) > total {
			break
		}
		out = append(out, int(f))
		pos += p.unit(f)
	}
	return out
}

func genSplit(g *genCtx) {
	r := g.rng(6)
	n := 0
	emit := func(c Case) {
		if g.mine(n) {
			if k := caseStr(c, "k"); n%3 == 1 && (k == "split" || k == "batch") {
				c["pre"] = 1 + n/3 // the call follows a series of refused codec calls (afterRefusals)
			}
			g.emit(c)
		}
		n++
	}
	plans := splitPlans()
	refs := []int{0, 0x6b, 0xff}
	if g.part == "" || g.part == "shapes" {
		for _, p := range plans {
			ks := []int{1, 2, 3, 4}
			var totals []int
			for d := -2; d <= 2; d++ {
				totals = append(totals, p.max+d)
			}
			for _, k := range ks {
				for d := -2; d <= 2; d++ {
					totals = append(totals, k*p.per+d)
				}
			}
			// beyond one 4096-octet transform buffer of the codecs
			totals = append(totals, 4096, 4097, 5003)
			if g.thorough() {
				// around the 255-part limit (texts of ~34,000 units: a few, they are expensive to judge)
				for _, k := range []int{255, 256} {
					for d := -1; d <= 1; d++ {
						totals = append(totals, k*p.per+d)
					}
				}
			}
			for _, total := range totals {
				if total <= 0 {
					continue
				}
				big := total > 5*p.per
				// no multi-unit character at all
				emit(Case{"k": "split", "proto": p.proto, "req": p.req, "ref": refs[r.Intn(3)], "text": planText(r, p, total, nil)})
				if len(p.multi) == 0 {
					continue
				}
				// a multi-unit character at every offset -3..+3 around every part boundary
				nb := total / p.per
				for b := 1; b <= nb+1; b++ {
					if big && b != 1 && b != nb {
						continue
					}
					for off := -3; off <= 3; off++ {
						if big && off != -1 && off != 0 {
							continue
						}
						at := b*p.per + off
						if at < 0 || at >= total {
							continue
						}
						if !g.thorough() && (b+off+total)%3 != 0 && b > 1 {
							continue
						}
						m := p.multi[r.Intn(len(p.multi))]
						emit(Case{"k": "split", "proto": p.proto, "req": p.req, "ref": refs[r.Intn(3)],
							"text": planText(r, p, total, map[int]rune{at: m})})
					}
				}
				// every multi-unit character of the plan on the last unit of the first and of the second part
				if !big && (nb == 2 || nb == 3) {
					for _, m := range p.multi {
						for _, at := range []int{p.per - 1, 2*p.per - 1} {
							if at < total {
								emit(Case{"k": "split", "proto": p.proto, "req": p.req, "ref": 7, "text": planText(r, p, total, map[int]rune{at: m})})
							}
						}
					}
				}
				// several multi-unit characters, one before every boundary (shifts accumulate)
				ma := map[int]rune{}
				for b := 1; b <= nb && b < 12; b++ {
					ma[b*p.per-1] = p.multi[0]
				}
				emit(Case{"k": "split", "proto": p.proto, "req": p.req, "ref": 1, "text": planText(r, p, total, ma)})
			}
		}
		// invalid coding numbers, unrepresentable texts (fallback to UCS-2)
		for _, proto := range []string{"cmpp", "smpp"} {
			for _, req := range []int{2, 4, 7, 16, 25, 255, -1, 100, 256, 257, 259, 264, 265, 271, 355, 512, -248, -256, 1 << 20, 1<<20 + 8} {
				// (numbers whose low octet is a valid coding are invalid all the same: the type is an int)
				for _, L := range []int{0, 1, 70, 71, 67 * 3} {
					emit(Case{"k": "split", "proto": proto, "req": req, "ref": 9, "text": planText(r, plans[1], 2*L, nil)})
				}
			}
			for _, p := range plans {
				if p.proto != proto {
					continue
				}
				for _, L := range []int{1, 69, 70, 71, 134, 135, 300} {
					t := planText(r, p, L, nil)
					t = append(t, 0x4e2d, 0x1F600)
					emit(Case{"k": "split", "proto": proto, "req": p.req, "ref": 5, "text": t})
				}
			}
		}
		emit(Case{"k": "split", "proto": "cmpp", "req": 0, "ref": 0, "text": []int{}})
		emit(Case{"k": "split", "proto": "smpp", "req": 99, "ref": 0, "text": []int{}})
	}
	if g.part == "" || g.part == "random" {
		nr, maxU := 150, 1200
		if g.thorough() {
			nr, maxU = 4000, 40000
		}
		for i := 0; i < nr; i++ {
			p := plans[r.Intn(len(plans))]
			total := r.Intn(700)
			if r.Intn(4) == 0 {
				total = r.Intn(maxU)
			}
			if g.thorough() && r.Intn(300) != 0 && total > 6000 {
				total = r.Intn(3000)
			}
			ma := map[int]rune{}
			if len(p.multi) > 0 {
				for j := r.Intn(1 + total/20); j > 0; j-- {
					ma[r.Intn(total+1)] = p.multi[r.Intn(len(p.multi))]
				}
			}
			emit(Case{"k": "split", "proto": p.proto, "req": p.req, "ref": r.Intn(256), "text": planText(r, p, total, ma)})
		}
	}
	if g.part == "limit" {
		// packed GSM 7-bit texts of 159 / 160 / 161 septets that end in CR, '@' or a letter (160 septets are 140 octets: one part)
		for _, n := range []int{152, 159, 160, 161} {
			for _, last := range []rune{'\r', '@', 'a'} {
				t := make([]int, n)
				for i := range t {
					t[i] = 'a' + i%5
				}
				t[n-1] = int(last)
				emit(Case{"k": "split", "proto": "smpp", "req": 99, "ref": 5, "text": t})
				emit(Case{"k": "batch", "proto": "SMPP", "cands": []int{99}, "text": t, "ref": 5})
			}
		}
		// exactly 255 full parts is the most a message may have; one unit more is refused - at every entry point
		for _, p := range plans {
			if p.req == 99 || p.req == 9 || p.req == 15 || p.req == 3 {
				continue
			}
			for _, total := range []int{255 * p.per, 255*p.per + 1} {
				emit(Case{"k": "split", "proto": p.proto, "req": p.req, "ref": 2, "text": planText(r, p, total, nil)})
			}
		}
		// GB18030 texts in which every character takes two octets (hanzi, the euro sign): the even part size cannot cut one
		for _, euros := range [][]int{{0}, {0, 1, 2}, {66}, {10, 70, 140}, {0, 67}, {}} {
			for _, L := range []int{71, 150, 203} {
				t := make([]int, L)
				for i := range t {
					t[i] = 0x4e00 + (i*37)%20000
				}
				for _, at := range euros {
					if at < L {
						t[at] = 0x20AC
					}
				}
				emit(Case{"k": "split", "proto": "cmpp", "req": 15, "ref": 4, "text": t})
			}
		}
		// texts that are not in Unicode normal form C: what is sent is the text as given (a GSM request falls back to UCS-2)
		for _, proto := range []string{"smpp", "cmpp"} {
			for _, req := range []int{0, 99, 8, 3, 15} {
				if proto == "cmpp" && (req == 99 || req == 3) || proto == "smpp" && req == 15 {
					continue
				}
				for _, unit := range [][]int{{'e', 0x0301}, {0x2126}, {0x212B}, {0x212A}, {0x037E}, {'A', 0x030A, 'x'}} {
					for _, rep := range []int{1, 30, 100} {
						var t []int
						for i := 0; i < rep; i++ {
							t = append(t, unit...)
						}
						emit(Case{"k": "split", "proto": proto, "req": req, "ref": 3, "text": t})
					}
				}
			}
		}
		// UCS-2 characters whose LOW octet is 0x1B (U+041B, U+4E1B) around the cuts: 0x1B means nothing in UCS-2
		for _, p := range plans {
			if p.per != 134 || !(p.req == 8 || p.req == 9) {
				continue
			}
			for _, cu := range []int{65, 66, 67, 132, 133, 134} { // character index (two octets each)
				for _, ch := range []int{0x041B, 0x4E1B, 0x1B1B} {
					t := make([]int, 150)
					for i := range t {
						t[i] = int(p.filler[i%len(p.filler)])
					}
					t[cu] = ch
					emit(Case{"k": "split", "proto": p.proto, "req": p.req, "ref": 6, "text": t})
				}
			}
		}
		// packed GSM-7: the last part has 8n septets and the text ends in '@' / CR, the part before it ends in an
		// extension character that lies wholly inside it
		for _, p := range plans {
			if !(p.proto == "smpp" && p.req == 99) {
				continue
			}
			for _, n := range []int{8, 16, 24} {
				for _, last := range []rune{'@', '\r', 'a'} {
					for _, ext := range []rune{'[', '€', '\f'} {
						var t []int
						for i := 0; i < p.per-2; i++ {
							t = append(t, 'a'+i%3)
						}
						t = append(t, int(ext)) // septets per-2, per-1: the part is full, no escape on the cut
						for i := 0; i < n-1; i++ {
							t = append(t, 'x')
						}
						t = append(t, int(last))
						emit(Case{"k": "split", "proto": p.proto, "req": p.req, "ref": 8, "text": t})
						// ... and three parts
						t3 := append(append([]int{}, t[:p.per]...), t...)
						emit(Case{"k": "split", "proto": p.proto, "req": p.req, "ref": 8, "text": t3})
					}
				}
			}
		}
		// a few parts with a multi-unit character straddling every cut INCLUDING the one after which only a little text
		// follows (whether a part is the last one is not known before the earlier cuts have moved)
		for _, p := range plans {
			if !(p.proto == "smpp" && p.req == 99) {
				continue
			}
			for _, nb := range []int{2, 3, 4} {
				ma := map[int]rune{}
				at := p.per - 1
				for b := 1; b <= nb; b++ {
					ma[at] = p.multi[(b+nb)%len(p.multi)]
					at += p.per - 1
				}
				last := at - (p.per - 1) // position of the last escape
				for _, d := range []int{2, 3, 4, 5, 9, 80, 152, 153} {
					emit(Case{"k": "split", "proto": p.proto, "req": p.req, "ref": 4, "text": planText(r, p, last+d, ma)})
				}
			}
		}
		// many parts with a multi-unit character straddling EVERY cut of the naive plan (the shifts accumulate over
		// 70 / 130 / 250 parts); packed GSM-7 only - the generic splitter's cuts are the recorded C14 finding
		for _, p := range plans {
			if !(p.proto == "smpp" && p.req == 99) {
				continue
			}
			nbs := []int{70}
			if g.thorough() {
				nbs = []int{70, 130, 250}
			}
			for _, nb := range nbs {
				ma := map[int]rune{}
				at := p.per - 1
				for b := 1; b < nb; b++ {
					ma[at] = p.multi[b%len(p.multi)]
					at += p.per - 1 // the previous part gave up its last septet
				}
				emit(Case{"k": "split", "proto": p.proto, "req": p.req, "ref": 3, "text": planText(r, p, at+5, ma)})
			}
		}
		// the 255-part limit: texts of ~39,000 septets / 34,000 octets; few, they are expensive to judge
		for _, p := range plans {
			if !(p.proto == "smpp" && (p.req == 99 || p.req == 1)) && !(p.proto == "cmpp" && p.req == 0) {
				continue
			}
			emit(Case{"k": "split", "proto": p.proto, "req": p.req, "ref": 1, "text": planText(r, p, 255*p.per+1, nil)})
			if len(p.multi) > 0 {
				// 255 full parts, but an escape on the first cut pushes one septet into a 256th part
				emit(Case{"k": "split", "proto": p.proto, "req": p.req, "ref": 2, "text": planText(r, p, 255*p.per, map[int]rune{p.per - 1: p.multi[0]})})
			}
		}
	}
	if g.part == "batch" {
		// the parts returned by the batch encoder are judged like any other split (C09)
		for _, proto := range []string{"CMPP", "SMPP"} {
			for ci, content := range batchContents() {
				for _, l := range [][]int{batchValid[proto], {batchValid[proto][0]}, {batchValid[proto][1], 7}, {7}} {
					if !g.thorough() && (ci+len(l))%2 != 0 {
						continue
					}
					emit(Case{"k": "batch", "proto": proto, "cands": l, "text": scalars(content), "ref": []int{0, 0, 107, 255, r.Intn(256), r.Intn(256)}[r.Intn(6)]})
				}
			}
		}
	}
	if g.part == "" || g.part == "parse" {
		vals := []int{0, 1, 127, 128, 255}
		for _, a := range vals {
			for _, b := range vals {
				for _, c := range vals {
					emit(Case{"k": "parse", "s": []int{5, 0, 3, a, b, c, 1, 2}})
					emit(Case{"k": "parse", "s": []int{6, 8, 4, a, b, c, 9, 7, 7}})
				}
			}
		}
		// near misses: each of the first three octets perturbed, lengths 0..7
		for _, h := range [][]int{{5, 0, 3, 9, 2, 1, 65}, {6, 8, 4, 1, 2, 2, 1, 65}} {
			for L := 0; L <= len(h); L++ {
				emit(Case{"k": "parse", "s": append([]int{}, h[:L]...)})
			}
			for i := 0; i < 3; i++ {
				for _, d := range []int{-1, 1, 3} {
					m := append([]int{}, h...)
					m[i] = (m[i] + d + 256) % 256
					emit(Case{"k": "parse", "s": m})
				}
			}
		}
		for i := 0; i < 400; i++ {
			emit(Case{"k": "parse", "s": B(randBytesFrom(r, r.Intn(12), []byte{0, 3, 4, 5, 6, 8, 1, 0xff}))})
		}
		emit(Case{"k": "sweep16"})
		if g.thorough() {
			for ref := 0; ref < 256; ref++ {
				emit(Case{"k": "sweep8", "ref": ref})
			}
		} else {
			for _, ref := range []int{0, 1, 127, 128, 255} {
				emit(Case{"k": "sweep8", "ref": ref})
			}
		}
	}
}

func runSplit(c Case, tr *Tracer) {
	if k := caseInt(c, "pre"); k > 0 {
		afterRefusals(k)
	}
	switch caseStr(c, "k") {
	case "split":
		runSplitCase(c, tr)
	case "batch":
		proto := caseStr(c, "proto")
		text := scalarsToString(c["text"])
		var pdc []datacoding.ProtocolDataCoding
		for _, x := range intsOf(c["cands"]) {
			pdc = append(pdc, toPDC(proto, x))
		}
		ref := caseInt(c, "ref")
		bb := protocol.NewBatchDataCodingEncoder().Protocol(protocol.Protocol(proto)).DataCodings(pdc)
		if caseInt(c, "t")%2 == 0 {
			// the builder has just served the same text under another reference (a re-send gets a reference of its own)
			_, _, _ = bb.Content(text, byte(ref+1)).Build(context.Background())
		}
		var parts [][]byte
		var actual datacoding.ProtocolDataCoding
		var err error
		if caseInt(c, "t")%4 < 2 {
			parts, actual, err = bb.Content(text, byte(ref)).Build(context.Background())
		} else {
			// the setters are also used as statements on a builder kept in a variable
			bb.Content(text, byte(ref))
			parts, actual, err = bb.Build(context.Background())
		}
		lp := map[string]string{"CMPP": "cmpp", "SMPP": "smpp"}[proto]
		if err != nil || actual == nil {
			// refused: judged as a refusal of the first candidate's coding (a text that fits 255 parts in that coding,
			// or in UCS-2 when the candidate cannot carry it, must not be refused)
			if cs := intsOf(c["cands"]); len(cs) > 0 && text != "" {
				can, _ := singleCoding(proto, cs[0], text, byte(ref))
				emitSplit(tr, fmt.Sprintf("%s.batch/refused", lp), lp, cs[0], ref, text, nil, cs[0], true, can)
			}
			return
		}
		coding := -1
		switch a := actual.(type) {
		case datacoding.CMPPDataCoding:
			coding = int(a)
		case datacoding.SMPPDataCoding:
			coding = int(a)
		}
		// judged as a split that was asked for the coding the batch encoder chose
		emitSplit(tr, fmt.Sprintf("%s.batch/%d", lp, coding), lp, coding, ref, text, parts, coding, false, true)
	case "parse":
		s := caseBytes(c, "s")
		var key, total, index int
		var rest string
		var valid bool
		if guard(func() { key, total, index, rest, valid = protocol.ParseLongSmsContent(string(s)) }) {
			tr.emit(Ev{"ev": "Parse", "s": B(s), "key": -1, "total": -1, "index": -1, "rest": []int{}, "valid": false, "site": "ParseLongSmsContent.panic"})
			return
		}
		tr.emit(Ev{"ev": "Parse", "s": B(s), "key": key, "total": total, "index": index, "rest": S(rest), "valid": valid, "site": "ParseLongSmsContent"})
	case "sweep8":
		// every (total, seq) for one 8-bit reference; index = total*256+seq
		ref := caseInt(c, "ref")
		sweepParse(tr, 65536, "sweep8", func(i int) bool {
			h := []byte{5, 0, 3, byte(ref), byte(i >> 8), byte(i), 'x', 'y'}
			k, t, s, rest, ok := protocol.ParseLongSmsContent(string(h))
			return ok && k == ref && t == i>>8 && s == i&0xff && rest == "xy"
		})
	case "sweep16":
		sweepParse(tr, 65536, "sweep16", func(i int) bool {
			h := []byte{6, 8, 4, byte(i >> 8), byte(i), 3, 2, 'z'}
			k, t, s, rest, ok := protocol.ParseLongSmsContent(string(h))
			return ok && k == i && t == 3 && s == 2 && rest == "z"
		})
	}
}

func sweepParse(tr *Tracer, n int, site string, exact func(i int) bool) {
	tr.emit(Ev{"ev": "SweepStart", "n": n, "site": site})
	lo, cur := 0, ""
	flush := func(hi int) {
		if cur != "" {
			tr.emit(Ev{"ev": "Sweep", "lo": lo, "hi": hi, "class": cur, "site": site})
		}
	}
	for i := 0; i < n; i++ {
		cl := "exact"
		if !exact(i) {
			cl = "WRONG." + site
		}
		if cl != cur {
			flush(i - 1)
			lo, cur = i, cl
		}
	}
	flush(n - 1)
	tr.emit(Ev{"ev": "SweepEnd", "site": site})
}

func runSplitCase(c Case, tr *Tracer) {
	proto, req, ref := caseStr(c, "proto"), caseInt(c, "req"), caseInt(c, "ref")
	text := scalarsToString(c["text"])
	var parts [][]byte
	var actual int
	var err error
	can := false
	ctx := context.Background()
	if caseInt(c, "t")%2 == 0 {
		// somebody has looked at the number before (a log line, a metric label, a sort): its name, wire value and preference
		pdc := toPDC(map[string]string{"cmpp": "CMPP", "smpp": "SMPP"}[proto], req)
		_, _, _, _ = pdc.String(), pdc.ToUint8(), pdc.Priority(), datacoding.IsValidProtoDataCoding(pdc)
	}
	panicked := guard(func() {
		if proto == "cmpp" {
			var a datacoding.CMPPDataCoding
			parts, a, err = protocol.EncodeCMPPContentAndSplit(ctx, text, datacoding.CMPPDataCoding(req), byte(ref))
			actual = int(a)
			if cd := datacoding.NewCMPPCodec(datacoding.CMPPDataCoding(req), text); cd != nil {
				_, e := cd.Encode()
				can = e == nil
			}
		} else {
			var a datacoding.SMPPDataCoding
			parts, a, err = protocol.EncodeSMPPContentAndSplit(ctx, text, datacoding.SMPPDataCoding(req), byte(ref))
			actual = int(a)
			if cd := datacoding.NewSMPPCodec(datacoding.SMPPDataCoding(req), text); cd != nil {
				_, e := cd.Encode()
				can = e == nil
			}
		}
	})
	// site = entry point / actual coding, so that a finding recorded for one coding never hides another
	site := fmt.Sprintf("%s.split/%d", proto, actual)
	if actual != req && actual != 8 && err == nil {
		// a coding that was neither requested nor the documented UCS-2 fallback: a site of its own
		site = fmt.Sprintf("%s.split/%d->%d", proto, req, actual)
	}
	if panicked {
		site += ".panic"
		err = context.Canceled
	}
	emitSplit(tr, site, proto, req, ref, text, parts, actual, err != nil, can)
}

func emitSplit(tr *Tracer, site, proto string, req, ref int, text string, parts [][]byte, actual int, isErr, can bool) {
	pl := make([]interface{}, 0, len(parts))
	var cat []byte
	for _, p := range parts {
		pl = append(pl, B(p))
		if len(parts) > 1 && len(p) >= 6 {
			cat = append(cat, p[6:]...)
		} else if len(parts) == 1 {
			cat = append(cat, p...)
		}
	}
	// for the codings whose tables are x/text's: the unit stream as the single-coding codec produces it
	// (needed to judge a refusal, when there are no parts to look at) ...
	rawenc := []int{}
	if (proto == "cmpp" && req == 15) || (proto == "smpp" && req == 3) {
		if cd := codecFor(map[bool]string{true: "gb", false: "latin1"}[proto == "cmpp"], []byte(text)); cd != nil {
			if b, e := cd.Encode(); e == nil {
				rawenc = B(b)
			}
		}
	}
	// ... and the x/text decoding of the concatenated payloads
	dec := []int{}
	switch {
	case proto == "cmpp" && actual == 15:
		if d, e := simplifiedchinese.GB18030.NewDecoder().Bytes(cat); e == nil {
			dec = scalars(string(d))
		} else {
			dec = []int{-1}
		}
	case proto == "smpp" && actual == 3:
		if d, e := charmap.Windows1252.NewDecoder().Bytes(cat); e == nil {
			dec = scalars(string(d))
		} else {
			dec = []int{-1}
		}
	}
	entry := "split"
	if strings.Contains(site, ".batch/") {
		entry = "batch"
	}
	tr.emit(Ev{"ev": "Split", "entry": entry, "proto": proto, "req": req, "ref": ref, "text": scalars(text), "parts": pl,
		"actual": actual, "err": isErr, "can": can, "dec": dec, "rawenc": rawenc, "site": site})
}
