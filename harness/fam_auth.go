package main

import (
	"crypto/md5"
	"math/rand"
	"strconv"
	"time"

	"github.com/hujm2023/go-sms-protocol/cmpp"
	"github.com/hujm2023/go-sms-protocol/cmpp/cmpp20"
	"github.com/hujm2023/go-sms-protocol/cmpp/cmpp30"
	"github.com/hujm2023/go-sms-protocol/smgp"
	"github.com/hujm2023/go-sms-protocol/smgp/smgp30"
)

// Family "auth" (C15): the login handshake of CMPP 2.0, CMPP 3.0 and SMGP 3.0
// through the real authenticator builders, encoders and decoders.

func init() {
	families["auth"] = family{gen: genAuth, run: runAuth}
}

func genAuth(g *genCtx) {
	r := g.rng(15)
	n := 0
	emit := func(c Case) {
		if g.mine(n) {
			g.emit(c)
		}
		n++
	}
	nr := 120
	if g.thorough() {
		nr = 30000
	}
	tss := []int{0, 1, 59, 1000000, 101000000, 229235959, 1231235959, 999999999, 1000000000}
	for _, proto := range []string{"cmpp20", "cmpp30", "smgp30"} {
		maxAcc := 6
		if proto == "smgp30" {
			maxAcc = 8
		}
		mk := func(wantNul int) Case {
			// search credentials whose request digest contains / ends in 0x00 when asked to
			for try := 0; ; try++ {
				acc := nulFree(r, r.Intn(maxAcc+1))
				for i := range acc {
					acc[i] = byte('0' + r.Intn(75))
				}
				sec := randBytes(r, r.Intn(33))
				for i := range sec {
					if sec[i] == 0 {
						sec[i] = 1
					}
				}
				ts := r.Intn(1231235960)
				if r.Intn(3) == 0 {
					ts = tss[r.Intn(len(tss))]
				}
				pad := 9
				if proto == "smgp30" {
					pad = 7
				}
				in := append(append(append(append([]byte{}, acc...), make([]byte, pad)...), sec...), []byte(pad10(ts))...)
				d := md5.Sum(in) // only used to bias the search, never logged or compared
				has := false
				for _, x := range d[:15] {
					if x == 0 {
						has = true
					}
				}
				ok := wantNul == 0 || (wantNul == 1 && has) || (wantNul == 2 && d[15] == 0) || try > 200000
				if ok {
					status := []int{0, 1, 2, 3, 4, 5, 255}[r.Intn(7)]
					if wantNul == 2 && proto != "cmpp20" {
						// also look for a status whose response digest ends in 0x00
						for st := 0; st < 5000; st++ {
							sb := []byte{byte(st >> 24), byte(st >> 16), byte(st >> 8), byte(st)}
							d2 := md5.Sum(append(append(append([]byte{}, sb...), d[:]...), sec...))
							if d2[15] == 0 {
								status = st
								break
							}
						}
					}
					return Case{"proto": proto, "account": B(acc), "secret": B(sec), "ts": ts, "status": status}
				}
			}
		}
		for i := 0; i < nr; i++ {
			w := 0
			switch {
			case i%10 < 3:
				w = 1
			case i%10 == 3:
				w = 2
			}
			emit(mk(w))
		}
		// the constructors that read the clock themselves
		if proto != "cmpp30" {
			for i := 0; i < 5; i++ {
				c := mk(0)
				c["ctor"] = true
				emit(c)
			}
		}
	}
}

func pad10(ts int) string {
	s := strconv.Itoa(ts)
	for len(s) < 10 {
		s = "0" + s
	}
	return s
}

func runAuth(c Case, tr *Tracer) {
	proto := caseStr(c, "proto")
	acc, sec := string(caseBytes(c, "account")), string(caseBytes(c, "secret"))
	ts := uint32(caseInt(c, "ts"))
	status := uint32(caseInt(c, "status"))
	ctor := caseBool(c, "ctor")
	site := proto

	// ---- client builds the request
	var auth []byte
	var req codecPDU
	switch proto {
	case "cmpp20":
		if ctor {
			p := cmpp20.NewConnect(acc, sec, 7)
			ts, auth, req = p.Timestamp, []byte(p.AuthenticatorSource), p
			site = "cmpp20.NewConnect"
		} else {
			auth = cmpp.GenConnectAuth(acc, sec, cmpp.TimeStamp2Str(ts))
			_ = cmpp.GenConnectAuth("other1", "another secret", "0101010101") // (a second link computes its digest before this one is used)
			req = &cmpp20.PduConnect{Header: cmpp.NewHeader(0, cmpp.CommandConnect, 7), SourceAddr: acc, AuthenticatorSource: string(auth), Version: cmpp.Version20, Timestamp: ts}
		}
	case "cmpp30":
		auth = cmpp.GenConnectAuth(acc, sec, cmpp.TimeStamp2Str(ts))
		_ = cmpp.GenConnectAuth("other1", "another secret", "0101010101")
		req = &cmpp30.Connect{Header: cmpp.NewHeader(0, cmpp.CommandConnect, 7), SourceAddr: acc, AuthenticatorSource: string(auth), Version: cmpp.Version30, Timestamp: ts}
	case "smgp30":
		if ctor {
			p := smgp30.NewLogin(acc, sec, 7)
			ts, auth, req = p.Timestamp, []byte(p.AuthenticatorClient), p
			site = "smgp30.NewLogin"
		} else {
			auth, _ = smgp30.VerifGenAuthenticatorClient(acc, sec, ts)
			req = &smgp30.Login{Header: smgp.NewHeader(0, smgp.CommandLogin, 7), ClientID: acc, AuthenticatorClient: string(auth), LoginMode: 2, Timestamp: ts, Version: 0x30}
		}
	}
	tr.emit(Ev{"ev": "Build", "proto": proto, "account": S(acc), "secret": S(sec), "ts": int(ts), "auth": B(auth), "site": site})
	// the timestamp pair of a CMPP login (the string goes into the digest, the number into the PDU) taken from a
	// clock that moves on by one second every time it is read, starting just before a minute / day boundary
	{
		base := time.Date(2024, time.Month(1+int(ts)%12), 1+int(ts/12)%28, 23, 59, 58+int(ts)%2, 999000000, time.Local)
		reads := 0
		clock := func() time.Time {
			reads++
			return base.Add(time.Duration(reads-1) * time.Second)
		}
		str, num := cmpp.GenConnectTimestamp(clock)
		tr.emit(Ev{"ev": "Stamp", "s": S(str), "n": int(num), "reads": reads, "site": "cmpp.GenConnectTimestamp"})
	}

	// ---- transmitted, decoded by the server
	wire, err := req.IEncode()
	var acc2, auth2 string
	var ts2 uint32
	decerr := err != nil
	dsite := ""
	if !decerr {
		// "transmitted": the receiver decodes from its read buffer, which is reused for the next packet
		// before the application gets to verify the authenticator
		rbuf := append([]byte{}, wire...)
		viaDispatcher := caseInt(c, "t")%2 == 1
		if viaDispatcher {
			// a server reads every frame through the package's dispatcher; the login it is about to verify is still in
			// its hands when the next client's login comes in and is decoded the same way
			dsite = "/dispatcher"
			first, derr := dispatchers[proto](rbuf)
			for i := range rbuf {
				rbuf[i] = 0xAA
			}
			var decoy []byte
			switch proto {
			case "cmpp20":
				decoy, _ = (&cmpp20.PduConnect{Header: cmpp.NewHeader(0, cmpp.CommandConnect, 9), SourceAddr: "decoy1", AuthenticatorSource: "0123456789abcdef", Version: cmpp.Version20, Timestamp: 101010101}).IEncode()
			case "cmpp30":
				decoy, _ = (&cmpp30.Connect{Header: cmpp.NewHeader(0, cmpp.CommandConnect, 9), SourceAddr: "decoy1", AuthenticatorSource: "0123456789abcdef", Version: cmpp.Version30, Timestamp: 101010101}).IEncode()
			case "smgp30":
				decoy, _ = (&smgp30.Login{Header: smgp.NewHeader(0, smgp.CommandLogin, 9), ClientID: "decoy1", AuthenticatorClient: "0123456789abcdef", LoginMode: 2, Timestamp: 101010101, Version: 0x30}).IEncode()
			}
			_, _ = dispatchers[proto](decoy)
			decerr = derr != nil
			switch p := first.(type) {
			case *cmpp20.PduConnect:
				acc2, auth2, ts2 = p.SourceAddr, p.AuthenticatorSource, p.Timestamp
			case *cmpp30.Connect:
				acc2, auth2, ts2 = p.SourceAddr, p.AuthenticatorSource, p.Timestamp
			case *smgp30.Login:
				acc2, auth2, ts2 = p.ClientID, p.AuthenticatorClient, p.Timestamp
			default:
				decerr = true
			}
		}
		switch map[bool]string{true: "", false: proto}[viaDispatcher] {
		case "cmpp20":
			var p cmpp20.PduConnect
			decerr = p.IDecode(rbuf) != nil
			for i := range rbuf {
				rbuf[i] = 0xAA
			}
			acc2, auth2, ts2 = p.SourceAddr, p.AuthenticatorSource, p.Timestamp
		case "cmpp30":
			var p cmpp30.Connect
			decerr = p.IDecode(rbuf) != nil
			for i := range rbuf {
				rbuf[i] = 0xAA
			}
			acc2, auth2, ts2 = p.SourceAddr, p.AuthenticatorSource, p.Timestamp
		case "smgp30":
			var p smgp30.Login
			decerr = p.IDecode(rbuf) != nil
			for i := range rbuf {
				rbuf[i] = 0xAA
			}
			acc2, auth2, ts2 = p.ClientID, p.AuthenticatorClient, p.Timestamp
		}
		acc2, auth2 = string(append([]byte{}, acc2...)), string(append([]byte{}, auth2...))
	}
	tr.emit(Ev{"ev": "SrvDecode", "decerr": decerr, "account2": S(acc2), "auth2": S(auth2), "ts2": int(ts2), "site": site + dsite})
	if decerr {
		return
	}
	// ---- server verifies with the library's own function on what it decoded
	var recomputed []byte
	if proto == "smgp30" {
		recomputed, _ = smgp30.VerifGenAuthenticatorClient(acc2, sec, ts2)
	} else {
		recomputed = cmpp.GenConnectAuth(acc2, sec, cmpp.TimeStamp2Str(ts2))
	}
	tr.emit(Ev{"ev": "SrvVerify", "recomputed": B(recomputed), "site": site})

	// ---- server replies
	var statusBytes []byte
	if proto == "cmpp20" {
		statusBytes = []byte{byte(status)}
	} else {
		statusBytes = []byte{byte(status >> 24), byte(status >> 16), byte(status >> 8), byte(status)}
	}
	var respAuth []byte
	lib := proto != "smgp30"
	if lib {
		respAuth = cmpp.GenConnectRespAuthISMG(statusBytes, auth2, sec)
	} else {
		// SMGP has no library function for the server authenticator: any 16 octets travel
		d := md5.Sum(append(append(append([]byte{}, statusBytes...), auth2...), sec...))
		respAuth = d[:]
	}
	tr.emit(Ev{"ev": "SrvReply", "status": B(statusBytes), "respauth": B(respAuth), "lib": lib, "site": site})
	var resp codecPDU
	switch proto {
	case "cmpp20":
		resp = &cmpp20.PduConnectResp{Header: cmpp.NewHeader(0, cmpp.CommandConnectResp, 7), Status: uint8(status), AuthenticatorISMG: string(respAuth), Version: 0x20}
	case "cmpp30":
		resp = &cmpp30.ConnectResp{Header: cmpp.NewHeader(0, cmpp.CommandConnectResp, 7), Status: status, AuthenticatorISMG: string(respAuth), Version: 0x30}
	case "smgp30":
		resp = &smgp30.LoginResp{Header: smgp.NewHeader(0, smgp.CommandLoginResp, 7), Status: status, AuthenticatorServer: string(respAuth), ServerVersion: 0x30}
	}
	wire2, err := resp.IEncode()
	var resp2 string
	var st2 []byte
	decerr = err != nil
	// every second exchange the client recomputes first, from the status octets where they lie in its (larger,
	// reused) read buffer, and decodes the frame afterwards
	var early []byte
	if !decerr {
		rbuf2 := append(make([]byte, 0, len(wire2)+64), wire2...)
		if lib && caseInt(c, "t")%2 == 1 && len(rbuf2) >= 16 {
			k := 4
			if proto == "cmpp20" {
				k = 1
			}
			early = cmpp.GenConnectRespAuthISMG(rbuf2[12:12+k], string(auth), sec)
		}
		scribble := func() {
			for i := range rbuf2 {
				rbuf2[i] = 0xAA
			}
		}
		switch proto {
		case "cmpp20":
			var p cmpp20.PduConnectResp
			decerr = p.IDecode(rbuf2) != nil
			scribble()
			resp2, st2 = string(append([]byte{}, p.AuthenticatorISMG...)), []byte{p.Status}
		case "cmpp30":
			var p cmpp30.ConnectResp
			decerr = p.IDecode(rbuf2) != nil
			scribble()
			resp2, st2 = string(append([]byte{}, p.AuthenticatorISMG...)), []byte{byte(p.Status >> 24), byte(p.Status >> 16), byte(p.Status >> 8), byte(p.Status)}
		case "smgp30":
			var p smgp30.LoginResp
			decerr = p.IDecode(rbuf2) != nil
			scribble()
			resp2, st2 = string(append([]byte{}, p.AuthenticatorServer...)), []byte{byte(p.Status >> 24), byte(p.Status >> 16), byte(p.Status >> 8), byte(p.Status)}
		}
	}
	tr.emit(Ev{"ev": "CliDecode", "decerr": decerr, "respauth2": S(resp2), "status2": B(st2), "site": site + ".resp"})
	if decerr {
		return
	}
	// ---- client verifies: recomputation from the authenticator it sent
	var rc []byte
	if early != nil {
		rc = early
	} else if lib {
		rc = cmpp.GenConnectRespAuthISMG(st2, string(auth), sec)
	} else {
		d := md5.Sum(append(append(append([]byte{}, st2...), auth...), sec...))
		rc = d[:]
	}
	tr.emit(Ev{"ev": "CliVerify", "recomputed": B(rc), "received": S(resp2), "site": site + ".resp"})
}

var _ = rand.Int
