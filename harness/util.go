package main

import (
	"bytes"
	"math/rand"
)

func bytesReader(b []byte) *bytes.Reader { return bytes.NewReader(b) }

func randBytes(r *rand.Rand, n int) []byte {
	b := make([]byte, n)
	for i := range b {
		b[i] = byte(r.Intn(256))
	}
	return b
}

// randBytesFrom draws n octets from a small alphabet (so that NULs and
// repeated values are frequent).
func randBytesFrom(r *rand.Rand, n int, alpha []byte) []byte {
	b := make([]byte, n)
	for i := range b {
		b[i] = alpha[r.Intn(len(alpha))]
	}
	return b
}

func pick(r *rand.Rand, xs ...int) int { return xs[r.Intn(len(xs))] }
