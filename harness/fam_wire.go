package main

import (
	stdbytes "bytes"
	"github.com/hujm2023/go-sms-protocol/cmpp"
	"github.com/hujm2023/go-sms-protocol/smgp"
	"math/rand"
	"reflect"
	"strings"
	"testing/iotest"
)

// Family "wire" (C01, C02, C11): every PDU type through the real IEncode /
// IDecode.  Inputs are generated from the layouts (widths are used to place
// boundary values only).

func init() {
	families["wire"] = family{gen: genWire, run: runWire}
}

func nulFree(r *rand.Rand, n int) []byte {
	b := make([]byte, n)
	for i := range b {
		switch r.Intn(6) {
		case 0:
			b[i] = 0xff
		case 1:
			b[i] = byte(1 + r.Intn(255))
		default:
			b[i] = byte('0' + r.Intn(75))
		}
	}
	return b
}

// defaultAssign: a small well-formed assignment
func defaultAssign(r *rand.Rand, tn string, random bool) assign {
	a := assign{}
	ts := layouts[tn]
	for _, f := range ts.Fields {
		switch f.K {
		case "U":
			v := uint64(0)
			if random {
				v = r.Uint64()
				if r.Intn(4) == 0 {
					v = []uint64{0, 1, 0x7f, 0x80, 0xff, ^uint64(0)}[r.Intn(6)]
				}
			}
			if f.W < 8 {
				v &= (uint64(1) << (8 * uint(f.W))) - 1
			}
			b := make([]byte, f.W)
			for i := f.W - 1; i >= 0; i-- {
				b[i] = byte(v)
				v >>= 8
			}
			a[f.N] = fval{b: b}
		case "F":
			n := 0
			if random {
				n = r.Intn(f.W + 1)
			}
			a[f.N] = fval{b: nulFree(r, n)}
		case "FB", "FH":
			b := make([]byte, f.W)
			if random {
				b = randBytes(r, f.W)
				if r.Intn(3) == 0 {
					b[r.Intn(f.W)] = 0
				}
			} else {
				for i := range b {
					b[i] = byte(i + 1)
				}
			}
			a[f.N] = fval{b: b}
		case "C":
			n := 0
			if random {
				n = r.Intn(20)
			}
			a[f.N] = fval{b: nulFree(r, n)}
		case "N", "Z":
			a[f.N] = fval{b: make([]byte, f.W)} // fixed up below
		case "L":
			n := 0
			if random {
				n = r.Intn(4)
			}
			var l [][]byte
			for i := 0; i < n; i++ {
				l = append(l, nulFree(r, r.Intn(f.W+1)))
			}
			a[f.N] = fval{list: l}
		case "B":
			n := 0
			if random {
				n = r.Intn(161)
			}
			a[f.N] = fval{b: randBytes(r, n)}
		case "T", "O":
			var xs []tlvVal
			if random {
				seen := map[int]bool{}
				for i := r.Intn(4); i > 0; i-- {
					tag := []int{0, 1, 2, 0x0204, 0x0424, 0xffff, r.Intn(65536)}[r.Intn(7)]
					if seen[tag] {
						continue
					}
					seen[tag] = true
					xs = append(xs, tlvVal{tag, randBytes(r, []int{0, 1, 2, 7, 255, 300}[r.Intn(6)])})
				}
			}
			a[f.N] = fval{tlvs: xs}
		}
	}
	setCmd(tn, a)
	fixCounts(tn, a)
	return a
}

func setCmd(tn string, a assign) {
	c := layouts[tn].Cmd
	if _, ok := a["cmd"]; ok {
		a["cmd"] = fval{b: []byte{byte(c >> 24), byte(c >> 16), byte(c >> 8), byte(c)}}
	}
}

// fixCounts makes every declared count / length equal to the actual one
func fixCounts(tn string, a assign) {
	fs := layouts[tn].Fields
	for i, f := range fs {
		n := -1
		switch f.K {
		case "N":
			n = len(a[fs[i+1].N].list)
		case "Z":
			n = len(a[fs[i+1].N].b)
		}
		if n >= 0 {
			b := make([]byte, f.W)
			v := n
			for j := f.W - 1; j >= 0; j-- {
				b[j] = byte(v)
				v >>= 8
			}
			a[f.N] = fval{b: b}
		}
	}
}

func cloneAssign(a assign) assign {
	o := assign{}
	for k, v := range a {
		o[k] = v
	}
	return o
}

func genWire(g *genCtx) {
	r := g.rng(1)
	n := 0
	emit := func(c Case) {
		if g.mine(n) {
			g.emit(c)
		}
		n++
	}
	rt := func(tn string, a assign) {
		c := Case{"k": "rt", "type": tn, "p": assignToJSON(tn, a)}
		// every fourth struct still holds the length member of an earlier encode or decode (a PDU that is
		// edited and sent again): the prefix written must be the real byte count all the same
		if n%4 == 2 {
			c["stale"] = []int{12, 13, 255, 65536 + n%1000, 1 << 30}[(n/4)%5]
		}
		emit(c)
	}
	if g.part == "" || g.part == "rt" {
		emit(Case{"k": "tags", "type": "smgp30.Submit"})
		for _, tn := range typeNames {
			base := defaultAssign(r, tn, false)
			rt(tn, base)
			// fixed binary fields (digests, message ids) whose octets happen to be ASCII digits or hexadecimal letters
			for _, alpha := range []string{"0123456789012345678901234567890123456789", "ABCDEFabcdef0123456789ABCDEFabcdef012345"} {
				hx, any := cloneAssign(base), false
				for _, f := range layouts[tn].Fields {
					if (f.K == "FB" || f.K == "FH") && f.W <= len(alpha) {
						hx[f.N] = fval{b: []byte(alpha[:f.W])}
						any = true
					}
				}
				if any {
					rt(tn, hx)
				}
			}
			if tf := tailField(tn); tf != "" {
				// the text travelling in an optional parameter (message_payload and friends) with an empty body,
				// and next to a body
				for _, tag := range []int{0x0424, 0x0204, 0x001e, 1, 2} {
					a := cloneAssign(base)
					a[tf] = fval{tlvs: []tlvVal{{tag, randBytes(r, 1+r.Intn(60))}}}
					rt(tn, a)
					b := defaultAssign(r, tn, true)
					b[tf] = fval{tlvs: []tlvVal{{tag, randBytes(r, 1+r.Intn(60))}}}
					fixCounts(tn, b)
					rt(tn, b)
				}
			}
			fs := layouts[tn].Fields
			for i, f := range fs {
				switch f.K {
				case "F":
					lens := []int{1, f.W - 1, f.W}
					if g.thorough() {
						lens = nil
						for k := 1; k <= f.W; k++ {
							lens = append(lens, k)
						}
					}
					for _, k := range lens {
						if k < 0 {
							continue
						}
						a := cloneAssign(base)
						a[f.N] = fval{b: nulFree(r, k)}
						rt(tn, a)
					}
					a := cloneAssign(base)
					a[f.N] = fval{b: bytesOf(0xff, f.W)}
					rt(tn, a)
					// a value that does not fit the slot: encoding must fail
					for _, extra := range []int{1, 2, 40} {
						a = cloneAssign(base)
						a[f.N] = fval{b: nulFree(r, f.W+extra)}
						rt(tn, a)
					}
					// ... also when it is too long in octets but not in characters (multi-byte UTF-8)
					for _, ch := range []string{"é", "中", "😀"} {
						s := ""
						for len(s) <= f.W {
							s += ch
						}
						a = cloneAssign(base)
						a[f.N] = fval{b: []byte(s)}
						rt(tn, a)
						if len(s)-len(ch) > 0 { // and a multi-byte value that fits exactly or nearly
							a = cloneAssign(base)
							a[f.N] = fval{b: []byte(s[:len(s)-len(ch)])}
							rt(tn, a)
						}
					}
				case "FB", "FH":
					for _, fill := range []int{0x00, 0xff, -1, -2} {
						a := cloneAssign(base)
						b := bytesOf(byte(fill), f.W)
						if fill == -1 {
							b = randBytes(r, f.W)
							b[f.W/2] = 0
						} else if fill == -2 {
							b = randBytes(r, f.W)
							b[f.W-1] = 0
							b[0] = 0
						}
						a[f.N] = fval{b: b}
						rt(tn, a)
					}
				case "U":
					for _, fill := range []byte{0xff, 0x80, 0x01} {
						a := cloneAssign(base)
						a[f.N] = fval{b: bytesOf(fill, f.W)}
						if f.N == "cmd" {
							continue
						}
						rt(tn, a)
					}
				case "C":
					for _, k := range []int{1, 8, 65, 300} {
						a := cloneAssign(base)
						a[f.N] = fval{b: nulFree(r, k)}
						rt(tn, a)
					}
				case "L":
					counts := []int{1, 2, 12, 13, 99, 100, 255}
					if g.thorough() {
						counts = nil
						for k := 1; k <= 255; k++ {
							counts = append(counts, k)
						}
					}
					for _, k := range counts {
						a := cloneAssign(base)
						var l [][]byte
						for j := 0; j < k; j++ {
							l = append(l, nulFree(r, r.Intn(f.W+1)))
						}
						a[f.N] = fval{list: l}
						fixCounts(tn, a)
						rt(tn, a)
					}
					a := cloneAssign(base)
					a[f.N] = fval{list: [][]byte{nulFree(r, f.W+1)}}
					fixCounts(tn, a)
					rt(tn, a)
				case "B":
					lens := []int{1, 2, 139, 140, 160, 254, 255}
					if g.thorough() {
						lens = nil
						for k := 1; k <= 255; k++ {
							lens = append(lens, k)
						}
					}
					if fs[i-1].W == 4 { // SGIP: 32-bit length
						lens = append(lens, 256, 1000)
						if g.thorough() {
							lens = append(lens, 65535, 65536)
						}
					}
					for _, k := range lens {
						a := cloneAssign(base)
						a[f.N] = fval{b: randBytes(r, k)}
						fixCounts(tn, a)
						rt(tn, a)
					}
				case "T", "O":
					sets := [][]tlvVal{
						{{1, []byte{}}}, {{2, []byte{1}}}, {{0, []byte{9}}, {0xffff, []byte{1, 2}}},
						{{0x0204, []byte{0, 1}}, {0x0424, randBytes(r, 255)}, {3, randBytes(r, 20)}},
					}
					if g.thorough() {
						sets = append(sets, []tlvVal{{7, randBytes(r, 65531)}}, []tlvVal{{7, randBytes(r, 4000)}, {8, randBytes(r, 30000)}})
						var many []tlvVal
						for k := 0; k < 32; k++ {
							many = append(many, tlvVal{100 + k, randBytes(r, k)})
						}
						sets = append(sets, many)
					}
					for _, s := range sets {
						a := cloneAssign(base)
						a[f.N] = fval{tlvs: s}
						rt(tn, a)
					}
				}
			}
			nr := 25
			if g.thorough() {
				nr = 2500
			}
			for i := 0; i < nr; i++ {
				rt(tn, defaultAssign(r, tn, true))
			}
		}
	}
	if g.part == "body" {
		// the CMPP status-report body alone (C18)
		tn := "cmpp.SubPduDeliveryContent"
		nr := 300
		if g.thorough() {
			nr = 5000
		}
		rt(tn, defaultAssign(r, tn, false))
		for _, f := range layouts[tn].Fields {
			if f.K == "F" {
				for k := 0; k <= f.W+1; k++ {
					a := defaultAssign(r, tn, false)
					a[f.N] = fval{b: nulFree(r, k)}
					rt(tn, a)
				}
			}
		}
		for i := 0; i < nr; i++ {
			rt(tn, defaultAssign(r, tn, true))
		}
	}
	if g.part == "" || g.part == "relay" {
		genRelay(g, r, emit)
	}
}

func bytesOf(x byte, n int) []byte {
	b := make([]byte, n)
	for i := range b {
		b[i] = x
	}
	return b
}

// slotOffsets walks an image produced from an assignment and returns, per field, [offset, length)
func slotOffsets(tn string, a assign) map[string][2]int {
	out := map[string][2]int{}
	off := 0
	if tn != "cmpp.SubPduDeliveryContent" {
		off = 4
	}
	for _, f := range layouts[tn].Fields {
		n := 0
		switch f.K {
		case "U", "N", "Z", "F", "FB", "FH":
			n = f.W
		case "C":
			n = len(a[f.N].b) + 1
		case "L":
			n = f.W * len(a[f.N].list)
		case "B":
			n = len(a[f.N].b)
		case "T", "O":
			for _, x := range a[f.N].tlvs {
				n += 4 + len(x.V)
			}
		}
		out[f.N] = [2]int{off, n}
		off += n
	}
	return out
}

// refImage assembles the image the layout table prescribes for an assignment (fields in order, integers big-endian,
// fixed slots NUL-padded, C-strings terminated, triplets tag/length/value), with the length prefix - without the
// library's encoder.  Used for relay inputs only; TLC judges what the library makes of them.
func refImage(tn string, a assign) []byte {
	var b []byte
	if tn != "cmpp.SubPduDeliveryContent" {
		b = make([]byte, 4)
	}
	for _, f := range layouts[tn].Fields {
		v := a[f.N]
		switch f.K {
		case "U", "N", "Z":
			b = append(b, v.b...)
		case "F":
			slot := make([]byte, f.W)
			copy(slot, v.b)
			b = append(b, slot...)
		case "FB":
			b = append(b, v.b...)
		case "FH":
			b = append(b, v.b...)
		case "C":
			b = append(append(b, v.b...), 0)
		case "L":
			for _, x := range v.list {
				slot := make([]byte, f.W)
				copy(slot, x)
				b = append(b, slot...)
			}
		case "B":
			b = append(b, v.b...)
		case "T", "O":
			for _, x := range v.tlvs {
				b = append(b, byte(x.T>>8), byte(x.T), byte(len(x.V)>>8), byte(len(x.V)))
				b = append(b, x.V...)
			}
		}
	}
	if tn != "cmpp.SubPduDeliveryContent" {
		setPrefix(b)
	}
	return b
}

func setPrefix(b []byte) {
	if len(b) >= 4 {
		n := len(b)
		b[0], b[1], b[2], b[3] = byte(n>>24), byte(n>>16), byte(n>>8), byte(n)
	}
}

func genRelay(g *genCtx, r *rand.Rand, emit func(Case)) {
	relay := func(tn string, b0 []byte) {
		emit(Case{"k": "relay", "type": tn, "b0": B(b0)})
	}
	nr := 6
	if g.thorough() {
		nr = 150
	}
	// images followed by octets that are not part of them (the next frame's beginning, padding): a decoder that takes such
	// input has taken a PDU it can encode again
	for _, tn := range typeNames {
		fa := defaultAssign(r, tn, true)
		for _, f := range layouts[tn].Fields {
			if f.K == "F" { // every fixed-width text at its full width: what follows the image follows a field without padding
				fa[f.N] = fval{b: nulFree(r, f.W)}
			}
		}
		img, err := build(tn, fa).IEncode()
		if err != nil {
			continue
		}
		for _, k := range []int{1, 11, 12, 40} {
			junk := nulFree(r, k)
			b0 := append(append([]byte{}, img...), junk...)
			relay(tn, b0)
			if tn != "cmpp.SubPduDeliveryContent" {
				b1 := append([]byte{}, b0...)
				setPrefix(b1)
				relay(tn, b1)
			}
		}
	}
	// canonical images in which the text travels in an optional parameter: with an empty body (base assignment) and next to one
	for _, tn := range typeNames {
		tf := tailField(tn)
		if tf == "" {
			continue
		}
		for _, tag := range []int{0x0424, 0x0204, 0x001e, 1, 2} {
			for _, full := range []bool{false, true} {
				a := defaultAssign(r, tn, full)
				a[tf] = fval{tlvs: []tlvVal{{tag, randBytes(r, 1+r.Intn(60))}}}
				fixCounts(tn, a)
				if img, err := build(tn, a).IEncode(); err == nil {
					relay(tn, img)
				}
			}
		}
	}
	// the far end of the scope: the largest destination counts with the longest bodies (whatever a decoder accepts
	// must be encodable again)
	for _, tn := range typeNames {
		var lf, bf *fieldSpec
		for i := range layouts[tn].Fields {
			f := &layouts[tn].Fields[i]
			if f.K == "L" {
				lf = f
			}
			if f.K == "B" {
				bf = f
			}
		}
		if lf == nil {
			continue
		}
		for _, n := range []int{99, 100, 101, 254, 255} {
			for _, bl := range []int{0, 139, 140, 161, 255} {
				if !g.thorough() && (n+bl)%3 != 0 {
					continue
				}
				a := defaultAssign(r, tn, true)
				l := make([][]byte, n)
				for i := range l {
					l[i] = nulFree(r, lf.W)
				}
				a[lf.N] = fval{list: l}
				if bf != nil {
					a[bf.N] = fval{b: randBytes(r, bl)}
				}
				fixCounts(tn, a)
				// the image is assembled from the layout table, not by the library's encoder
				relay(tn, refImage(tn, a))
			}
		}
	}
	for _, tn := range typeNames {
		for it := 0; it < nr; it++ {
			a := defaultAssign(r, tn, it > 0)
			img, err := build(tn, a).IEncode()
			if err != nil {
				continue
			}
			relay(tn, img) // canonical
			offs := slotOffsets(tn, a)
			hasTail := false
			for _, f := range layouts[tn].Fields {
				o := offs[f.N]
				switch f.K {
				case "F":
					// junk after the first NUL inside the slot
					if len(a[f.N].b)+2 <= f.W && o[0]+o[1] <= len(img) {
						m := append([]byte{}, img...)
						for j := o[0] + len(a[f.N].b) + 1; j < o[0]+o[1]; j++ {
							m[j] = byte('A' + r.Intn(26))
						}
						relay(tn, m)
					}
				case "U":
					if f.N != "cmd" && o[0]+o[1] <= len(img) {
						for _, fill := range []byte{0xff, 0x00, 0x01} {
							if fill != 0xff && o[1] > 1 {
								continue
							}
							m := append([]byte{}, img...)
							for j := o[0]; j < o[0]+o[1]; j++ {
								m[j] = fill
							}
							relay(tn, m)
						}
					}
				case "N", "Z":
					if o[0]+o[1] <= len(img) {
						for _, d := range []int{-1, 1} {
							m := append([]byte{}, img...)
							m[o[0]+o[1]-1] = byte(int(m[o[0]+o[1]-1]) + d)
							relay(tn, m)
						}
					}
				case "T", "O":
					hasTail = true
				}
			}
			// trailing garbage (PDUs without optional parameters ignore it)
			m := append(append([]byte{}, img...), randBytes(r, 1+r.Intn(6))...)
			relay(tn, m)
			if hasTail && it < 3 {
				fixed := img
				if len(a[tailField(tn)].tlvs) > 0 {
					b := cloneAssign(a)
					b[tailField(tn)] = fval{}
					fixed, _ = build(tn, b).IEncode()
				}
				// duplicate tags, later one wins
				m := append([]byte{}, fixed...)
				m = append(m, 0, 5, 0, 1, 0xaa, 0, 5, 0, 2, 0xbb, 0xcc)
				setPrefix(m)
				relay(tn, m)
				// maximum-length values
				for _, L := range []int{65531, 65532, 65535} {
					if !g.thorough() && L == 65531 && !strings.HasPrefix(tn, "smpp34.S") {
						continue
					}
					m := append([]byte{}, fixed...)
					m = append(m, 0x14, 0x01, byte(L>>8), byte(L))
					m = append(m, randBytes(r, L)...)
					setPrefix(m)
					relay(tn, m)
				}
				// incomplete trailing triplet
				m = append([]byte{}, fixed...)
				m = append(m, 0, 9, 0, 4, 1)
				setPrefix(m)
				relay(tn, m)
			}
		}
	}
}

func tailField(tn string) string {
	for _, f := range layouts[tn].Fields {
		if f.K == "T" || f.K == "O" {
			return f.N
		}
	}
	return ""
}

var usedObjs = map[string]codecPDU{}

func runWire(c Case, tr *Tracer) {
	tn := caseStr(c, "type")
	switch caseStr(c, "k") {
	case "tags":
		// the names the library exports for the SMGP optional parameters, as numbers, and an image built through each name
		names := []string{"TP_pid", "TP_udhi", "LinkID", "ChargeUserType", "ChargeTermType", "ChargeTermPseudo", "DestTermType", "DestTermPseudo", "PkTotal",
			"PkNumber", "SubmitMsgType", "SPDealReslt", "SrcTermType", "SrcTermPseudo", "NodesCount", "MsgSrc", "SrcType", "MServiceID"}
		vals := []smgp.Tag{smgp.TAG_TP_pid, smgp.TAG_TP_udhi, smgp.TAG_LinkID, smgp.TAG_ChargeUserType, smgp.TAG_ChargeTermType, smgp.TAG_ChargeTermPseudo,
			smgp.TAG_DestTermType, smgp.TAG_DestTermPseudo, smgp.TAG_PkTotal, smgp.TAG_PkNumber, smgp.TAG_SubmitMsgType, smgp.TAG_SPDealResult, smgp.TAG_SrcTermType,
			smgp.TAG_SrcTermPseudo, smgp.TAG_NodesCount, smgp.TAG_MsgSrc, smgp.TAG_SrcType, smgp.TAG_MServiceID}
		rows := []interface{}{}
		for i, nm := range names {
			opts := smgp.Options{}
			opts.Add(smgp.NewOption(vals[i], []byte{0x5A}))
			rows = append(rows, Ev{"name": nm, "value": int(vals[i]), "image": B(opts.Serialize())})
		}
		tr.emit(Ev{"ev": "TagTable", "rows": rows, "site": "smgp.TAG_*"})
	case "rt":
		pm, _ := c["p"].(map[string]interface{})
		a := assignFromJSON(tn, pm)
		obj := build(tn, a)
		if v := caseInt(c, "stale"); v > 0 {
			setHeaderLen(obj, uint64(v))
		}
		p := project(tn, obj) // what is actually in the struct, before IEncode may touch it
		var bytes []byte
		var err error
		if guard(func() { bytes, err = obj.IEncode() }) {
			tr.emit(Ev{"ev": "RT", "type": tn, "p": p, "encerr": true, "bytes": []int{}, "decerr": true, "p2": map[string]interface{}{"x": 0}, "hlen2": []int{}, "site": tn + ".IEncode.panic", "dtype": "skip", "dsame": true})
			return
		}
		e := Ev{"ev": "RT", "type": tn, "p": p, "encerr": err != nil, "bytes": B(bytes), "decerr": true, "p2": map[string]interface{}{"x": 0}, "hlen2": []int{}, "site": tn,
			"dtype": "skip", "dsame": true}
		if err == nil {
			fresh := ctors[tn]()
			var derr error
			if caseInt(c, "t")%2 == 0 && len(bytes) > 6 {
				// the frame before this one was cut short and refused (what a decoder keeps from that is its own business)
				guard(func() { _ = ctors[tn]().IDecode(append([]byte{}, bytes[:len(bytes)/2]...)) })
				if tn != "cmpp.SubPduDeliveryContent" {
					dispatchName(tn[:6], bytes[:len(bytes)-1])
				}
			}
			img := append([]byte{}, bytes...)
			pan, hung := guardT(func() { derr = fresh.IDecode(img) }, tn+".IDecode")
			if pan {
				e["site"] = tn + ".IDecode.panic"
			} else if hung {
				e["site"] = tn + ".IDecode.hang"
			} else if derr == nil {
				e["decerr"] = false
				// the read buffer is used for the next frame before the application looks at the PDU
				img2 := append([]byte{}, img...)
				for i := range img {
					img[i] = 0xEE
				}
				img = img2
				e["p2"] = project(tn, fresh)
				e["hlen2"] = headerLen(fresh)
				// the package's dispatcher is the other way into the same decoder: both must read the image alike
				if tn != "cmpp.SubPduDeliveryContent" {
					dt, dp := dispatchName(tn[:6], img)
					e["dtype"] = dt
					if dp != nil && dt == tn {
						if cp, ok := dp.(codecPDU); ok {
							e["dsame"] = snapJSON(project(tn, cp)) == snapJSON(e["p2"])
						}
					}
				}
			}
			// the same conformant image into an object that held another PDU of the type before: the same values
			if e["decerr"] == false {
				u := usedObjs["rt:"+tn]
				if u == nil {
					u = ctors[tn]()
					usedObjs["rt:"+tn] = u
				}
				var uerr error
				if guard(func() { uerr = u.IDecode(append([]byte{}, bytes...)) }) || uerr != nil {
					e["usame"] = false
					delete(usedObjs, "rt:"+tn)
				} else {
					e["usame"] = snapJSON(project(tn, u)) == snapJSON(e["p2"])
				}
				// the header through the stream entry point, the octets arriving one at a time
				switch tn[:4] {
				case "cmpp":
					if tn != "cmpp.SubPduDeliveryContent" {
						h1, e1 := cmpp.NewHeaderFromReader(iotest.OneByteReader(stdbytes.NewReader(append([]byte{}, bytes...))))
						h2, e2 := cmpp.PeekHeader(bytes)
						e["hdrok"] = e1 == nil && e2 == nil && h1 == h2
					}
				case "smgp":
					h1, e1 := smgp.NewHeaderFromReader(iotest.OneByteReader(stdbytes.NewReader(append([]byte{}, bytes...))))
					h2, e2 := smgp.PeekHeader(bytes)
					e["hdrok"] = e1 == nil && e2 == nil && h1 == h2
				}
			}
			// the caller goes on using the PDU it was given: it adds to its containers and overwrites its byte fields.
			// Nothing of that may show in a PDU decoded later.
			callerMutates(fresh)
		}
		tr.emit(e)
	case "relay":
		b0 := caseBytes(c, "b0")
		nop := map[string]interface{}{"x": 0}
		e := Ev{"ev": "Relay", "type": tn, "b0": B(b0), "panic": false, "decerr": true, "p1": nop, "encerr": true, "b1": []int{}, "dec2err": true, "p2": nop, "site": tn}
		p1 := ctors[tn]()
		var err error
		if pan, hung := guardT(func() { err = p1.IDecode(append([]byte{}, b0...)) }, tn+".IDecode"); pan || hung {
			// a panic or hang on arbitrary input is C03's business; not a relay verdict
			tr.emit(e)
			return
		}
		// the same image into an object that has been decoded into before (a receive loop that keeps one PDU per type)
		e["u"], e["b1u"] = "skip", []int{}
		if err == nil {
			u := usedObjs[tn]
			if u == nil {
				u = ctors[tn]()
				usedObjs[tn] = u
			}
			var uerr error
			var bu []byte
			if guard(func() { uerr = u.IDecode(append([]byte{}, b0...)) }) {
				e["u"] = "panic"
				delete(usedObjs, tn)
			} else if uerr != nil {
				e["u"] = "decerr"
			} else if guard(func() { bu, uerr = u.IEncode() }) {
				e["u"] = "panic"
				delete(usedObjs, tn)
			} else if uerr != nil {
				e["u"] = "encerr"
			} else {
				e["u"], e["b1u"] = "ok", B(bu)
			}
		}
		// ... and through the dispatcher, the PDU kept while the next frame of the same command (another sequence number)
		// is dispatched: what is re-encoded afterwards is still the first one
		e["h"], e["b1h"] = "skip", []int{}
		if err == nil && tn != "cmpp.SubPduDeliveryContent" {
			if dt, dp := dispatchName(tn[:6], b0); dt == tn && dp != nil {
				if hp, ok := dp.(codecPDU); ok {
					sib := append([]byte{}, b0...)
					so := map[string]int{"cmpp20": 11, "cmpp30": 11, "smgp30": 11, "smpp34": 15, "sgip12": 19}[tn[:6]]
					if so < len(sib) {
						sib[so] ^= 0x55
						dispatchName(tn[:6], sib)
						var bh []byte
						var herr error
						if guard(func() { bh, herr = hp.IEncode() }) {
							e["h"] = "panic"
						} else if herr != nil {
							e["h"] = "encerr"
						} else {
							e["h"], e["b1h"] = "ok", B(bh)
						}
					}
				}
			}
		}
		if err == nil {
			e["decerr"] = false
			e["p1"] = project(tn, p1)
			var b1 []byte
			if guard(func() { b1, err = p1.IEncode() }) {
				e["panic"] = true
			} else if err == nil {
				e["encerr"] = false
				e["b1"] = B(b1)
				p2 := ctors[tn]()
				if guard(func() { err = p2.IDecode(append([]byte{}, b1...)) }) {
					e["panic"] = true
				} else if err == nil {
					e["dec2err"] = false
					e["p2"] = project(tn, p2)
				}
				// a relay adds its own parameters to what it forwards (after this PDU was judged); later PDUs are not its business
				callerMutates(p1)
			}
		}
		tr.emit(e)
	}
}

// callerMutates changes a decoded PDU the way its owner may: entries added to map-typed members (option containers),
// octets of byte members overwritten, list members changed in place
func callerMutates(obj interface{}) {
	defer func() { _ = recover() }()
	var walk func(v reflect.Value, depth int)
	walk = func(v reflect.Value, depth int) {
		if depth > 3 {
			return
		}
		switch v.Kind() {
		case reflect.Ptr, reflect.Interface:
			if !v.IsNil() {
				walk(v.Elem(), depth+1)
			}
		case reflect.Struct:
			for i := 0; i < v.NumField(); i++ {
				if v.Type().Field(i).PkgPath == "" {
					walk(v.Field(i), depth+1)
				}
			}
		case reflect.Map:
			// octets the owner can reach through the entries' accessors are the owner's too
			for _, k := range v.MapKeys() {
				if m := v.MapIndex(k).MethodByName("Value"); m.IsValid() && m.Type().NumIn() == 0 && m.Type().NumOut() == 1 {
					if b, ok := m.Call(nil)[0].Interface().([]byte); ok {
						for i := range b {
							b[i] = 0xEE
						}
					}
				}
			}
			if !v.IsNil() {
				k := reflect.New(v.Type().Key()).Elem()
				switch k.Kind() {
				case reflect.Uint8, reflect.Uint16, reflect.Uint32, reflect.Uint64, reflect.Uint:
					k.SetUint(0x77)
				case reflect.Int, reflect.Int16, reflect.Int32, reflect.Int64:
					k.SetInt(0x77)
				case reflect.String:
					k.SetString("caller")
				default:
					return
				}
				v.SetMapIndex(k, reflect.New(v.Type().Elem()).Elem())
			}
		case reflect.Slice:
			if v.Type().Elem().Kind() == reflect.Uint8 {
				for i := 0; i < v.Len(); i++ {
					v.Index(i).SetUint(0xEE)
				}
			} else if v.Type().Elem().Kind() == reflect.String {
				for i := 0; i < v.Len(); i++ {
					v.Index(i).SetString("caller")
				}
			}
		}
	}
	walk(reflect.ValueOf(obj), 0)
}
