package main

import (
	"encoding/binary"
	"math/rand"
	"strings"

	"github.com/hujm2023/go-sms-protocol/packet"
)

// Family "packet" (C20): operation sequences on the real packet.Writer and
// packet.Reader.  A case is a list of ops; every op is one event.

func init() {
	families["packet"] = family{gen: genPacket, run: runPacket}
}

type op = map[string]interface{}

func genPacket(g *genCtx) {
	nSeq := 400
	maxOps := 40
	maxStr := 24
	if g.thorough() {
		nSeq, maxOps, maxStr = 5000, 200, 300
	}
	r := g.rng(20)
	alphas := [][]byte{{0, 1, 2}, {0, 'a', 'b', 0xff}, nil}
	for i := 0; i < nSeq; i++ {
		if !g.mine(i) {
			// keep the random stream aligned across shards
			_ = r.Int63()
			continue
		}
		rr := rand.New(rand.NewSource(r.Int63()))
		alpha := alphas[rr.Intn(len(alphas))]
		str := func(max int) []byte {
			n := rr.Intn(max + 1)
			if rr.Intn(4) == 0 {
				n = rr.Intn(4)
			}
			if alpha == nil {
				return randBytes(rr, n)
			}
			return randBytesFrom(rr, n, alpha)
		}
		nops := rr.Intn(maxOps + 1)
		failAt := -1
		if rr.Intn(3) == 0 && nops > 0 {
			failAt = rr.Intn(nops)
		}
		var ops []op
		var mirror []op
		for j := 0; j < nops; j++ {
			if j != failAt && rr.Intn(40) == 0 {
				// a fixed-width field far wider than any PDU slot
				s := str(maxStr)
				n := []int{255, 256, 257, 300, 1024, 4096}[rr.Intn(6)]
				ops = append(ops, op{"op": "WFix", "v": B(s), "n": n})
				mirror = append(mirror, op{"op": "RCStrN", "n": n})
				continue
			}
			if j == failAt {
				s := str(maxStr)
				s = append(s, 1)
				n := rr.Intn(len(s))
				if rr.Intn(3) == 0 {
					// too long in octets but not in characters
					s = []byte(strings.Repeat(pickS(rr, "é", "中", "😀"), 1+rr.Intn(6)))
					n = len(s) - 1 - rr.Intn(len(s)/2)
				}
				ops = append(ops, op{"op": "WFix", "v": B(s), "n": n})
				continue
			}
			switch rr.Intn(8) {
			case 0, 1:
				k := pick(rr, 1, 2, 4, 8)
				v := rr.Uint64()
				if rr.Intn(3) == 0 {
					v = []uint64{0, 1, 0xff, 0xffff, 0xffffffff, ^uint64(0), 0x80000000}[rr.Intn(7)]
				}
				if k < 8 {
					v &= (uint64(1) << (8 * uint(k))) - 1
				}
				ops = append(ops, op{"op": "WU", "k": k, "v": be(v, k)})
				mirror = append(mirror, op{"op": "RU", "n": k})
			case 2:
				s := str(maxStr)
				ops = append(ops, op{"op": "WBytes", "v": B(s)})
				mirror = append(mirror, op{"op": "RBytes", "n": len(s)})
			case 3:
				s := str(maxStr)
				ops = append(ops, op{"op": "WStr", "v": B(s)})
				mirror = append(mirror, op{"op": pickS(rr, "RNBytes", "RCStrNT"), "n": len(s)})
			case 4:
				s := str(maxStr)
				ops = append(ops, op{"op": "WCStr", "v": B(s)})
				mirror = append(mirror, op{"op": "RCStr", "n": 0})
			case 5, 6:
				s := str(maxStr)
				n := len(s) + rr.Intn(6)
				if rr.Intn(3) == 0 {
					n = len(s)
				}
				ops = append(ops, op{"op": "WFix", "v": B(s), "n": n})
				mirror = append(mirror, op{"op": "RCStrN", "n": n})
			case 7:
				ops = append(ops, op{"op": pickS(rr, "OBytes", "OBytesLen")})
			}
		}
		ops = append(ops, op{"op": "OBytes"}, op{"op": "OBytesLen"})
		switch rr.Intn(3) {
		case 0: // mirrored reads over the whole output, then reads past the end
			ops = append(ops, op{"op": "NewR", "src": "w"})
			if failAt < 0 {
				for mi, m := range mirror {
					m["mi"] = mi + 1
					ops = append(ops, m)
				}
			}
			for j := rr.Intn(5); j > 0; j-- {
				ops = append(ops, randRead(rr, maxStr))
			}
		case 1: // arbitrary reads over a prefix of the output
			ops = append(ops, op{"op": "NewR", "src": "pre", "k": rr.Intn(maxStr * 2)})
			for j := rr.Intn(maxOps + 1); j > 0; j-- {
				ops = append(ops, randRead(rr, maxStr))
			}
		case 2: // arbitrary reads over arbitrary input
			ops = append(ops, op{"op": "NewR", "src": "in", "in": B(str(maxStr * 3))})
			for j := rr.Intn(maxOps + 1); j > 0; j-- {
				ops = append(ops, randRead(rr, maxStr))
			}
		}
		g.emit(Case{"ops": ops})
	}
}

func pickS(r *rand.Rand, xs ...string) string { return xs[r.Intn(len(xs))] }

func randRead(r *rand.Rand, maxStr int) op {
	n := r.Intn(maxStr + 1)
	if r.Intn(3) == 0 {
		n = r.Intn(4) - 1
	}
	switch r.Intn(7) {
	case 0:
		return op{"op": "RU", "n": pick(r, 1, 2, 4, 8), "mi": 0}
	case 1:
		if n < 0 {
			n = 0
		}
		return op{"op": "RBytes", "n": n, "mi": 0}
	case 2:
		return op{"op": "RNBytes", "n": n, "mi": 0}
	case 3:
		return op{"op": "RCStrN", "n": n, "mi": 0}
	case 4:
		return op{"op": "RCStrNT", "n": n, "mi": 0}
	default:
		return op{"op": "RCStr", "n": 0, "mi": 0}
	}
}

var heldErrs []error
var heldErrTexts []string

func runPacket(c Case, tr *Tracer) {
	w := packet.NewPacketWriter()
	defer w.Release()
	var rd *packet.Reader
	tr.emit(Ev{"ev": "NewW"})
	wst := func(e Ev) Ev {
		e["w"] = w.Written()
		e["len"] = w.Len()
		e["err"] = errStr(w.Error())
		return e
	}
	// values handed out by earlier reads are kept and looked at again after every later read
	var held [][]byte
	var heldSnap []string
	rst := func(e Ev, o op) Ev {
		stale := false
		for i := range held {
			if string(held[i]) != heldSnap[i] {
				stale = true
				heldSnap[i] = string(held[i]) // reported once
			}
		}
		// error values handed out earlier (by this reader or by readers before it) are values too: they keep saying what they said
		for i := range heldErrs {
			if heldErrs[i].Error() != heldErrTexts[i] {
				stale = true
				heldErrTexts[i] = heldErrs[i].Error()
			}
		}
		if er := rd.Error(); er != nil && (len(heldErrs) == 0 || heldErrs[len(heldErrs)-1] != er) {
			if len(heldErrs) >= 8 {
				heldErrs, heldErrTexts = heldErrs[1:], heldErrTexts[1:]
			}
			heldErrs, heldErrTexts = append(heldErrs, er), append(heldErrTexts, er.Error())
		}
		e["stale"] = stale
		// looking at what is left (Reader.Bytes) is an observation: it takes nothing away (every second read looks)
		e["rest"], e["looked"] = []int{}, false
		if (len(held)+caseInt(o, "n"))%2 == 0 {
			e["rest"], e["looked"] = B(append([]byte{}, rd.Bytes()...)), true
		}
		e["rem"] = rd.Remaining()
		e["err"] = errStr(rd.Error())
		e["mi"] = caseInt(o, "mi")
		e["n"] = caseInt(o, "n")
		return e
	}
	for _, o := range caseList(c, "ops") {
		name := caseStr(o, "op")
		switch name {
		case "WU":
			v := caseBytes(o, "v")
			switch len(v) {
			case 1:
				w.WriteUint8(v[0])
			case 2:
				w.WriteUint16(binary.BigEndian.Uint16(v))
			case 4:
				w.WriteUint32(binary.BigEndian.Uint32(v))
			case 8:
				w.WriteUint64(binary.BigEndian.Uint64(v))
			}
			tr.emit(wst(Ev{"ev": "WU", "v": B(v)}))
		case "WBytes":
			v := caseBytes(o, "v")
			w.WriteBytes(v)
			tr.emit(wst(Ev{"ev": name, "v": B(v)}))
		case "WStr":
			v := caseBytes(o, "v")
			w.WriteString(string(v))
			tr.emit(wst(Ev{"ev": name, "v": B(v)}))
		case "WCStr":
			v := caseBytes(o, "v")
			w.WriteCString(string(v))
			tr.emit(wst(Ev{"ev": name, "v": B(v)}))
		case "WFix":
			v := caseBytes(o, "v")
			n := caseInt(o, "n")
			w.WriteFixedLenString(string(v), n)
			tr.emit(wst(Ev{"ev": name, "v": B(v), "n": n}))
		case "OBytes":
			b, err := w.Bytes()
			tr.emit(Ev{"ev": name, "out": B(b), "oerr": err != nil})
		case "OBytesLen":
			b, err := w.BytesWithLength()
			tr.emit(Ev{"ev": name, "out": B(b), "oerr": err != nil})
		case "NewR":
			var in []byte
			switch caseStr(o, "src") {
			case "w":
				in, _ = w.Bytes()
			case "pre":
				in, _ = w.Bytes()
				if k := caseInt(o, "k"); k < len(in) {
					in = in[:k]
				}
			default:
				in = caseBytes(o, "in")
			}
			logged := B(in) // logged before the reader can touch it
			held, heldSnap = nil, nil
			rd = packet.NewPacketReader(in)
			tr.emit(Ev{"ev": name, "in": logged})
		default:
			if rd == nil {
				continue
			}
			n := caseInt(o, "n")
			switch name {
			case "RU":
				var out []int
				switch n {
				case 1:
					out = be(uint64(rd.ReadUint8()), 1)
				case 2:
					out = be(uint64(rd.ReadUint16()), 2)
				case 4:
					out = be(uint64(rd.ReadUint32()), 4)
				case 8:
					out = be(rd.ReadUint64(), 8)
				}
				tr.emit(rst(Ev{"ev": name, "out": out}, o))
			case "RBytes":
				recv := make([]byte, n)
				rd.ReadBytes(recv)
				tr.emit(rst(Ev{"ev": name, "out": B(recv)}, o))
			case "RNBytes":
				got := rd.ReadNBytes(n)
				ev := rst(Ev{"ev": name, "out": B(got)}, o)
				if len(got) > 0 {
					held, heldSnap = append(held, got), append(heldSnap, string(got))
				}
				tr.emit(ev)
			case "RCStrN":
				tr.emit(rst(Ev{"ev": name, "out": S(rd.ReadCStringN(n))}, o))
			case "RCStrNT":
				tr.emit(rst(Ev{"ev": name, "out": S(rd.ReadCStringNWithoutTrim(n))}, o))
			case "RCStr":
				tr.emit(rst(Ev{"ev": name, "out": S(rd.ReadCString())}, o))
			}
		}
	}
}
