package main

import (
	"math/rand"

	"github.com/hujm2023/go-sms-protocol/cmpp"
)

// Family "msgid" (C17): CMPP Msg_Id compose / split / string form.

func init() {
	families["msgid"] = family{gen: genMsgID, run: runMsgID}
}

var msgidMax = [7]uint64{15, 31, 31, 63, 63, 1<<22 - 1, 65535}
var msgidW = [7]uint{4, 5, 5, 6, 6, 22, 16}

func genMsgID(g *genCtx) {
	r := g.rng(17)
	n := 0
	emit := func(c Case) {
		if g.mine(n) {
			g.emit(c)
		}
		n++
	}
	tuple := func(f [7]uint64) []int {
		out := make([]int, 7)
		for i, v := range f {
			out[i] = int(v)
		}
		return out
	}
	// (i) boundaries: each field at 0,1,max-1,max and every single bit, the others at extremes
	combos := 64
	if !g.thorough() {
		combos = 4
	}
	for fi := 0; fi < 7; fi++ {
		vals := []uint64{0, 1, msgidMax[fi] - 1, msgidMax[fi]}
		for b := uint(0); b < msgidW[fi]; b++ {
			vals = append(vals, 1<<b)
		}
		for _, v := range vals {
			for c := 0; c < combos; c++ {
				mask := c
				if !g.thorough() {
					mask = []int{0, 63, r.Intn(64), r.Intn(64)}[c]
				}
				var f [7]uint64
				bit := 0
				for j := 0; j < 7; j++ {
					if j == fi {
						f[j] = v
						continue
					}
					if mask>>uint(bit)&1 == 1 {
						f[j] = msgidMax[j]
					}
					bit++
				}
				emit(Case{"k": "tuple", "f": tuple(f)})
			}
		}
	}
	// (ii) random tuples and random / patterned ids
	nr := 1500
	if g.thorough() {
		nr = 200000
	}
	for i := 0; i < nr; i++ {
		var f [7]uint64
		for j := range f {
			f[j] = uint64(r.Int63n(int64(msgidMax[j]) + 1))
		}
		emit(Case{"k": "tuple", "f": tuple(f)})
		id := r.Uint64()
		switch r.Intn(6) {
		case 0:
			id = ^uint64(0)
		case 1:
			id = 1 << uint(r.Intn(64))
		case 2:
			id = ^(uint64(1) << uint(r.Intn(64)))
		case 3:
			id = (uint64(1) << uint(r.Intn(64))) - 1
		}
		emit(Case{"k": "id", "id": be(id, 8)})
	}
	// (iii) exhaustive sweeps of one field, the others at extremes (intervals)
	masks := []int{0, 63}
	fields := []int{0, 1, 2, 3, 4, 6}
	if g.thorough() {
		masks = nil
		for m := 0; m < 64; m++ {
			masks = append(masks, m)
		}
		fields = []int{0, 1, 2, 3, 4, 5, 6}
	}
	for _, fi := range fields {
		ms := masks
		if fi == 5 && g.thorough() {
			ms = []int{0, 63, 21, 42}
		}
		for _, m := range ms {
			emit(Case{"k": "sweep", "field": fi, "mask": m})
		}
	}
}

func u64(b []byte) uint64 {
	var v uint64
	for _, x := range b {
		v = v<<8 | uint64(x)
	}
	return v
}

func runMsgID(c Case, tr *Tracer) {
	switch caseStr(c, "k") {
	case "tuple":
		var f [7]uint64
		fl, _ := c["f"].([]interface{})
		fi := make([]int, 7)
		for i := 0; i < 7 && i < len(fl); i++ {
			fi[i] = caseInt(map[string]interface{}{"x": fl[i]}, "x")
			f[i] = uint64(fi[i])
		}
		if ints, ok := c["f"].([]int); ok {
			for i := 0; i < 7; i++ {
				fi[i] = ints[i]
				f[i] = uint64(ints[i])
			}
		}
		id := cmpp.CombineMsgID(f[0], f[1], f[2], f[3], f[4], f[5], f[6])
		tr.emit(Ev{"ev": "Combine", "f": fi, "id": be(id, 8)})
		runMsgIDOnID(id, tr)
	case "id":
		runMsgIDOnID(u64(caseBytes(c, "id")), tr)
	case "sweep":
		field, mask := caseInt(c, "field"), caseInt(c, "mask")
		var f [7]uint64
		bit := 0
		for j := 0; j < 7; j++ {
			if j == field {
				continue
			}
			if mask>>uint(bit)&1 == 1 {
				f[j] = msgidMax[j]
			}
			bit++
		}
		n := int(msgidMax[field]) + 1
		tr.emit(Ev{"ev": "SweepStart", "field": field, "mask": mask, "n": n, "site": "sweep"})
		lo, cur := 0, ""
		flush := func(hi int) {
			if cur != "" {
				tr.emit(Ev{"ev": "Sweep", "lo": lo, "hi": hi, "class": cur, "site": "sweep"})
			}
		}
		for x := 0; x < n; x++ {
			f[field] = uint64(x)
			cl := "exact"
			id := cmpp.CombineMsgID(f[0], f[1], f[2], f[3], f[4], f[5], f[6])
			a, b, cc, d, e, gg, h := cmpp.SplitMsgID(id)
			if [7]uint64{a, b, cc, d, e, gg, h} != f {
				cl = "WRONG.split"
			} else if cmpp.CombineMsgID(a, b, cc, d, e, gg, h) != id {
				cl = "WRONG.compose"
			} else if id != 0 && cmpp.MsgIDString2Uint64(cmpp.MsgID2String(id)) != id {
				cl = "WRONG.str"
			}
			if cl != cur {
				flush(x - 1)
				lo, cur = x, cl
			}
		}
		flush(n - 1)
		tr.emit(Ev{"ev": "SweepEnd", "site": "sweep"})
	}
}

func runMsgIDOnID(id uint64, tr *Tracer) {
	a, b, c, d, e, g, h := cmpp.SplitMsgID(id)
	tr.emit(Ev{"ev": "Split", "id": be(id, 8), "f": []int{int(a), int(b), int(c), int(d), int(e), int(g), int(h)}})
	tr.emit(Ev{"ev": "Round", "id": be(id, 8), "id2": be(cmpp.CombineMsgID(a, b, c, d, e, g, h), 8)})
	if id != 0 {
		s := cmpp.MsgID2String(id)
		// every other id: the parser has just been given damaged strings (a letter in one of the fields, a string cut
		// short, one digit too many) - what it answers for those is not judged, what it answers afterwards is
		if id%2 == 0 && len(s) >= 4 {
			k := int(id>>3) % len(s)
			_ = cmpp.MsgIDString2Uint64(s[:k] + "x" + s[k+1:])
			if id%4 == 0 {
				_ = cmpp.MsgIDString2Uint64(s[:len(s)-1-int(id>>5)%3])
				_ = cmpp.MsgIDString2Uint64("9" + s + "x")
			}
		}
		tr.emit(Ev{"ev": "Str", "id": be(id, 8), "s": S(s), "back": be(cmpp.MsgIDString2Uint64(s), 8)})
	}
	_ = rand.Int
}
