-------------------------------- MODULE MC_Mem ------------------------------
(* All histories of at most MaxSteps encode / decode / scribble / frame     *)
(* operations with at most MaxLive results.                                  *)
EXTENDS Mem
CONSTANTS MaxSteps, MaxLive
Bound == tick <= NPool + 2 + MaxSteps
MNext ==
  /\ Bound
  /\ \/ (Cardinality(DOMAIN results) < MaxLive /\ \E p \in Pool : Encode(p))
     \/ NewInput
     \/ (Cardinality(DOMAIN results) < MaxLive /\ \E i \in DOMAIN bufs : Decode(i))
     \/ \E i \in DOMAIN bufs : Scribble(i)
     \/ \E r \in DOMAIN results : ScribbleResult(r)
     \/ (Cardinality(DOMAIN results) < MaxLive /\ FrameDecode)
     \/ \E r \in DOMAIN results : Forget(r)
MSpec == MInit /\ [][MNext]_mvars
=============================================================================
