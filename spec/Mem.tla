--------------------------------- MODULE Mem --------------------------------
(* Memory ownership of results (C12, C13).  A buffer has an owner and a    *)
(* content token (every write stores a fresh token); a result refers to a  *)
(* buffer.  Encoders work in a pooled buffer and hand out a copy; decoders *)
(* build their values in fresh memory; the frame extractor returns a VIEW  *)
(* into the reader's buffer (valid until the next read, as codec.go        *)
(* documents).  CopyOut / DecodeCopies switch the two copying steps off     *)
(* (negative configurations).                                              *)
EXTENDS Integers, Sequences, FiniteSets, TLC

CONSTANTS CopyOut, DecodeCopies, NPool

VARIABLES
  bufs,      \* buffer id -> [owner, val]
  results,   \* result id -> [buf, view]
  tick,      \* source of fresh content tokens and ids
  touched    \* results the caller itself overwrote in the last step

mvars == <<bufs, results, tick, touched>>

Content(r) == bufs[results[r].buf].val
Pool == { b \in DOMAIN bufs : bufs[b].owner = "pool" }

MInit ==
  /\ bufs = [b \in 1..NPool |-> [owner |-> "pool", val |-> 0]] @@ ((NPool + 1) :> [owner |-> "reader", val |-> 0])
  /\ results = [r \in {} |-> 0]
  /\ tick = NPool + 2
  /\ touched = {}

Reader == NPool + 1

\* an encoder: fills a pooled buffer, hands out a copy (or, wrongly, the pooled buffer itself)
Encode(p) ==
  /\ p \in Pool
  /\ LET t == tick IN
     IF CopyOut
       THEN /\ bufs' = [bufs EXCEPT ![p].val = t] @@ (t :> [owner |-> "caller", val |-> t])
            /\ results' = results @@ (t :> [buf |-> t, view |-> FALSE])
       ELSE /\ bufs' = [bufs EXCEPT ![p].val = t]
            /\ results' = results @@ (t :> [buf |-> p, view |-> FALSE])
  /\ tick' = tick + 1 /\ touched' = {}

\* the caller receives input octets in a buffer of its own
NewInput ==
  /\ bufs' = bufs @@ (tick :> [owner |-> "input", val |-> tick])
  /\ tick' = tick + 1 /\ touched' = {} /\ UNCHANGED results

\* a decoder: builds its value in fresh memory (or, wrongly, keeps referring to the input)
Decode(i) ==
  /\ i \in DOMAIN bufs /\ bufs[i].owner \in {"input", "reader"}
  /\ IF DecodeCopies
       THEN /\ bufs' = bufs @@ (tick :> [owner |-> "caller", val |-> bufs[i].val])
            /\ results' = results @@ (tick :> [buf |-> tick, view |-> FALSE])
       ELSE /\ bufs' = bufs
            /\ results' = results @@ (tick :> [buf |-> i, view |-> FALSE])
  /\ tick' = tick + 1 /\ touched' = {}

\* the caller overwrites or reuses an input buffer after decoding from it; the reader refills
Scribble(i) ==
  /\ i \in DOMAIN bufs /\ bufs[i].owner \in {"input", "reader"}
  /\ bufs' = [bufs EXCEPT ![i].val = tick]
  /\ tick' = tick + 1 /\ touched' = {} /\ UNCHANGED results

\* the caller overwrites a result it was given (its own memory)
ScribbleResult(r) ==
  /\ r \in DOMAIN results /\ ~results[r].view
  /\ bufs' = [bufs EXCEPT ![results[r].buf].val = tick]
  /\ tick' = tick + 1 /\ touched' = {r} /\ UNCHANGED results

\* the zero-copy frame extractor: a view into the reader's buffer
FrameDecode ==
  /\ results' = results @@ (tick :> [buf |-> Reader, view |-> TRUE])
  /\ tick' = tick + 1 /\ touched' = {} /\ UNCHANGED bufs

\* the caller lets go of a result (nothing refers to it any more)
Forget(r) ==
  /\ r \in DOMAIN results
  /\ results' = [q \in DOMAIN results \ {r} |-> results[q]]
  /\ bufs' = IF results[r].view THEN bufs ELSE [b \in DOMAIN bufs \ {results[r].buf} |-> bufs[b]]
  /\ touched' = {} /\ UNCHANGED tick

\* the results whose content a step changed
Changed == { r \in DOMAIN results : r \in DOMAIN results' /\ bufs'[results'[r].buf].val # bufs[results[r].buf].val }

(* C12: a step never changes a previously returned result, except the ones  *)
(* the caller overwrote itself and views (which are documented to go stale). *)
Frame == [][\A r \in Changed : r \in touched' \/ results[r].view]_mvars
\* structural cause: owned results never share a buffer with the pool, an input or another result
NoAlias ==
  \A r \in DOMAIN results : ~results[r].view =>
     /\ bufs[results[r].buf].owner = "caller"
     /\ \A q \in DOMAIN results : q # r => results[q].buf # results[r].buf
=============================================================================
