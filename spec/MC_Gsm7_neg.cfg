SPECIFICATION GSpec
CONSTANTS
  Alpha = {0, 1, 64}
  MaxLen = 9
  MidGuard = TRUE
INVARIANTS StreamIsDef FastIsDef LenOK RoundTripN FillIsCR ImplAllowed
CHECK_DEADLOCK FALSE
