---------------------------- MODULE Trace_Split -----------------------------
(* Trace validation of EncodeCMPPContentAndSplit / EncodeSMPPContentAndSplit *)
(* (and the parts returned by the batch encoder) and of ParseLongSmsContent  *)
(* against Split.  Each event is one public call; judgements are stateless   *)
(* except for the tiling of the exhaustive header sweeps.                    *)
EXTENDS Split, Json, IOUtils, TLC

VARIABLES l, nviol, cover, sweepN
tvars == <<l, nviol, cover, sweepN>>
Trace == ndJsonDeserialize(IOEnv.VERIF_TRACE)
TraceInit == l = 1 /\ nviol = 0 /\ cover = 0 /\ sweepN = 0

T(c, tag) == IF c THEN {tag} ELSE {}

RECURSIVE ConcatPayloads(_, _)
ConcatPayloads(parts, i) == IF i > Len(parts) THEN <<>> ELSE Drop(parts[i], 6) \o ConcatPayloads(parts, i + 1)

\* characters every GB18030 / GBK encoder writes as two octets: U+4E00..U+9FA5 and U+20AC
TwoOctetText(t) == \A i \in 1..Len(t) : t[i] \in 19968..40869 \/ t[i] = 8364

BadSplit(e) ==
  LET kindReq == Kind(e.proto, e.req)
      can == IF FullySpecified(kindReq) THEN CanRepresent(kindReq, e.text)
             ELSE IF kindReq = "invalid" THEN FALSE ELSE e.can
      expActual == IF can THEN e.req ELSE Ucs2Number
      kind == IF can THEN kindReq ELSE "ucs2"
      parts == e.parts
      multi == Len(parts) > 1
      \* the unit stream: computed from the text for the fully specified codings, observed otherwise
      u == IF FullySpecified(kind) THEN UnitStream(kind, e.text)
           ELSE IF e.err THEN e.rawenc       \* refused: the unit stream as the single-coding codec gives it
           ELSE IF multi THEN ConcatPayloads(parts, 1) ELSE IF Len(parts) = 1 THEN parts[1] ELSE <<>>
      wkind == IF kind = "gsm7p" THEN "gsm7u" ELSE kind
      greedy == GreedyCount(wkind, u)
      fits == Len(u) <= MaxOf(kind)
      long == \A i \in 1..Len(parts) : Len(parts[i]) >= 6
  IN
  \* refused although it fits: C06 in general; a text of 2..255 parts refused is also the part limit applied wrongly (C07)
  IF e.err THEN T(greedy <= MaxParts, "C06.err") \cup T(greedy <= MaxParts /\ ~fits /\ can, "C07.refused_within_limit")
  ELSE
       T(e.actual # expActual, "C06.coding")
  \* (accepted with at most 255 parts because characters were cut is the recorded consequence of C14.cut;
  \*  more than 255 parts handed out is a different violation)
  \cup T(greedy > MaxParts, IF Len(parts) <= MaxParts THEN "C07.toomany" ELSE "C07.toomany.overflow")
  \cup (IF fits
          THEN T(~(Len(parts) = 1 /\ parts[1] = (IF kind = "gsm7p" THEN Pack(u) ELSE u))
                   /\ (FullySpecified(kind) \/ Len(parts) # 1), "C06.single")
               \cup T(~FullySpecified(kind) /\ e.dec # e.text, "C06.preserves")
               \* a message that fits is one part of at most 140 octets
               \* (unpacked GSM 7-bit travels as one octet per septet: 160)
               \cup T(Len(parts) = 1 /\ Len(parts[1]) > (IF kind = "gsm7u" THEN 160 ELSE 140), "C07.partsize")
          ELSE IF ~multi THEN {"C07.fits"}
          ELSE
               T(~HeadersOK(parts, e.ref) /\ greedy <= MaxParts, "C07.header")
          \cup (IF ~long THEN {"C07.partsize"}
                ELSE IF kind = "gsm7p" THEN
                     (IF ~PreservesPacked(parts, u)
                        THEN (IF TiledPrefix(u, parts, 1, 0) \in 0..(Len(u) - 1)
                                THEN {"C06.preserves.tail_lost"} ELSE {"C06.preserves"})
                        ELSE IF Tiles(u, parts, 1, 0, "all") THEN {}
                        ELSE T(~Tiles(u, parts, 1, 0, "size"), "C07.partsize")
                             \cup T(~Tiles(u, parts, 1, 0, "whole"), "C14.cut")
                             \* the packed path is the boundary-aware one (no recorded finding there): an escape pair
                             \* cut by a boundary also alters the text for a receiver that unpacks each part by its
                             \* septet count and decodes it on its own, which is the reading C06 states
                             \cup T(~Tiles(u, parts, 1, 0, "whole"), "C06.preserves.per_part"))
                ELSE
                     T(IF FullySpecified(kind) THEN ~PreservesOct(parts, u) ELSE e.dec # e.text, "C06.preserves")
                \cup T(\E i \in 1..Len(parts) : Len(parts[i]) = 6 \/ Len(parts[i]) - 6 > PerOf(kind), "C07.partsize")
                \cup T(\E i \in 1..Len(parts) : ~WholeChars(kind, Payload(parts, i)),
                       \* "C14.cut": the fixed-width cut (every non-final payload is exactly the per-part size, UCS-2
                       \* payloads are whole code units) lands inside a multi-unit character; anything else that cuts
                       \* a character - another part size, half a UCS-2 code unit - is a different violation
                       \* "C14.cut.two_octet_text": a GB18030 text of characters that all take two octets (the hanzi of
                       \* GBK and the euro sign) cannot be cut inside a character by an even part size - if it is, the
                       \* encoder gave some character another width
                       IF kind = "gb" /\ TwoOctetText(e.text) THEN "C14.cut.two_octet_text"
                       ELSE IF (\A i \in 1..(Len(parts) - 1) : Len(parts[i]) - 6 = PerOf(kind))
                          /\ (kind = "ucs2" => \A i \in 1..Len(parts) : (Len(parts[i]) - 6) % 2 = 0)
                         THEN "C14.cut" ELSE "C14.cut.unaligned"))
          \cup T(Len(parts) > greedy, "C07.minimal"))

BadParse(e) ==
  LET p == ParseUDH(e.s) IN
  IF e.valid = p.valid /\ e.key = p.key /\ e.total = p.total /\ e.index = p.index /\ e.rest = p.rest THEN {}
  ELSE IF Len(e.s) >= 7 /\ e.s[1] = 6 /\ e.valid = p.valid /\ e.total = p.total /\ e.index = p.index /\ e.rest = p.rest
       THEN {"C07.parse.ref16"} ELSE {"C07.parse"}

Bad(e) ==
  CASE e.ev = "Split" -> BadSplit(e) \cup T(e.entry = "batch" /\ BadSplit(e) \cap {"C06.preserves", "C06.preserves.tail_lost", "C06.single", "C06.err"} # {}, "C09.parts")
    [] e.ev = "Parse" -> BadParse(e)
    [] e.ev = "SweepStart" -> {}
    [] e.ev = "Sweep" ->
         T(e.lo # cover \/ e.hi < e.lo, "C07.sweep.gap")
         \cup T(e.class # "exact", "C07.parse." \o e.class)
    [] e.ev = "SweepEnd" -> T(cover # sweepN, "C07.sweep.gap")

TraceNext ==
  \/ /\ l <= Len(Trace)
     /\ LET e == Trace[l] bad == Bad(e) IN
          /\ bad # {} => PrintT(<<"VIOL", e.t, l, bad>>)
          /\ nviol' = nviol + (IF bad # {} THEN 1 ELSE 0)
          /\ cover' = IF e.ev = "SweepStart" THEN 0 ELSE IF e.ev = "Sweep" THEN e.hi + 1 ELSE cover
          /\ sweepN' = IF e.ev = "SweepStart" THEN e.n ELSE sweepN
     /\ l' = l + 1
  \/ /\ l = Len(Trace) + 1 /\ PrintT(<<"DONE", Len(Trace), nviol>>) /\ l' = l + 1
     /\ UNCHANGED <<nviol, cover, sweepN>>

TraceSpec == TraceInit /\ [][TraceNext]_tvars
=============================================================================
