------------------------------ MODULE Gen_Packet -----------------------------
(* Behaviour generator for the spec -> code direction of C20: random walks  *)
(* of Packet (tlc -simulate) with the chosen operations recorded in `hist`; *)
(* every walk that reaches GenLen operations is printed as JSON and then    *)
(* stepped through the real packet.Writer / packet.Reader by the harness    *)
(* (driver packet run); the recorded execution is validated by Trace_Packet *)
(* like any other.                                                          *)
EXTENDS Packet, Json

CONSTANTS GenLen, Oct

VARIABLES hist, phase
gvars == <<hist, phase>>

Strs == UNION { [1..n -> Oct] : n \in 0..3 }
Op(o, v, n) == [op |-> o, v |-> v, n |-> n]

WMenu == { Op("WU", s, 0) : s \in { x \in Strs : Len(x) \in {1, 2} } }
         \cup { Op(o, s, 0) : o \in {"WBytes", "WStr", "WCStr"}, s \in Strs }
         \cup { Op("WFix", s, n) : s \in Strs, n \in 0..4 }
         \cup { Op("OBytes", <<>>, 0), Op("OBytesLen", <<>>, 0) }
RMenu == { Op("RU", <<>>, k) : k \in {1, 2} }
         \cup { Op(o, <<>>, n) : o \in {"RBytes", "RNBytes", "RCStrN", "RCStrNT"}, n \in 0..4 }
         \cup { Op("RCStr", <<>>, 0) }

Do(o) ==
  CASE o.op = "WU" -> WU(o.v) [] o.op = "WBytes" -> WBytes(o.v) [] o.op = "WStr" -> WString(o.v)
    [] o.op = "WCStr" -> WCString(o.v) [] o.op = "WFix" -> WFixed(o.v, o.n)
    [] o.op = "OBytes" -> OBytes [] o.op = "OBytesLen" -> OBytesLen
    [] o.op = "RU" -> RU(o.n) [] o.op = "RBytes" -> RBytes(o.n) [] o.op = "RNBytes" -> RNBytes(o.n)
    [] o.op = "RCStrN" -> RCStringN(o.n) [] o.op = "RCStrNT" -> RCStringNNoTrim(o.n) [] o.op = "RCStr" -> RCString

GenInit == Init /\ hist = <<>> /\ phase = "w"
GenNext ==
  /\ Len(hist) < GenLen
  /\ \/ /\ phase = "w" /\ \E o \in WMenu : Do(o) /\ hist' = Append(hist, o) /\ UNCHANGED phase
     \/ /\ phase = "w" /\ Len(hist) >= 2
        /\ \E k \in 0..Len(wbuf) : /\ NewReader(IF werr THEN <<>> ELSE Take(wbuf, k))
                                   /\ hist' = Append(hist, Op("NewR", <<>>, k))
        /\ phase' = "r"
     \/ /\ phase = "r" /\ \E o \in RMenu : Do(o) /\ hist' = Append(hist, o) /\ UNCHANGED phase
GenSpec == GenInit /\ [][GenNext]_<<vars, gvars>>

\* printed once per completed walk (evaluated as an invariant; always TRUE)
Emit == Len(hist) = GenLen => PrintT(<<"BEH", ToJson(hist)>>)
=============================================================================
