SPECIFICATION TraceSpec
CONSTANTS
  SPM = 60
  MPH = 60
  HPD = 24
  DayCap = 100
CHECK_DEADLOCK FALSE
