------------------------------- MODULE Gateway ------------------------------
(* End-to-end composition (growth beyond the listed properties): an SP     *)
(* submits texts; each text is split (Split), every part travels in its    *)
(* own submit PDU with a fresh sequence identifier over one ordered        *)
(* connection (Wire, Frame), the gateway dispatches and decodes it         *)
(* (Session), answers with the generated response, parses the              *)
(* concatenation header (Split!ParseUDH) and reassembles by                *)
(* (reference, total, index); a complete message is delivered.  Parts of   *)
(* several messages interleave, parts may be re-sent while unanswered.     *)
(*                                                                         *)
(* Invariants: what is delivered is exactly a submitted text, at most once *)
(* per submission; every response matches exactly one outstanding request. *)
(* SameRef = TRUE lets two messages in flight share a reference octet: the *)
(* negative configuration (their parts mix).                               *)
EXTENDS Integers, Sequences, FiniteSets, TLC

CONSTANTS Msgs, MaxParts, Refs, SameRef, MaxResend,
          Echo       \* TRUE: a response carries the sequence identifier of its request (FALSE: a fresh one - negative)

VARIABLES
  sub,       \* message -> [n |-> parts, ref |-> reference] for submitted messages
  unsent,    \* set of <<m, i>> parts not yet sent
  wire,      \* ordered connection SP -> gateway: sequence of [m, i, sid]
  back,      \* ordered connection gateway -> SP: sequence of sid
  outst,     \* SP: outstanding sequence identifiers -> <<m, i>>
  nextSid,
  asm,       \* gateway: reference -> [total, got |-> set of indexes, from |-> function index -> message]
  delivered, \* sequence of delivered messages: [ref, parts |-> sequence of <<m, i>>]
  resent
gvars == <<sub, unsent, wire, back, outst, nextSid, asm, delivered, resent>>

Init ==
  /\ sub = [m \in {} |-> 0] /\ unsent = {} /\ wire = <<>> /\ back = <<>> /\ outst = [s \in {} |-> 0]
  /\ nextSid = 1 /\ asm = [r \in {} |-> 0] /\ delivered = <<>> /\ resent = 0

InFlightRefs == { sub[m].ref : m \in { x \in DOMAIN sub : \E i \in 1..sub[x].n : <<x, i>> \in unsent
                                          \/ \E s \in DOMAIN outst : outst[s][1] = x } }
                \cup DOMAIN asm

Submit(m, n, r) ==
  /\ m \notin DOMAIN sub
  /\ SameRef \/ r \notin InFlightRefs          \* an SP uses distinct references for messages in flight
  /\ sub' = sub @@ (m :> [n |-> n, ref |-> r])
  /\ unsent' = unsent \cup { <<m, i>> : i \in 1..n }
  /\ UNCHANGED <<wire, back, outst, nextSid, asm, delivered, resent>>

Send(m, i) ==
  /\ <<m, i>> \in unsent
  /\ unsent' = unsent \ {<<m, i>>}
  /\ wire' = Append(wire, [m |-> m, i |-> i, sid |-> nextSid])
  /\ outst' = outst @@ (nextSid :> <<m, i>>)
  /\ nextSid' = nextSid + 1
  /\ UNCHANGED <<sub, back, asm, delivered, resent>>

\* a part still unanswered is sent again under a new sequence identifier
Resend(s) ==
  /\ resent < MaxResend /\ s \in DOMAIN outst
  /\ wire' = Append(wire, [m |-> outst[s][1], i |-> outst[s][2], sid |-> nextSid])
  /\ outst' = outst @@ (nextSid :> outst[s])
  /\ nextSid' = nextSid + 1 /\ resent' = resent + 1
  /\ UNCHANGED <<sub, unsent, back, asm, delivered>>

\* the gateway takes the next PDU, answers it, and files the part under its reference
GwRecv ==
  /\ wire # <<>>
  /\ LET p == Head(wire) r == sub[p.m].ref n == sub[p.m].n IN
     /\ wire' = Tail(wire)
     /\ back' = Append(back, IF Echo THEN p.sid ELSE nextSid + 100)
     /\ IF n = 1
          THEN /\ delivered' = Append(delivered, [ref |-> r, parts |-> << <<p.m, 1>> >>])
               /\ UNCHANGED asm
          ELSE LET old == IF r \in DOMAIN asm THEN asm[r] ELSE [total |-> n, got |-> {}, from |-> [x \in {} |-> 0]]
                   new == [total |-> n, got |-> old.got \cup {p.i}, from |-> (p.i :> p.m) @@ old.from]
               IN IF new.got = 1..new.total
                    THEN /\ delivered' = Append(delivered, [ref |-> r, parts |-> [k \in 1..new.total |-> <<new.from[k], k>>]])
                         /\ asm' = [x \in DOMAIN asm \ {r} |-> asm[x]]
                    ELSE /\ asm' = (r :> new) @@ asm /\ UNCHANGED delivered
  /\ UNCHANGED <<sub, unsent, outst, nextSid, resent>>

SpAck ==
  /\ back # <<>>
  /\ back' = Tail(back)
  /\ outst' = [s \in DOMAIN outst \ {Head(back)} |-> outst[s]]
  /\ UNCHANGED <<sub, unsent, wire, nextSid, asm, delivered, resent>>

Next ==
  \/ \E m \in Msgs, n \in 1..MaxParts, r \in Refs : Submit(m, n, r)
  \/ \E m \in Msgs, i \in 1..MaxParts : Send(m, i)
  \/ \E s \in DOMAIN outst : Resend(s)
  \/ GwRecv \/ SpAck
Spec == Init /\ [][Next]_gvars

\* a delivered message consists of the parts of ONE submitted message, all of them, in order
Unmixed ==
  \A k \in 1..Len(delivered) :
    LET d == delivered[k] IN
      \E m \in DOMAIN sub : /\ Len(d.parts) = sub[m].n
                            /\ \A j \in 1..Len(d.parts) : d.parts[j] = <<m, j>>
\* without re-sending nothing is delivered twice
AtMostOnce ==
  resent = 0 => \A a, b \in 1..Len(delivered) : a # b => delivered[a].parts # delivered[b].parts
\* every response on its way back answers an outstanding request
Paired == \A k \in 1..Len(back) : back[k] \in DOMAIN outst
=============================================================================
