---------------------------- MODULE Trace_Frame -----------------------------
(* Trace validation of the real codec.CMPPCodec / codec.SMPPCodec driven   *)
(* over a scripted ConnReader.  Events: Start (new trace), Arrive, Decode, *)
(* DecodeB.  Monitor mode as in Trace_Packet.                              *)
EXTENDS Frame, Json, IOUtils

VARIABLES l, dead, nviol, orig
tvars == <<l, dead, nviol, orig>>

Trace == ndJsonDeserialize(IOEnv.VERIF_TRACE)

TraceInit ==
  /\ sent = <<>> /\ stream = <<>> /\ buf = <<>> /\ out = <<>> /\ fault = "eof"
  /\ res = Res("none", <<>>) /\ orig = <<>> /\ pending = 0
  /\ l = 1 /\ dead = TRUE /\ nviol = 0

\* the leftover split a DecodeB event reports, clamped into what is possible
Rest == LET avail == buf \o stream IN
        IF Len(avail) >= 4 /\ PLen(Take(avail, 4)) >= 4 /\ Len(avail) >= PLen(Take(avail, 4))
          THEN Drop(avail, PLen(Take(avail, 4))) ELSE <<>>
ValidJ(j) == j \in 0..Len(Rest) /\ Len(Rest) - j <= Len(stream)
JOf(e) == IF ValidJ(e.size) THEN e.size ELSE Max(0, Len(Rest) - Len(stream))

Act(e) ==
  CASE e.ev = "Arrive"  -> Arrive(e.k)
    [] e.ev = "Decode"  -> Decode
    [] e.ev = "DecodeB" -> DecodeBlocked(JOf(e))

ShortPrefixNow(b) == Len(b) >= 4 /\ PLen(Take(b, 4)) < 4

Bad(e) ==
  IF e.ev = "Arrive" THEN
       (IF e.size # Len(buf') THEN {"C04.size"} ELSE {})
  ELSE
       (IF e.res # res'.k
          THEN (IF e.ev = "Decode" /\ ShortPrefixNow(buf) THEN {"C04.shortprefix.decode"}
                ELSE IF e.ev = "DecodeB" /\ ShortPrefixNow(buf \o stream) THEN {"C04.shortprefix.blocked"}
                ELSE IF e.res = "panic" THEN {"C04.panic"}
                ELSE {"C04.result"})
          ELSE {})
  \cup (IF e.res = "frame" /\ res'.k = "frame" /\ e.out # res'.f THEN {"C04.frame"} ELSE {})
  \cup (IF e.res = res'.k /\ res'.k \in {"frame", "incomplete"} /\ e.size # Len(buf')
          THEN {"C04.consumed"} ELSE {})

Reset ==
  /\ Trace[l].ev = "Start"
  /\ LET e == Trace[l] IN
       /\ sent' = e.sent /\ stream' = e.stream /\ orig' = e.stream
       /\ fault' = e.fault
  /\ buf' = <<>> /\ out' = <<>> /\ res' = Res("none", <<>>) /\ pending' = 0
  /\ dead' = FALSE /\ UNCHANGED nviol

Live ==
  /\ Trace[l].ev # "Start" /\ ~dead
  /\ LET e == Trace[l] IN
       /\ Act(e)
       /\ LET bad == Bad(e) IN
            /\ bad # {} => PrintT(<<"VIOL", e.t, l, bad>>)
            /\ dead' = (bad # {})
            /\ nviol' = nviol + (IF bad # {} THEN 1 ELSE 0)
  /\ UNCHANGED orig

Skip == Trace[l].ev # "Start" /\ dead /\ UNCHANGED <<vars, dead, nviol, orig>>

TraceNext ==
  \/ /\ l <= Len(Trace) /\ (Reset \/ Live \/ Skip) /\ l' = l + 1
  \/ /\ l = Len(Trace) + 1 /\ PrintT(<<"DONE", Len(Trace), nviol>>) /\ l' = l + 1
     /\ UNCHANGED <<vars, dead, nviol, orig>>

TraceSpec == TraceInit /\ [][TraceNext]_<<vars, tvars>>

\* the abstract layer of C04, in every state of every recorded execution
TraceInv == dead \/ (OutPrefix /\ NoShortFrame /\ Conserved(orig))
=============================================================================
