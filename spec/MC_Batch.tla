------------------------------- MODULE MC_Batch -----------------------------
(* Build as a state machine: BuildSet; one goroutine per candidate (Run(c)  *)
(* in any order and interleaving: each writes only its own slot); Filter;   *)
(* Fallback; Sort modelled as what an UNSTABLE sort guarantees - any        *)
(* element no other element is Less than comes first; Return.  Explored for *)
(* all candidate lists of at most MaxCands entries (duplicates, invalid     *)
(* numbers), every origin, every can / parts environment.                   *)
(* TiePrio = TRUE gives two codings the same priority: negative.            *)
EXTENDS Batch

CONSTANTS Proto, MaxCands, Codings, TiePrio

VARIABLES cands, origin, can, n, set, done, usable, result, phase
bvars == <<cands, origin, can, n, set, done, usable, result, phase>>

CandSeqs == UNION { [1..k -> Codings] : k \in 1..MaxCands }
MRank(c) == IF TiePrio /\ c \in {PrioSeq(Proto)[1], PrioSeq(Proto)[2]} THEN 1 ELSE Rank(Proto, c)
MLess(a, b) == n[a] < n[b] \/ (n[a] = n[b] /\ MRank(a) < MRank(b))

Init ==
  /\ cands \in CandSeqs /\ origin \in Codings \cup {-1}
  /\ can \in [Valid(Proto) -> BOOLEAN] /\ n \in [Valid(Proto) -> 1..2]
  /\ set = {} /\ done = {} /\ usable = {} /\ result = -2 /\ phase = "new"

BuildSet == phase = "new" /\ set' = SetOf(cands, origin, Proto) /\ phase' = "running"
            /\ UNCHANGED <<cands, origin, can, n, done, usable, result>>
Run(c) == phase = "running" /\ c \in set \ done /\ done' = done \cup {c}
          /\ UNCHANGED <<cands, origin, can, n, set, usable, result, phase>>
Filter == phase = "running" /\ done = set /\ usable' = Usable(set, Proto, can) /\ phase' = "filtered"
          /\ UNCHANGED <<cands, origin, can, n, set, done, result>>
Fallback == phase = "filtered" /\ usable = {}
            /\ result' = (IF can[Ucs2] THEN Ucs2 ELSE -1) /\ phase' = "returned"
            /\ UNCHANGED <<cands, origin, can, n, set, done, usable>>
SortReturn == phase = "filtered" /\ usable # {}
              /\ result' \in { c \in usable : \A d \in usable : ~MLess(d, c) }
              /\ phase' = "returned"
              /\ UNCHANGED <<cands, origin, can, n, set, done, usable>>

Next == BuildSet \/ (\E c \in Codings : Run(c)) \/ Filter \/ Fallback \/ SortReturn
Spec == Init /\ [][Next]_bvars

\* cheapest usable coding, UCS-2 fallback, error only when nothing can: and therefore deterministic
Correct == phase = "returned" => result = Expected(cands, origin, Proto, can, n, FALSE, can[Ucs2])
=============================================================================
