------------------------------ MODULE Trace_Conc ----------------------------
(* Trace validation of concurrent use.  A program = one trace (Start        *)
(* resets).  Two kinds of recorded events:                                  *)
(*                                                                         *)
(* Pool events - what packet.Writer does with the shared buffer pool while  *)
(* the goroutines run, reported by the verif hook in the order in which the *)
(* pool operations could have happened ("get" after the buffer was taken,   *)
(* "copy" after the copy-out, "put" before the buffer goes back).  Every    *)
(* event must be an enabled step of Conc with the logged buffer: each       *)
(* Writer is one goroutine of Conc performing one operation (Ops = 1), the  *)
(* table exists (LazyInit = "static").  A "get" line is three steps of Conc *)
(* (Get, Lookup, Write: the hook does not see the last two), a "put"        *)
(* without an earlier "copy" is the error path (Fail).  The logged buffer   *)
(* length binds the model's buffer content (PoolClean).                     *)
(*                                                                         *)
(* Result events - every operation of the program is run alone and on many *)
(* goroutines on its own values; a Par event carries both results (ordered  *)
(* per goroutine by a sequence number); End carries the race detector's     *)
(* report count.                                                            *)
(* "Fresh" programs run in a process of their own with the goroutines first *)
(* and the reference afterwards, so that first-use initialisation inside    *)
(* the library happens concurrently.                                        *)
EXTENDS Conc, Json, IOUtils

VARIABLES l, dead, nviol, lastseq, bmap
tvars == <<l, dead, nviol, lastseq, bmap>>
Trace == ndJsonDeserialize(IOEnv.VERIF_TRACE)
Empty == [x \in {} |-> 0]

\* the driver follows the first MaxWriters Writers of a program (fam_conc.go: maxWriters) and numbers them 1..MaxWriters
MaxWriters == 300
TraceG == 1..MaxWriters

CInit ==
  /\ pool = {} /\ buf = [b \in {} |-> <<>>] /\ nextBuf = 1 /\ table = "ready"
  /\ gs = [g \in G |-> [pc |-> "get", k |-> 1, b |-> 0, res |-> <<>>, blind |-> FALSE, copied |-> FALSE]]
TraceInit == CInit /\ l = 1 /\ dead = TRUE /\ nviol = 0 /\ lastseq = Empty /\ bmap = Empty

Viol(e, tags) ==
  /\ PrintT(<<"VIOL", e.t, l, tags>>)
  /\ dead' = TRUE /\ nviol' = nviol + 1 /\ l' = l + 1
  /\ UNCHANGED <<cvars, lastseq, bmap>>

\* ---- pool events: steps of Conc
Known(e) == e.b \in DOMAIN bmap
PoolStep(e) ==
  LET w == e.w IN
  CASE e.op = "get" ->
         IF gs[w].pc = "get" THEN
           IF Known(e) /\ bmap[e.b] \notin pool
             THEN Viol(e, {"C13.pool.buffer_shared"})            \* Get is not enabled with that buffer
           ELSE IF (e.n = 0) # (IF Known(e) THEN buf[bmap[e.b]] = <<>> ELSE TRUE)
             THEN Viol(e, {"C13.pool.buffer_not_clean"})         \* PoolClean, bound to the logged length
           ELSE /\ GetBuf(w, IF Known(e) THEN bmap[e.b] ELSE nextBuf)
                /\ bmap' = IF Known(e) THEN bmap ELSE (e.b :> nextBuf) @@ bmap
                /\ UNCHANGED <<l, dead, nviol, lastseq>>
         ELSE IF gs[w].pc = "lookup" THEN Lookup(w) /\ UNCHANGED tvars
         ELSE /\ gs[w].pc = "write" /\ Write(w) /\ l' = l + 1 /\ UNCHANGED <<dead, nviol, lastseq, bmap>>
    [] e.op = "copy" ->
         IF gs[w].pc # "full" THEN Viol(e, {"C13.pool.use_after_release"})
         ELSE /\ (IF gs[w].copied THEN UNCHANGED cvars ELSE Copy(w))
              /\ l' = l + 1 /\ UNCHANGED <<dead, nviol, lastseq, bmap>>
    [] e.op = "put" ->
         IF ~(gs[w].pc = "full" /\ Known(e) /\ bmap[e.b] = gs[w].b) THEN Viol(e, {"C13.pool.double_release"})
         ELSE /\ (IF gs[w].copied THEN Put(w) ELSE Fail(w))
              /\ l' = l + 1 /\ UNCHANGED <<dead, nviol, lastseq, bmap>>

\* ---- result events
Bad(e) ==
  CASE e.ev = "Par" ->
         (IF e.res # e.seq THEN {"C13.differs_from_sequential"} ELSE {})
         \cup (IF e.g \in DOMAIN lastseq /\ e.i # lastseq[e.g] + 1 THEN {"C13.driver.order"} ELSE {})
    [] e.ev = "Race" -> {"C13.data_race"}
    [] e.ev = "End" -> (IF e.races # 0 THEN {"C13.data_race"} ELSE {})
                       \cup (IF e.crash THEN {"C13.process_died"} ELSE {})   \* fatal error: concurrent map access, ...
                       \cup (IF "hung" \in DOMAIN e /\ e.hung THEN {"C13.no_return"} ELSE {})  \* calls blocked inside the library for minutes

Reset ==
  /\ Trace[l].ev = "Start" /\ dead' = FALSE /\ lastseq' = Empty /\ bmap' = Empty /\ UNCHANGED nviol
  /\ pool' = {} /\ buf' = [b \in {} |-> <<>>] /\ nextBuf' = 1 /\ table' = "ready"
  /\ gs' = [g \in G |-> [pc |-> "get", k |-> 1, b |-> 0, res |-> <<>>, blind |-> FALSE, copied |-> FALSE]]
  /\ l' = l + 1
LivePool == Trace[l].ev = "Pool" /\ ~dead /\ PoolStep(Trace[l])
Live ==
  /\ Trace[l].ev \notin {"Start", "Pool"} /\ ~dead
  /\ LET e == Trace[l] bad == Bad(e) IN
       /\ bad # {} => PrintT(<<"VIOL", e.t, l, bad>>)
       /\ dead' = (bad # {})
       /\ nviol' = nviol + (IF bad # {} THEN 1 ELSE 0)
       /\ lastseq' = IF e.ev = "Par" THEN (e.g :> e.i) @@ lastseq ELSE lastseq
  /\ l' = l + 1 /\ UNCHANGED <<cvars, bmap>>
Skip == Trace[l].ev # "Start" /\ dead /\ l' = l + 1 /\ UNCHANGED <<cvars, dead, nviol, lastseq, bmap>>

TraceNext ==
  \/ /\ l <= Len(Trace) /\ (Reset \/ LivePool \/ Live \/ Skip)
  \/ /\ l = Len(Trace) + 1 /\ PrintT(<<"DONE", Len(Trace), nviol>>) /\ l' = l + 1
     /\ UNCHANGED <<cvars, dead, nviol, lastseq, bmap>>
TraceSpec == TraceInit /\ [][TraceNext]_<<cvars, tvars>>
\* what TLC proves for Conc (MC_Conc*.cfg) is re-checked on the states the real run drives the model through
TraceInv == dead \/ (HeldNotPooled /\ PoolClean)
=============================================================================
