------------------------------ MODULE Trace_Conc ----------------------------
(* Trace validation of concurrent use: every operation of a generated       *)
(* program is first run alone (Seq), then the same operations run on many   *)
(* goroutines on their own values (Par, ordered per goroutine by a sequence *)
(* number); the race detector's reports of the run are Race events.         *)
(* A program = one trace (Start resets).  "Fresh" programs run in a process *)
(* of their own with the goroutines first and the reference afterwards, so  *)
(* that first-use initialisation inside the library happens concurrently.   *)
EXTENDS Integers, Sequences, FiniteSets, TLC, Json, IOUtils

VARIABLES l, dead, nviol, seqres, lastseq
tvars == <<l, dead, nviol, seqres, lastseq>>
Trace == ndJsonDeserialize(IOEnv.VERIF_TRACE)
Empty == [x \in {} |-> 0]
TraceInit == l = 1 /\ dead = TRUE /\ nviol = 0 /\ seqres = Empty /\ lastseq = Empty

Bad(e) ==
  CASE e.ev = "Seq" -> {}
    [] e.ev = "Par" ->
         (IF e.op \notin DOMAIN seqres THEN {"C13.driver.unknown_op"}
          ELSE IF e.res # seqres[e.op] THEN {"C13.differs_from_sequential"} ELSE {})
         \cup (IF e.g \in DOMAIN lastseq /\ e.i # lastseq[e.g] + 1 THEN {"C13.driver.order"} ELSE {})
    [] e.ev = "Race" -> {"C13.data_race"}
    [] e.ev = "End" -> (IF e.races # 0 THEN {"C13.data_race"} ELSE {})
                       \cup (IF e.crash THEN {"C13.process_died"} ELSE {})   \* fatal error: concurrent map access, ...

Reset == Trace[l].ev = "Start" /\ dead' = FALSE /\ seqres' = Empty /\ lastseq' = Empty /\ UNCHANGED nviol
Live ==
  /\ Trace[l].ev # "Start" /\ ~dead
  /\ LET e == Trace[l] bad == Bad(e) IN
       /\ bad # {} => PrintT(<<"VIOL", e.t, l, bad>>)
       /\ dead' = (bad # {})
       /\ nviol' = nviol + (IF bad # {} THEN 1 ELSE 0)
       /\ seqres' = IF e.ev = "Seq" THEN (e.op :> e.res) @@ seqres ELSE seqres
       /\ lastseq' = IF e.ev = "Par" THEN (e.g :> e.i) @@ lastseq ELSE lastseq
Skip == Trace[l].ev # "Start" /\ dead /\ UNCHANGED <<dead, nviol, seqres, lastseq>>

TraceNext ==
  \/ /\ l <= Len(Trace) /\ (Reset \/ Live \/ Skip) /\ l' = l + 1
  \/ /\ l = Len(Trace) + 1 /\ PrintT(<<"DONE", Len(Trace), nviol>>) /\ l' = l + 1
     /\ UNCHANGED <<dead, nviol, seqres, lastseq>>
TraceSpec == TraceInit /\ [][TraceNext]_tvars
=============================================================================
