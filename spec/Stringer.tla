------------------------------ MODULE Stringer ------------------------------
(* packet.PDUStringer (growth beyond the listed properties): the object     *)
(* behind the String() method of every PDU.  It borrows a strings.Builder   *)
(* from a pool, writes a header, one line per field (the line depends on    *)
(* the dynamic type of the value), and String() appends the end marker and  *)
(* returns everything written so far - so a second String() shows two end   *)
(* markers (what the code does; modelled as it is).  Release empties the    *)
(* builder and gives it back: a later stringer starts with the header only. *)
(* Texts are sequences of octets.                                           *)
EXTENDS Integers, Sequences

CONSTANTS ResetOnRelease   \* TRUE: Release empties the builder (the code); FALSE: negative configuration

VARIABLES buf,    \* content of the live stringer's builder; <<>> when no stringer is live
          live,   \* a stringer exists
          pool,   \* contents of the builders in the pool (a bag as a sequence)
          ret     \* what the last String() returned
svars == <<buf, live, pool, ret>>

Header == <<10, 61, 61, 32, 83, 116, 97, 114, 116, 32, 61, 61, 10>>
EndMark == <<61, 61, 32, 69, 110, 100, 32, 61, 61, 10>>
NL == <<10>>

RECURSIVE DecPos(_)
DecPos(n) == IF n < 10 THEN <<48 + n>> ELSE DecPos(n \div 10) \o <<48 + (n % 10)>>
Dec(n) == IF n < 0 THEN <<45>> \o DecPos(-n) ELSE DecPos(n)

\* %v of a []byte: [1 2 3]
RECURSIVE Join(_)
Join(b) == IF b = <<>> THEN <<>> ELSE IF Len(b) = 1 THEN Dec(b[1]) ELSE Dec(b[1]) \o <<32>> \o Join(Tail(b))
ByteList(b) == <<91>> \o Join(b) \o <<93>>

K(field) == <<107, 101, 121, 61>> \o field
\* kind: "s" string, "n" integer, "b" boolean, "y" []byte, "g" fmt.Stringer (v = its String()), "a" anything else (v = its %v form)
Line(kind, field, v, withbytes) ==
  CASE kind = "s" -> K(field) \o <<44, 32, 118, 97, 108, 117, 101, 83, 116, 114, 105, 110, 103, 61, 34>> \o v \o <<34>> \o (IF withbytes THEN <<44, 32, 118, 97, 108, 117, 101, 66, 121, 116, 101, 115, 61>> \o ByteList(v) ELSE <<>>)
    [] kind = "n" -> K(field) \o <<44, 32, 118, 97, 108, 117, 101, 78, 117, 109, 98, 101, 114, 61>> \o Dec(v)
    [] kind = "b" -> K(field) \o <<44, 32, 118, 97, 108, 117, 101, 66, 111, 111, 108, 101, 97, 110, 61>> \o (IF v THEN <<116, 114, 117, 101>> ELSE <<102, 97, 108, 115, 101>>)
    [] kind = "y" -> K(field) \o <<44, 32, 118, 97, 108, 117, 101, 83, 116, 114, 105, 110, 103, 61, 34>> \o v \o <<34>> \o <<44, 32, 118, 97, 108, 117, 101, 66, 121, 116, 101, 115, 61>> \o ByteList(v)
    [] kind = "g" -> IF withbytes THEN K(field) \o <<44, 32, 118, 97, 108, 117, 101, 83, 116, 114, 105, 110, 103, 61, 34>> \o v \o <<34>> \o <<44, 32, 118, 97, 108, 117, 101, 66, 121, 116, 101, 115, 61>> \o ByteList(v)
                     ELSE K(field) \o <<44, 32, 118, 97, 108, 117, 101, 83, 116, 114, 105, 110, 103, 101, 114, 61>> \o v
    [] kind = "a" -> K(field) \o <<44, 32, 118, 97, 108, 117, 101, 65, 110, 121, 61>> \o v

SInit == buf = <<>> /\ live = FALSE /\ pool = <<>> /\ ret = <<>>

\* a builder from the pool (any of them) or a new one
New ==
  /\ ~live /\ live' = TRUE /\ UNCHANGED ret
  /\ \/ buf' = Header /\ UNCHANGED pool
     \/ \E i \in 1..Len(pool) : /\ buf' = pool[i] \o Header
                                /\ pool' = SubSeq(pool, 1, i - 1) \o SubSeq(pool, i + 1, Len(pool))
Write(kind, field, v, withbytes) ==
  /\ live /\ buf' = buf \o Line(kind, field, v, withbytes) \o NL /\ UNCHANGED <<live, pool, ret>>
\* OmitWrite: nothing for an empty value
Omit(field, v) ==
  /\ live /\ buf' = (IF v = <<>> THEN buf ELSE buf \o Line("s", field, v, FALSE) \o NL) /\ UNCHANGED <<live, pool, ret>>
Str == /\ live /\ buf' = buf \o EndMark /\ ret' = buf' /\ UNCHANGED <<live, pool>>
Release ==
  /\ live /\ live' = FALSE /\ buf' = <<>> /\ UNCHANGED ret
  /\ pool' = Append(pool, IF ResetOnRelease THEN <<>> ELSE buf)
=============================================================================
