SPECIFICATION GenSpec
CONSTANTS
  LowerBound = TRUE
  Remember = FALSE
  GenLen = 10
  BodyOct = {0, 4, 255}
  MaxBody = 2
  MaxFrames = 2
INVARIANT Emit
CHECK_DEADLOCK FALSE
