------------------------------ MODULE Refine_Conc ----------------------------
(* Conc implements Pool: every step of the goroutine-level model is a step   *)
(* of the set-level pool discipline (or leaves its variables unchanged), so  *)
(* the invariant Apalache proves inductive for Pool holds in Conc for any    *)
(* number of steps.  Get -> Get, Write -> Write, Put -> Put, Fail -> Fail;   *)
(* Lookup, Build, Copy, CopyLate are stuttering steps of Pool.               *)
EXTENDS Conc

CONSTANT MaxBuf
P == INSTANCE Pool WITH
       B <- 1..MaxBuf,
       held <- [g \in G |-> IF Holds(g) THEN gs[g].b ELSE 0],
       dirty <- { b \in DOMAIN buf : buf[b] # <<>> },
       made <- DOMAIN buf
Refines == P!Init /\ [][P!Next]_(P!pvars)
PInd == P!IndInv
=============================================================================
