---------------------------- MODULE Trace_Validity --------------------------
(* Trace validation of smpp.ToValidatePeriod.  The driver logs `now` as    *)
(* (day number since 2000-01-01, second of the day) in UTC and the parsed  *)
(* duration as (whole days, seconds) - time.ParseDuration is trusted for   *)
(* parsing; what the produced string denotes is decided here.              *)
EXTENDS Validity, Json, IOUtils, TLC

VARIABLES l, nviol
tvars == <<l, nviol>>
Trace == ndJsonDeserialize(IOEnv.VERIF_TRACE)
TraceInit == l = 1 /\ nviol = 0
T(c, tag) == IF c THEN {tag} ELSE {}

Bad(e) ==
  IF e.panic THEN {"C19.panic"}
  ELSE IF ~e.parsed THEN T(~e.err, "C19.unparsable_accepted")
  ELSE IF e.neg THEN T(~e.err, "C19.negative_accepted")
  ELSE IF e.ddays = 0 /\ e.dsec = 0 THEN
       T(e.err \/ (e.out # <<>> /\ (e.relative \/ e.out # AbsString(e.nowday, e.nowsec))), "C19.zero")
  ELSE IF e.relative THEN
       IF e.ddays >= DayCap THEN T(~e.err, "C19.relative.unrepresentable_accepted")
       ELSE IF e.err THEN T(e.ddays < 31, "C19.relative.refused")
       ELSE IF e.out = RelString(e.ddays, e.dsec) THEN {}
       ELSE IF e.out = <<>> \/ (Len(e.out) = 16 /\ DenoteRel(e.out) = << e.ddays % 31, e.dsec >>)
            THEN {"C19.relative.days_mod_31"} ELSE {"C19.relative.wrong"}
  ELSE
       LET tday == e.nowday + e.ddays + ((e.nowsec + e.dsec) \div SPD)
           tsec == (e.nowsec + e.dsec) % SPD
       IN IF Civil(tday)[1] >= Civil(e.nowday)[1] + 100
            THEN T(~e.err, "C19.absolute.year_wrap_accepted")
            ELSE T(e.err \/ e.out # AbsString(tday, tsec), "C19.absolute.wrong")

TraceNext ==
  \/ /\ l <= Len(Trace)
     /\ LET e == Trace[l] bad == Bad(e) IN
          /\ bad # {} => PrintT(<<"VIOL", e.t, l, bad>>)
          /\ nviol' = nviol + (IF bad # {} THEN 1 ELSE 0)
     /\ l' = l + 1
  \/ /\ l = Len(Trace) + 1 /\ PrintT(<<"DONE", Len(Trace), nviol>>) /\ l' = l + 1 /\ UNCHANGED nviol
TraceSpec == TraceInit /\ [][TraceNext]_tvars
=============================================================================
