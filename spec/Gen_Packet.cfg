SPECIFICATION GenSpec
CONSTANTS
  GenLen = 12
  Oct = {0, 1, 2, 255}
INVARIANT Emit
CHECK_DEADLOCK FALSE
