SPECIFICATION MCSpec
CONSTANTS
  MaxItems = 2
  CutBinary = FALSE
INVARIANTS AssignmentsWellFormed PrefixIsLength RoundTrip TruncationsRefused
CHECK_DEADLOCK FALSE
