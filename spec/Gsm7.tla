-------------------------------- MODULE Gsm7 --------------------------------
(* GSM 7-bit default alphabet and extension table, and septet packing,     *)
(* transcribed from 3GPP TS 23.038 (6.2.1 default alphabet, 6.2.1.1        *)
(* extension table, 6.1.2.1 SMS packing) - not from gsm7.go.               *)
EXTENDS Bytes

ESC == 27
CR  == 13

\* Default[c + 1] = Unicode scalar value of septet c; -1 for the escape
Default == <<
  64, 163, 36, 165, 232, 233, 249, 236, 242, 199, 10, 216, 248, 13, 197, 229,
  916, 95, 934, 915, 923, 937, 928, 936, 931, 920, 926, -1, 198, 230, 223, 201,
  32, 33, 34, 35, 164, 37, 38, 39, 40, 41, 42, 43, 44, 45, 46, 47,
  48, 49, 50, 51, 52, 53, 54, 55, 56, 57, 58, 59, 60, 61, 62, 63,
  161, 65, 66, 67, 68, 69, 70, 71, 72, 73, 74, 75, 76, 77, 78, 79,
  80, 81, 82, 83, 84, 85, 86, 87, 88, 89, 90, 196, 214, 209, 220, 167,
  191, 97, 98, 99, 100, 101, 102, 103, 104, 105, 106, 107, 108, 109, 110, 111,
  112, 113, 114, 115, 116, 117, 118, 119, 120, 121, 122, 228, 246, 241, 252, 224 >>

\* extension table: <<code after ESC, scalar value>>
Ext == { <<10, 12>>, <<20, 94>>, <<40, 123>>, <<41, 125>>, <<47, 92>>,
         <<60, 91>>, <<61, 126>>, <<62, 93>>, <<64, 124>>, <<101, 8364>> }

DefaultChars == { Default[i] : i \in 1..128 } \ {-1}
ExtChars == { p[2] : p \in Ext }
Repertoire == DefaultChars \cup ExtChars

\* the septets of one character of the repertoire
EncChar(c) ==
  IF c \in DefaultChars
    THEN << (CHOOSE i \in 1..128 : Default[i] = c) - 1 >>
    ELSE << ESC, (CHOOSE p \in Ext : p[2] = c)[1] >>

Representable(text) == \A i \in 1..Len(text) : text[i] \in Repertoire

RECURSIVE EncSeptets(_)
EncSeptets(text) == IF text = <<>> THEN <<>> ELSE EncChar(Head(text)) \o EncSeptets(Tail(text))

ExtCodes == { p[1] : p \in Ext }

\* a septet sequence is decodable iff every value is < 128 and every ESC is followed by an extension code
RECURSIVE ValidSeptets(_)
ValidSeptets(s) ==
  IF s = <<>> THEN TRUE
  ELSE IF s[1] = ESC THEN Len(s) >= 2 /\ s[2] \in ExtCodes /\ ValidSeptets(Drop(s, 2))
  ELSE s[1] \in 0..127 /\ ValidSeptets(Tail(s))

RECURSIVE DecSeptets(_)
DecSeptets(s) ==
  IF s = <<>> THEN <<>>
  ELSE IF s[1] = ESC THEN << (CHOOSE p \in Ext : p[1] = s[2])[2] >> \o DecSeptets(Drop(s, 2))
  ELSE << Default[s[1] + 1] >> \o DecSeptets(Tail(s))

----------------------------------------------------------------------------
(* Packing: septet i (0-based) occupies bits 7i..7i+6 of the little-endian *)
(* bit stream; octet k holds stream bits 8k..8k+7.                         *)

P2(j) == CASE j = 0 -> 1 [] j = 1 -> 2 [] j = 2 -> 4 [] j = 3 -> 8
           [] j = 4 -> 16 [] j = 5 -> 32 [] j = 6 -> 64 [] j = 7 -> 128

\* bit p of the stream of septets s (0 beyond the end)
SBit(s, p) == LET i == p \div 7 IN IF i < Len(s) THEN (s[i + 1] \div P2(p % 7)) % 2 ELSE 0
\* bit p of the stream of octets o
OBit(o, p) == LET k == p \div 8 IN IF k < Len(o) THEN (o[k + 1] \div P2(p % 8)) % 2 ELSE 0

PackedLen(n) == (7 * n + 7) \div 8

PackRaw(s) ==
  [k \in 1..PackedLen(Len(s)) |->
     SBit(s, 8*(k-1))       + 2 * SBit(s, 8*(k-1)+1)  + 4 * SBit(s, 8*(k-1)+2)  + 8 * SBit(s, 8*(k-1)+3)
   + 16 * SBit(s, 8*(k-1)+4) + 32 * SBit(s, 8*(k-1)+5) + 64 * SBit(s, 8*(k-1)+6) + 128 * SBit(s, 8*(k-1)+7)]

\* the same octets computed from two septets per octet: octet k (0-based) holds the upper part
\* of septet j = (8k) div 7 and the lower part of septet j+1.  Equal to PackRaw (checked by
\* TLC in MC_Gsm7: FastIsDef); used where long messages are judged.
PackFast(s) ==
  LET n == Len(s) IN
  [k \in 1..PackedLen(n) |->
     LET j == (8 * (k - 1)) \div 7
         r == (8 * (k - 1)) % 7
         a == IF j < n THEN s[j + 1] \div P2(r) ELSE 0
         b == IF j + 1 < n THEN (s[j + 2] % P2(r + 1)) * P2(7 - r) ELSE 0
     IN a + b]

\* seven spare bits in the last octet are filled with CR
Pack(s) ==
  LET raw == PackFast(s) n == Len(s) IN
  IF n % 8 = 7 THEN [raw EXCEPT ![Len(raw)] = raw[Len(raw)] + 2 * CR] ELSE raw

\* unpacking when the septet count is known, as a handset does
UnpackN(o, n) ==
  [i \in 1..n |->
     OBit(o, 7*(i-1))       + 2 * OBit(o, 7*(i-1)+1)  + 4 * OBit(o, 7*(i-1)+2) + 8 * OBit(o, 7*(i-1)+3)
   + 16 * OBit(o, 7*(i-1)+4) + 32 * OBit(o, 7*(i-1)+5) + 64 * OBit(o, 7*(i-1)+6)]

\* What unpacking WITHOUT the count may return for Pack(s): s itself, except for the
\* two end-of-message ambiguities (the receiver cannot tell them from padding):
\* a final CR, or a final '@' (septet 0) preceded by a septet < 0x40, when the septet
\* count is a multiple of 8.  The CR fill of a 7-mod-8 message is removed again.
UnpackAllowed(s) ==
  {s} \cup
  (IF Len(s) > 0 /\ Len(s) % 8 = 0 /\
      (s[Len(s)] = CR \/ (s[Len(s)] = 0 /\ s[Len(s) - 1] < 64))
     THEN { Take(s, Len(s) - 1) } ELSE {})

----------------------------------------------------------------------------
(* Implementation-shaped layer 1: the block-of-eight unpacker of gsm7.go.  *)
(* Seven octets give eight septets; a last block of m < 7 octets gives m   *)
(* septets.  With MidGuard the eighth septet of EVERY block is dropped     *)
(* when octet 7 of the block is zero (the code before the fix); without it *)
(* only in the last block.                                                 *)
RECURSIVE BlockUnpack(_, _)
BlockUnpack(o, midGuard) ==
  IF o = <<>> THEN <<>>
  ELSE IF Len(o) >= 7
    THEN LET eight == UnpackN(Take(o, 7), 8)
             last  == Len(o) = 7
             drop  == o[7] = 0 /\ (midGuard \/ last)
         IN (IF drop THEN Take(eight, 7) ELSE eight) \o BlockUnpack(Drop(o, 7), midGuard)
    ELSE UnpackN(o, Len(o))

StripCR(s) == IF Len(s) > 0 /\ Len(s) % 8 = 0 /\ s[Len(s)] = CR THEN Take(s, Len(s) - 1) ELSE s
ImplUnpack(o, midGuard) == StripCR(BlockUnpack(o, midGuard))
=============================================================================
