---------------------------- MODULE Trace_Helpers ---------------------------
(* Trace validation of helper functions outside the listed properties.     *)
(* Tags start with "X." : they are reported as specification drift in the  *)
(* evidence file and never as a verdict on a listed property.              *)
EXTENDS Helpers, Json, IOUtils, TLC

VARIABLES l, nviol
tvars == <<l, nviol>>
Trace == ndJsonDeserialize(IOEnv.VERIF_TRACE)
TraceInit == l = 1 /\ nviol = 0
T(c, tag) == IF c THEN {tag} ELSE {}

Bad(e) ==
  CASE e.ev = "Stamp" -> T(e.num # Stamp(e.mo, e.d, e.h, e.mi, e.s) \/ e.str # Dec10(Stamp(e.mo, e.d, e.h, e.mi, e.s)), "X.helper.timestamp")
    [] e.ev = "Mobile" -> T(e.out # FixMobile(e.m), "X.helper.fixmobile")
    [] e.ev = "Addr" -> T(<<e.ton, e.npi>> # SourceTonNpi(e.addr) \/ e.same # e.addr, "X.helper.tonnpi")
    [] e.ev = "Esm" -> T(e.receipt # IsReceipt(e.esm) \/ e.longmo # IsLongMO(e.esm), "X.helper.esmclass")
    [] e.ev = "Sign" ->
         \* a well-formed signed content (signature and body free of brackets, both non-empty)
         T(e.content # Signed(e.l, e.r, e.sig, e.body, e.prefix), "X.helper.driver")
         \cup T(NoBrackets(e.sig) /\ NoBrackets(e.body) /\ Len(e.sig) >= 1 /\ Len(e.body) >= 1
                  /\ (e.outbody # e.body \/ e.outsig # e.sig), "X.helper.removesign")
         \cup T(NoBrackets(e.sig) /\ NoBrackets(e.body) /\ Len(e.sig) >= 1 /\ e.parsed # e.sig, "X.helper.parsesignature")
    [] e.ev = "Registry" ->
         \* one event per protocol: rows for every number -1..300
         LET R == e.rows
             ok(r) == /\ r.valid = (r.c \in RegValid(e.proto)) /\ r.wire = RegWire(e.proto, r.c) /\ r.name = RegName(e.proto, r.c)
                      /\ r.codec = RegCodec(e.proto, r.c)
                      /\ r.getcodec = (IF r.c \in RegValid(e.proto) THEN RegCodec(e.proto, r.c) ELSE "UCS2")
                      /\ (r.codec # "" => <<r.maxlen, r.splitby>> = RegLimits(r.codec))
         IN T(\E i \in 1..Len(R) : ~ok(R[i]), "X.helper.registry")
            \cup T({R[i].c : i \in 1..Len(R)} # -1..300, "X.helper.driver")
            \cup T(\E i, j \in 1..Len(R) : R[i].valid /\ R[j].valid /\ R[i].c \in RegValid(e.proto) /\ R[j].c \in RegValid(e.proto)
                      /\ (R[i].prio < R[j].prio) # (RegRank(e.proto, R[i].c) < RegRank(e.proto, R[j].c)), "X.helper.registry.order")

TraceNext ==
  \/ /\ l <= Len(Trace)
     /\ LET e == Trace[l] bad == Bad(e) IN
          /\ bad # {} => PrintT(<<"VIOL", e.t, l, bad>>)
          /\ nviol' = nviol + (IF bad # {} THEN 1 ELSE 0)
     /\ l' = l + 1
  \/ /\ l = Len(Trace) + 1 /\ PrintT(<<"DONE", Len(Trace), nviol>>) /\ l' = l + 1 /\ UNCHANGED nviol
TraceSpec == TraceInit /\ [][TraceNext]_tvars
=============================================================================
