---------------------------- MODULE Trace_Helpers ---------------------------
(* Trace validation of helper functions outside the listed properties.     *)
(* Tags start with "X." : they are reported as specification drift in the  *)
(* evidence file and never as a verdict on a listed property.              *)
EXTENDS Helpers, Json, IOUtils, TLC

VARIABLES l, nviol
tvars == <<l, nviol>>
Trace == ndJsonDeserialize(IOEnv.VERIF_TRACE)
TraceInit == l = 1 /\ nviol = 0
T(c, tag) == IF c THEN {tag} ELSE {}

Bad(e) ==
  CASE e.ev = "Stamp" -> T(e.num # Stamp(e.mo, e.d, e.h, e.mi, e.s) \/ e.str # Dec10(Stamp(e.mo, e.d, e.h, e.mi, e.s)), "X.helper.timestamp")
    [] e.ev = "Mobile" -> T(e.out # FixMobile(e.m), "X.helper.fixmobile")
    [] e.ev = "Addr" -> T(<<e.ton, e.npi>> # SourceTonNpi(e.addr) \/ e.same # e.addr, "X.helper.tonnpi")
    [] e.ev = "Esm" -> T(e.receipt # IsReceipt(e.esm) \/ e.longmo # IsLongMO(e.esm), "X.helper.esmclass")
    [] e.ev = "Sign" ->
         \* a well-formed signed content (signature and body free of brackets, both non-empty)
         T(e.content # Signed(e.l, e.r, e.sig, e.body, e.prefix), "X.helper.driver")
         \cup T(NoBrackets(e.sig) /\ NoBrackets(e.body) /\ Len(e.sig) >= 1 /\ Len(e.body) >= 1
                  /\ (e.outbody # e.body \/ e.outsig # e.sig), "X.helper.removesign")
         \cup T(NoBrackets(e.sig) /\ NoBrackets(e.body) /\ Len(e.sig) >= 1 /\ e.parsed # e.sig, "X.helper.parsesignature")
    [] e.ev = "Registry" ->
         \* one event per protocol: rows for every number -1..300
         LET R == e.rows
             ok(r) == /\ r.valid = (r.c \in RegValid(e.proto)) /\ r.wire = RegWire(e.proto, r.c) /\ r.name = RegName(e.proto, r.c)
                      /\ r.codec = RegCodec(e.proto, r.c)
                      /\ r.getcodec = (IF r.c \in RegValid(e.proto) THEN RegCodec(e.proto, r.c) ELSE "UCS2")
                      /\ (r.codec # "" => <<r.maxlen, r.splitby>> = RegLimits(r.codec))
         IN T(\E i \in 1..Len(R) : ~ok(R[i]), "X.helper.registry")
            \cup T({R[i].c : i \in 1..Len(R)} # -1..300, "X.helper.driver")
            \cup T(\E i, j \in 1..Len(R) : R[i].valid /\ R[j].valid /\ R[i].c \in RegValid(e.proto) /\ R[j].c \in RegValid(e.proto)
                      /\ (R[i].prio < R[j].prio) # (RegRank(e.proto, R[i].c) < RegRank(e.proto, R[j].c)), "X.helper.registry.order")
    [] e.ev = "Hdr" ->
         \* three ways to the same header: all refuse fewer than 12 octets, all agree on 12 or more, the header writes back
         LET short == Len(e.in) < 12 IN
         T(\E i \in 1..3 : e.errs[i] # short, "X.helper.header")
         \cup T(~short /\ (\E i \in 1..3 : e.f[i] # HdrFields(e.in)), "X.helper.header")
         \cup T(~short /\ e.back # SubSeq(e.in, 1, 12), "X.helper.header.bytes")
    [] e.ev = "DecId" ->
         T(\E i \in 1..2 : e.strs[i] # Dec32(e.hi, e.lo) \/ e.nums[i] # <<e.hi, e.lo>>, "X.helper.decimal_id")
    [] e.ev = "Hex" ->
         T(e.w # HexOf(e["in"]) \/ e.r # HexOf(SubSeq(e["in"], e.skip + 1, Len(e["in"]))), "X.helper.hexstring")
    [] e.ev = "CmdJson" ->
         \* a named command goes there and back; anything else is written as unknown(n) and not read back
         T(e.js # <<34>> \o e.name \o <<34>>, "X.helper.cmdjson")
         \cup T(e.uerr # ~NamedCmd(e.hi, e.lo), "X.helper.cmdjson")
         \cup T(~e.uerr /\ <<e.bhi, e.blo>> # <<e.hi, e.lo>>, "X.helper.cmdjson")
    [] e.ev = "RespHdr" ->
         \* Deliver_Resp 0x80000003, Active_Test_Resp 0x80000004, Exit_Resp 0x80000006 under the request's sequence number
         T(\E i \in 1..3 : e.seqs[i] # <<e.hi, e.lo>> \/ ~e.resp[i], "X.helper.response_header")
         \cup T(e.cmds # <<3, 4, 6>>, "X.helper.response_header")
    [] e.ev = "OneTlv" ->
         LET img == <<e.tag \div 256, (e.tag % 256), 0, Len(e.v)>> \o e.v IN
         T(e.bytes[1] # img \/ e.bytes[2] # img, "X.helper.tlv")
         \cup T(e.empty # <<e.tag = 0 /\ e.v = <<>>, e.tag = 0 /\ e.v = <<>>, TRUE>> \/ e.strempty # <<e.tag = 0 /\ e.v = <<>>, TRUE>>, "X.helper.tlv")
    [] e.ev = "CanGsm" -> T(e.can # e.valid \/ e.can # (e.inv = <<>>), "X.helper.cangsm")

TraceNext ==
  \/ /\ l <= Len(Trace)
     /\ LET e == Trace[l] bad == Bad(e) IN
          /\ bad # {} => PrintT(<<"VIOL", e.t, l, bad>>)
          /\ nviol' = nviol + (IF bad # {} THEN 1 ELSE 0)
     /\ l' = l + 1
  \/ /\ l = Len(Trace) + 1 /\ PrintT(<<"DONE", Len(Trace), nviol>>) /\ l' = l + 1 /\ UNCHANGED nviol
TraceSpec == TraceInit /\ [][TraceNext]_tvars
=============================================================================
