SPECIFICATION MCSpec
CONSTANTS
  LowerBound = TRUE
  Remember = FALSE
  MaxStreams = 1
  MaxFrames = 2
  MaxBody = 2
  BodyOct = {0, 4, 5}
INVARIANTS OutPrefix NoShortFrame NoPanic ConservedInv AllOut
PROPERTIES IncompleteConsumesNothing NoPartialFrame
CHECK_DEADLOCK FALSE
