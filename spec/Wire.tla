-------------------------------- MODULE Wire --------------------------------
(* The layout interpreter: the reference encoder and decoder of every PDU  *)
(* type as folds of packet primitives over Layouts, independent of the Go  *)
(* code.  A PDU value p is a record field name -> value:                   *)
(*   U, N, Z   the big-endian octets of the number (exactly w octets)      *)
(*   F, C      octet string            FB, FH   exactly w octets           *)
(*   L         sequence of octet strings         B    octet string         *)
(*   T, O      sequence of [t |-> tag, v |-> octets]                       *)
(* Properties: WellFormed, Image/Conforms (C02), Eq (C01, C11),            *)
(* MandatoryComplete (C03), IsCanonical (C11).                             *)
EXTENDS Bytes, Layouts, TLC

Huge == 2147483647
\* numeric value of big-endian octets, saturated (TLC integers are 32-bit)
NumVal(o) == IF Len(o) > 4 \/ (Len(o) = 4 /\ o[1] >= 128) THEN Huge ELSE BEVal(o)

Triplet(x) == BE(x.t, 2) \o BE(Len(x.v) % 65536, 2) \o x.v
RECURSIVE Triplets(_)
Triplets(xs) == IF xs = <<>> THEN <<>> ELSE Triplet(Head(xs)) \o Triplets(Tail(xs))

RECURSIVE PadAll(_, _)
PadAll(xs, w) == IF xs = <<>> THEN <<>> ELSE PadTo(Head(xs), w) \o PadAll(Tail(xs), w)

EncField(f, p) ==
  LET v == p[f.n] IN
  CASE f.k \in {"U", "N", "Z", "FB", "FH", "B"} -> v
    [] f.k = "F" -> PadTo(v, f.w)
    [] f.k = "C" -> v \o <<0>>
    [] f.k = "L" -> PadAll(v, f.w)
    [] f.k \in {"T", "O"} -> Triplets(v)

RECURSIVE EncFrom(_, _, _)
EncFrom(fs, i, p) == IF i > Len(fs) THEN <<>> ELSE EncField(fs[i], p) \o EncFrom(fs, i + 1, p)

\* the image of a field list (with or without the 4-octet total-length prefix)
ImageFs(fs, hdr, p) ==
  LET body == EncFrom(fs, 1, p) IN
  IF hdr THEN BE(Len(body) + 4, 4) \o body ELSE body

\* the image the documents prescribe (optional parameters in the listed order)
Image(t, p) == ImageFs(Layout(t), HasHeader(t), p)

IsTail(f) == f.k \in {"T", "O"}
FixedFields(t) == SelectSeq(Layout(t), LAMBDA f : ~IsTail(f))
HasTail(t) == \E i \in 1..Len(Layout(t)) : IsTail(Layout(t)[i])
TailName(t) == (CHOOSE i \in 1..Len(Layout(t)) : IsTail(Layout(t)[i]))

----------------------------------------------------------------------------
(* Parsing a tail of tag/length/value triplets, strictly.                  *)
RECURSIVE ParseTriplets(_)
ParseTriplets(b) ==
  IF b = <<>> THEN [ok |-> TRUE, xs |-> <<>>]
  ELSE IF Len(b) < 4 THEN [ok |-> FALSE, xs |-> <<>>]
  ELSE LET n == BEVal(SubSeq(b, 3, 4)) IN
       IF Len(b) < 4 + n THEN [ok |-> FALSE, xs |-> <<>>]
       ELSE LET r == ParseTriplets(Drop(b, 4 + n)) IN
            [ok |-> r.ok, xs |-> << [t |-> BEVal(Take(b, 2)), v |-> SubSeq(b, 5, 4 + n)] >> \o r.xs]

AsSet(xs) == { xs[i] : i \in 1..Len(xs) }
TagsDistinct(xs) == \A i, j \in 1..Len(xs) : i # j => xs[i].t # xs[j].t
\* later duplicates overwrite earlier ones (a map keyed by tag)
LastWins(xs) == { xs[i] : i \in { k \in 1..Len(xs) : \A j \in (k+1)..Len(xs) : xs[j].t # xs[k].t } }

----------------------------------------------------------------------------
(* The reference decoder: walks the layout over the octets.                *)
(* Result: ok, the field values, the octets left over, and `at` = index of *)
(* the field at which the input ran out (0 if none).                       *)
RECURSIVE DecFrom(_, _, _, _, _)
DecFrom(fs, i, rest, acc, aux) ==
  IF i > Len(fs) THEN [ok |-> TRUE, p |-> acc, rest |-> rest, at |-> 0]
  ELSE
    LET f == fs[i]
        short == [ok |-> FALSE, p |-> acc, rest |-> <<>>, at |-> i]
    IN
    CASE f.k \in {"U", "N", "Z", "FB", "FH"} ->
           IF Len(rest) < f.w THEN short
           ELSE DecFrom(fs, i + 1, Drop(rest, f.w), acc @@ (f.n :> Take(rest, f.w)), NumVal(Take(rest, f.w)))
      [] f.k = "F" ->
           IF Len(rest) < f.w THEN short
           ELSE DecFrom(fs, i + 1, Drop(rest, f.w), acc @@ (f.n :> CutAtNul(Take(rest, f.w))), aux)
      [] f.k = "C" ->
           LET z == IndexOf(rest, 0) IN
           IF z = 0 THEN short
           ELSE DecFrom(fs, i + 1, Drop(rest, z), acc @@ (f.n :> Take(rest, z - 1)), aux)
      [] f.k = "L" ->
           IF aux = Huge \/ Len(rest) < aux * f.w THEN short
           ELSE DecFrom(fs, i + 1, Drop(rest, aux * f.w),
                        acc @@ (f.n :> [j \in 1..aux |-> CutAtNul(SubSeq(rest, (j - 1) * f.w + 1, j * f.w))]), aux)
      [] f.k = "B" ->
           IF aux = Huge \/ Len(rest) < aux THEN short
           ELSE DecFrom(fs, i + 1, Drop(rest, aux), acc @@ (f.n :> Take(rest, aux)), aux)
      [] f.k \in {"T", "O"} ->
           LET r == ParseTriplets(rest) IN
           IF ~r.ok THEN short
           ELSE DecFrom(fs, i + 1, <<>>, acc @@ (f.n :> r.xs), aux)

Empty == [x \in {} |-> 0]
RefDecodeFs(fs, hdr, b) ==
  IF hdr
    THEN IF Len(b) < 4 THEN [ok |-> FALSE, p |-> Empty, rest |-> <<>>, at |-> 1]
         ELSE DecFrom(fs, 1, Drop(b, 4), Empty, 0)
    ELSE DecFrom(fs, 1, b, Empty, 0)
RefDecode(t, b) == RefDecodeFs(Layout(t), HasHeader(t), b)

\* the input holds every mandatory (non-tail) field completely
MandatoryComplete(t, b) ==
  LET d == RefDecode(t, b) IN d.ok \/ (d.at > 0 /\ IsTail(Layout(t)[d.at]))

----------------------------------------------------------------------------
(* Well-formed field assignments (C01/C02 quantify over these).            *)
FieldOK(fs, i, p) ==
  LET f == fs[i] v == p[f.n] IN
  CASE f.k = "U" -> Len(v) = f.w
    [] f.k = "F" -> Len(v) <= f.w /\ ~HasNul(v)
    [] f.k \in {"FB", "FH"} -> Len(v) = f.w
    [] f.k = "C" -> ~HasNul(v)
    [] f.k = "N" -> Len(v) = f.w /\ NumVal(v) = Len(p[fs[i + 1].n])
    [] f.k = "L" -> \A j \in 1..Len(v) : Len(v[j]) <= f.w /\ ~HasNul(v[j])
    [] f.k = "Z" -> Len(v) = f.w /\ NumVal(v) = Len(p[fs[i + 1].n])
    [] f.k = "B" -> TRUE
    [] f.k \in {"T", "O"} -> TagsDistinct(v) /\ \A j \in 1..Len(v) : Len(v[j].v) <= 65531 /\ v[j].t \in 0..65535

WellFormedFs(fs, p) == \A i \in 1..Len(fs) : FieldOK(fs, i, p)
CmdOK(t, p) == ~HasHeader(t) \/ p["cmd"] = CmdOctets(t)

WellFormed(t, p) ==
  /\ CmdOK(t, p)
  /\ WellFormedFs(Layout(t), p)

\* well-formed except that some fixed-width text value is longer than its slot
SlotTooLong(f, v) ==
  CASE f.k = "F" -> Len(v) > f.w
    [] f.k = "L" -> \E j \in 1..Len(v) : Len(v[j]) > f.w
    [] OTHER -> FALSE
TooLongOnly(t, p) ==
  /\ CmdOK(t, p)
  /\ \E i \in 1..Len(Layout(t)) : SlotTooLong(Layout(t)[i], p[Layout(t)[i].n])
  /\ \A i \in 1..Len(Layout(t)) :
       SlotTooLong(Layout(t)[i], p[Layout(t)[i].n]) \/ FieldOK(Layout(t), i, p)

----------------------------------------------------------------------------
(* Equality of PDUs: field-wise, optional parameters as a set.  The CMPP   *)
(* 2.0 submit encoder documents the defaulting of an all-zero part counter *)
(* to 1/1; Norm applies it.                                                *)
Norm(t, p) ==
  IF t = "cmpp20.PduSubmit" /\ p["PkTotal"] = <<0>> /\ p["PkNumber"] = <<0>>
    THEN [p EXCEPT !["PkTotal"] = <<1>>, !["PkNumber"] = <<1>>] ELSE p

FieldEq(f, a, b) == IF IsTail(f) THEN AsSet(a) = AsSet(b) ELSE a = b
EqFs(fs, a, b) == \A i \in 1..Len(fs) : LET f == fs[i] IN FieldEq(f, a[f.n], b[f.n])
EqRaw(t, a, b) == EqFs(Layout(t), a, b)
\* b is what came back for a (a possibly normalised once)
Eq(t, b, a) == EqRaw(t, b, a) \/ EqRaw(t, b, Norm(t, a))

\* classification of a mismatch: the only differences are fixed binary slots that came back
\* without their trailing NUL octets
TrimRight0(s) == LET ks == { k \in 1..Len(s) : s[k] # 0 } IN
                 IF ks = {} THEN <<>> ELSE Take(s, CHOOSE k \in ks : \A j \in ks : j <= k)
OnlyTrailingNulDiff(t, b, a) ==
  /\ \A i \in 1..Len(Layout(t)) : LET f == Layout(t)[i] IN
        \/ FieldEq(f, b[f.n], a[f.n])
        \/ f.k \in {"FB", "FH"} /\ b[f.n] = TrimRight0(a[f.n])
  /\ ~EqRaw(t, b, a)

\* the produced octets are the prescribed image (optional parameters in any order)
ConformsTo(t, p, bytes) ==
  IF ~HasTail(t) THEN bytes = Image(t, p)
  ELSE LET tn == Layout(t)[TailName(t)].n
           fixed == Image(t, [p EXCEPT ![tn] = <<>>])
           nfix == Len(fixed)
           tail == ParseTriplets(Drop(bytes, nfix))
       IN /\ Len(bytes) >= nfix
          /\ Drop(Take(bytes, nfix), 4) = Drop(fixed, 4)
          /\ Take(bytes, 4) = BE(Len(bytes), 4)
          /\ tail.ok /\ Len(tail.xs) = Len(p[tn]) /\ AsSet(tail.xs) = AsSet(p[tn])
Conforms(t, p, bytes) == ConformsTo(t, p, bytes) \/ ConformsTo(t, Norm(t, p), bytes)

\* the body after the length prefix is right, whatever the prefix says
BodyConforms(t, p, bytes) ==
  \/ ~HasHeader(t)
  \/ Len(bytes) >= 4 /\ (Conforms(t, p, BE(Len(bytes), 4) \o Drop(bytes, 4)))
PrefixOK(t, bytes) == ~HasHeader(t) \/ (Len(bytes) >= 4 /\ Take(bytes, 4) = BE(Len(bytes), 4))

\* b is canonical: it is the image of the well-formed PDU it decodes to
IsCanonical(t, b) ==
  LET d == RefDecode(t, b) IN
  /\ d.ok /\ d.rest = <<>> /\ WellFormed(t, d.p) /\ Conforms(t, d.p, b)

\* document lengths of the PDUs without a variable part
FixedLen(t) ==
  LET RECURSIVE S(_)
      S(i) == IF i > Len(Layout(t)) THEN 0 ELSE Layout(t)[i].w + S(i + 1)
  IN S(1) + (IF HasHeader(t) THEN 4 ELSE 0)
DocLensOK == \A i \in 1..Len(DocLen) : FixedLen(DocLen[i][1]) = DocLen[i][2]
=============================================================================
