SPECIFICATION TraceSpec
CONSTANTS
  CopyOut = TRUE
  DecodeCopies = TRUE
  NPool = 2
INVARIANT TraceInv
CHECK_DEADLOCK FALSE
