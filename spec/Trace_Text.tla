------------------------------ MODULE Trace_Text ----------------------------
(* Trace validation of the datacoding codecs (Ascii, Latin1, UCS2, GB18030, *)
(* GSM7Packed, GSM7Unpacked), the UTF-8 -> UCS-2 helpers of cmpp/utils.go  *)
(* and the protocol-level content decoders against Text.                    *)
EXTENDS Text, Json, IOUtils, TLC

VARIABLES l, nviol, cover
tvars == <<l, nviol, cover>>
Trace == ndJsonDeserialize(IOEnv.VERIF_TRACE)
TraceInit == l = 1 /\ nviol = 0 /\ cover = 0
T(c, tag) == IF c THEN {tag} ELSE {}

HasCarveOut(kind, text) == kind = "gb" /\ \E i \in 1..Len(text) : GBCarveOut(text[i])

BadCodec(e) ==
  LET kind == e.coding text == e.text IN
  IF e.panic THEN {"C05.panic"}
  ELSE IF FullySpecified(kind) THEN
       T(e.encerr # ~CanRepresent(kind, text), IF e.encerr THEN "C05.refuses_member" ELSE "C05.accepts_foreign")
  \cup T(~e.encerr /\ CanRepresent(kind, text) /\ e.enc # Encoded(kind, text), "C05.bytes")
  \cup T(~e.encerr /\ CanRepresent(kind, text) /\ (e.decerr \/ e.dec \notin DecodedAllowed(kind, text)), "C05.roundtrip")
  ELSE
       T(~e.encerr /\ kind = "latin1" /\ \E i \in 1..Len(text) : Latin1MustRefuse(text[i]), "C05.accepts_foreign")
  \cup T(~e.encerr /\ ~HasCarveOut(kind, text) /\ (e.decerr \/ e.dec # text), "C05.roundtrip")

BadContent(e) ==
  LET kind == WireKind(e.proto, e.n) IN
  IF e.panic THEN {"C05.panic"}
  ELSE IF kind = "invalid" THEN T(~e.err, "C05.unsupported_accepted")
  ELSE IF kind # e.coding THEN {}                  \* bytes produced by another coding: nothing to invert
  ELSE T(~HasCarveOut(kind, e.text) /\ (e.err \/ e.out # e.text), "C05.content")

Bad(e) ==
  CASE e.ev = "Codec" -> BadCodec(e)
    [] e.ev = "Helpers" ->
         T(e.a # UnitStream("ucs2", e.text) \/ e.b # UnitStream("ucs2", e.text) \/ e.c # UnitStream("ucs2", e.text), "C05.helpers")
    [] e.ev = "Content" -> BadContent(e)
    [] e.ev = "SweepStart" -> {}
    [] e.ev = "Sweep" ->
         T(e.lo # cover \/ e.hi < e.lo, "C05.sweep.gap")
         \cup T(e.class = "MISMATCH" /\ ~(e.coding = "gb" /\ e.lo >= 57344 /\ e.hi <= 59492), "C05.sweep.mismatch")
         \cup T(e.class \notin {"roundtrip", "refused", "MISMATCH", "surrogate"}, "C05.sweep." \o e.class)
         \cup (IF FullySpecified(e.coding) THEN
                 T(e.class = "roundtrip" /\
                     (CASE e.coding = "ascii" -> e.hi > 127
                        [] e.coding = "ucs2" -> FALSE
                        [] OTHER -> \E cp \in e.lo..e.hi : cp \notin Repertoire), "C05.sweep.accepts_foreign")
                 \cup T(e.class = "refused" /\
                     (CASE e.coding = "ascii" -> e.lo <= 127
                        [] e.coding = "ucs2" -> TRUE
                        [] OTHER -> \E r \in Repertoire : r >= e.lo /\ r <= e.hi), "C05.sweep.refuses_member")
               ELSE T(e.coding = "latin1" /\ e.class = "roundtrip" /\ e.hi >= 256 /\
                        \E cp \in (IF e.lo < 256 THEN 256 ELSE e.lo)..e.hi : cp \notin CP1252Extras, "C05.sweep.accepts_foreign"))
    [] e.ev = "SweepEnd" -> T(cover # 1114112, "C05.sweep.gap")

TraceNext ==
  \/ /\ l <= Len(Trace)
     /\ LET e == Trace[l] bad == Bad(e) IN
          /\ bad # {} => PrintT(<<"VIOL", e.t, l, bad>>)
          /\ nviol' = nviol + (IF bad # {} THEN 1 ELSE 0)
          /\ cover' = IF e.ev = "SweepStart" THEN 0 ELSE IF e.ev = "Sweep" THEN e.hi + 1 ELSE cover
     /\ l' = l + 1
  \/ /\ l = Len(Trace) + 1 /\ PrintT(<<"DONE", Len(Trace), nviol>>) /\ l' = l + 1 /\ UNCHANGED <<nviol, cover>>
TraceSpec == TraceInit /\ [][TraceNext]_tvars
=============================================================================
