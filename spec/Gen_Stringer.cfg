SPECIFICATION GenSpec
CONSTANTS
  ResetOnRelease = TRUE
  GenLen = 14
INVARIANT Emit
CHECK_DEADLOCK FALSE
