SPECIFICATION Spec
CONSTANTS
  G = {1, 2, 3}
  Ops = 3
  PutEarly = FALSE
  ResetOnError = TRUE
  LazyInit = "once"
  MayFail = TRUE
INVARIANTS Independent Exclusive HeldNotPooled PoolClean NoBlindRead
CHECK_DEADLOCK FALSE
