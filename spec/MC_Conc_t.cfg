SPECIFICATION Spec
CONSTANTS
  G = {1, 2, 3}
  Ops = 3
  PutEarly = FALSE
INVARIANTS Independent Exclusive
CHECK_DEADLOCK FALSE
