SPECIFICATION GenSpec
CONSTANTS
  Sinks = {1, 2, 3}
  LevelCmp <- Cmp
  GenLen = 14
INVARIANT Emit
CHECK_DEADLOCK FALSE
