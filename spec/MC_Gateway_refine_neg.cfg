SPECIFICATION Spec
CONSTANTS
  Msgs = {1, 2}
  MaxParts = 2
  Refs = {7, 8}
  SameRef = FALSE
  Echo = FALSE
  MaxResend = 1
PROPERTY Refines
CHECK_DEADLOCK FALSE
