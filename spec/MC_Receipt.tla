------------------------------ MODULE MC_Receipt ----------------------------
(* Every subset and order of the keys in Keys (the prefix-related pairs     *)
(* sub / submit date and Sub / Submit_Date included), every spelling, every *)
(* value assignment from Vals: the first-occurrence search must return what *)
(* the receipt carries.                                                     *)
EXTENDS Receipt, TLC

CONSTANTS Keys, ColonInFallback

VARIABLES pairs, text, k, got, phase
rvars == <<pairs, text, k, got, phase>>

Vals == { <<120>>, <<48,48,49>>, <<49,50,51,52,53,54,55,56,57,48,49,50>> }
Spellings == {1, 2}
KeySeqs == UNION { { s \in [1..n -> Keys] : \A i, j \in 1..n : i # j => s[i] # s[j] } : n \in 0..Cardinality(Keys) }
Receipts == UNION { { [i \in 1..Len(ks) |-> << ks[i], sp[i], v[i] >>] :
                        sp \in [1..Len(ks) -> Spellings], v \in [1..Len(ks) -> Vals] } : ks \in KeySeqs }

Init == pairs \in Receipts /\ text = Render(pairs) /\ k \in Keys /\ got = <<>> /\ phase = "built"
Extract == phase = "built" /\ got' = ImplSmgp(text, k, ColonInFallback) /\ phase' = "done" /\ UNCHANGED <<pairs, text, k>>
Spec == Init /\ [][Extract]_rvars

OrderIndependent == phase = "done" => got = ExpectedSmgp(pairs, k)
SmppToo == \A kk \in Keys : (\A i \in 1..Len(pairs) : pairs[i][2] = 1) => ImplSmpp(text, kk) = ExpectedSmpp(pairs, kk)
=============================================================================
