----------------------------- MODULE Trace_Wire -----------------------------
(* Trace validation of the real IEncode / IDecode of every PDU type (and   *)
(* the dispatchers) against Wire/Layouts.                                  *)
(*   RT     p -> IEncode -> bytes -> IDecode(fresh) -> p2      C01, C02     *)
(*   Relay  b0 -> IDecode -> p1 -> IEncode -> b1 -> IDecode -> p2   C11     *)
(*   Fuzz   arbitrary octets into a decoder / parser             C03       *)
EXTENDS Wire, Json, IOUtils

VARIABLES l, nviol
tvars == <<l, nviol>>
Trace == ndJsonDeserialize(IOEnv.VERIF_TRACE)
TraceInit == l = 1 /\ nviol = 0

T(c, tag) == IF c THEN {tag} ELSE {}

BadRT(e) ==
  LET t == e.type p == e.p IN
  IF WellFormed(t, p) THEN
    IF e.encerr THEN {"C01.enc_error"}
    ELSE
         \* (the prescribed image followed by exactly one more octet is the recorded SMGP Active_Test_Resp finding)
         T(~BodyConforms(t, p, e.bytes),
           IF Len(e.bytes) = Len(Image(t, p)) + 1 /\ Drop(Take(e.bytes, Len(e.bytes) - 1), 4) = Drop(Image(t, p), 4)
             THEN "C02.layout.one_trailing_octet" ELSE "C02.layout")
    \cup T(~PrefixOK(t, e.bytes), "C02.length_prefix")
    \cup T(~PrefixOK(t, e.bytes), "C01.header_length")
    \cup (IF e.decerr THEN {"C01.dec_error"}
          ELSE T(~Eq(t, e.p2, p) /\ ~OnlyTrailingNulDiff(t, e.p2, p), "C01.roundtrip")
               \cup T(OnlyTrailingNulDiff(t, e.p2, p), "C01.roundtrip.binary_trailing_nul")
               \cup T(HasHeader(t) /\ e.hlen2 # BE(Len(e.bytes), 4) /\ PrefixOK(t, e.bytes), "C01.header_length")
               \cup T(Conforms(t, p, e.bytes) /\ ~Eq(t, e.p2, p) /\ ~OnlyTrailingNulDiff(t, e.p2, p), "C02.reads")
               \cup T(Conforms(t, p, e.bytes) /\ OnlyTrailingNulDiff(t, e.p2, p), "C02.reads.binary_trailing_nul")
               \* the dispatcher of the package reads the same image: same type, same field values as IDecode
               \cup T(e.dtype # "skip" /\ (e.dtype # t \/ ~e.dsame), "C02.reads.dispatcher"))
  ELSE IF TooLongOnly(t, p) THEN T(~e.encerr, "C01.toolong_accepted")
  ELSE {}

\* a conformant image read into an object that held another PDU before, and its header read from a stream that delivers
\* one octet at a time: the same values
BadReuse(e) ==
  T("usame" \in DOMAIN e /\ ~e.usame, "C02.reads.used_object")
  \cup T("hdrok" \in DOMAIN e /\ ~e.hdrok, "C02.reads.header_from_reader")

BadRelay(e) ==
  LET t == e.type IN
  IF e.panic THEN {"C11.panic"}
  ELSE IF e.decerr THEN {}
  ELSE IF e.encerr THEN {"C11.reencode_error"}
  ELSE IF e.dec2err THEN {"C11.redecode_error"}
  ELSE T(~Eq(t, e.p2, e.p1) /\ ~OnlyTrailingNulDiff(t, e.p2, e.p1), "C11.unstable")
       \cup T(OnlyTrailingNulDiff(t, e.p2, e.p1), "C11.unstable.binary_trailing_nul")
       \cup T(IsCanonical(t, e.b0) /\ ~Conforms(t, RefDecode(t, e.b0).p, e.b1), "C11.canonical")
       \* an object that has held another PDU before relays the image like a fresh one
       \* (optional parameters come out of a map: their order may differ between two encodes, Conforms allows that)
       \cup T(e.u # "skip" /\ (e.u # "ok" \/ (e.b1u # e.b1 /\ (~RefDecode(t, e.b1).ok \/ ~Conforms(t, RefDecode(t, e.b1).p, e.b1u)))),
              "C11.used_object")
       \* a PDU the dispatcher handed out, kept while the next frame of the same command is dispatched, relays like a fresh one
       \cup T(e.h # "skip" /\ (e.h # "ok" \/ (e.b1h # e.b1 /\ (~RefDecode(t, e.b1).ok \/ ~Conforms(t, RefDecode(t, e.b1).p, e.b1h)))),
              "C11.held_object")

BadFuzz(e) ==
  IF e.outcome = "skipped" THEN {} ELSE
       T(e.outcome = "panic", "C03.panic")
  \cup T(e.outcome = "timeout", "C03.hang")
  \cup T(e.alloc > 64 * Len(e.in) + 1048576, "C03.alloc")
  \cup T(e.type # "" /\ e.outcome = "ok" /\ ~MandatoryComplete(e.type, e.in), "C03.short_accepted")

\* SMGP 3.0.3, 6.3.1: the tag values of the optional parameters
SmgpTagOf(name) ==
  CASE name = "TP_pid" -> 1 [] name = "TP_udhi" -> 2 [] name = "LinkID" -> 3 [] name = "ChargeUserType" -> 4
    [] name = "ChargeTermType" -> 5 [] name = "ChargeTermPseudo" -> 6 [] name = "DestTermType" -> 7 [] name = "DestTermPseudo" -> 8
    [] name = "PkTotal" -> 9 [] name = "PkNumber" -> 10 [] name = "SubmitMsgType" -> 11 [] name = "SPDealReslt" -> 12
    [] name = "SrcTermType" -> 13 [] name = "SrcTermPseudo" -> 14 [] name = "NodesCount" -> 15 [] name = "MsgSrc" -> 16
    [] name = "SrcType" -> 17 [] name = "MServiceID" -> 18
BadTags(e) ==
  T(Len(e.rows) # 18, "C02.driver")
  \cup T(\E i \in 1..Len(e.rows) : LET r == e.rows[i] IN
            r.value # SmgpTagOf(r.name) \/ r.image # <<0, SmgpTagOf(r.name), 0, 1, 90>>, "C02.layout.option_tag")

Bad(e) ==
  CASE e.ev = "TagTable" -> BadTags(e)
    [] e.ev = "RT" -> BadReuse(e) \cup BadRT(e) \cup T(e.type = "cmpp.SubPduDeliveryContent" /\ BadRT(e) # {}, "C18.statusreport")
    [] e.ev = "Relay" -> BadRelay(e)
    [] e.ev = "Fuzz" -> BadFuzz(e)

TraceNext ==
  \/ /\ l <= Len(Trace)
     /\ LET e == Trace[l] bad == Bad(e) IN
          /\ bad # {} => PrintT(<<"VIOL", e.t, l, bad>>)
          /\ nviol' = nviol + (IF bad # {} THEN 1 ELSE 0)
     /\ l' = l + 1
  \/ /\ l = Len(Trace) + 1 /\ PrintT(<<"DONE", Len(Trace), nviol>>) /\ l' = l + 1
     /\ UNCHANGED nviol

TraceSpec == TraceInit /\ [][TraceNext]_tvars
ASSUME DocLensOK
=============================================================================
