SPECIFICATION MCSpec
CONSTANTS
  LowerBound = TRUE
  Remember = FALSE
  MaxStreams = 2
  MaxFrames = 1
  MaxBody = 1
  BodyOct = {0, 5}
INVARIANTS OutPrefix NoShortFrame NoPanic ConservedInv AllOut
PROPERTIES IncompleteConsumesNothing NoPartialFrame
CHECK_DEADLOCK FALSE
