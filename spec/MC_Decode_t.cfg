SPECIFICATION Spec
CONSTANTS
  Oct = {0, 1, 2, 255}
  MaxLen = 9
  Mand = 2
  HdrConsumed = 2
  AllocFirst = FALSE
  MaxIter = 12
INVARIANTS Bounded ShortIsError InBounds
PROPERTIES Progress Terminates
CHECK_DEADLOCK FALSE
