------------------------------ MODULE Trace_Batch ---------------------------
(* Trace validation of BatchDataCodingEncoder.Build and of the real sorter  *)
(* (through the verif export shim) against Batch.                           *)
(*   Sort   candidates with part counts -> order produced by the real sort  *)
(*   Build  request + observed environment (can / parts per candidate, from *)
(*          the single-coding entry points) -> returned coding or error     *)
EXTENDS Batch, Json, IOUtils

VARIABLES l, nviol
tvars == <<l, nviol>>
Trace == ndJsonDeserialize(IOEnv.VERIF_TRACE)
TraceInit == l = 1 /\ nviol = 0
T(c, tag) == IF c THEN {tag} ELSE {}

\* environment as functions over the valid codings of the protocol
EnvCan(e) == [c \in Valid(e.proto) |-> \E i \in 1..Len(e.env) : e.env[i].c = c /\ e.env[i].can]
EnvN(e) == [c \in Valid(e.proto) |->
              IF \E i \in 1..Len(e.env) : e.env[i].c = c
                THEN e.env[CHOOSE i \in 1..Len(e.env) : e.env[i].c = c].n ELSE 1]

Bad(e) ==
  CASE e.ev = "Sort" ->
         LET n == [c \in Valid(e.proto) |->
                     IF \E i \in 1..Len(e.cands) : e.cands[i] = c
                       THEN e.parts[CHOOSE i \in 1..Len(e.cands) : e.cands[i] = c] ELSE 1] IN
         T(\E i \in 1..(Len(e.out) - 1) : ~Less(e.proto, n, e.out[i], e.out[i + 1]), "C09.comparator")
         \cup T(Len(e.out) # Len(e.cands), "C09.comparator")
    [] e.ev = "Build" ->
         IF e.panic THEN {"C09.panic"}
         ELSE IF e.mutated THEN {"C09.request_mutated"}   \* Build wrote into the caller's candidate array
         ELSE LET exp == Expected(e.cands, e.origin, e.proto, EnvCan(e), EnvN(e), e.empty, e.ucs2can)
                  got == IF e.err THEN -1 ELSE e.coding
              IN IF got = exp THEN T(~e.err /\ e.nparts # EnvN(e)[got] /\ got \in Valid(e.proto)
                                       /\ \E i \in 1..Len(e.env) : e.env[i].c = got, "C09.parts_differ")
                 ELSE IF exp = -1 THEN {"C09.error_expected"}
                 ELSE IF got = -1 THEN {"C09.unexpected_error"}
                 ELSE IF Usable(SetOf(e.cands, e.origin, e.proto), e.proto, EnvCan(e)) = {} THEN {"C09.fallback"}
                 ELSE {"C09.cheapest"}

TraceNext ==
  \/ /\ l <= Len(Trace)
     /\ LET e == Trace[l] bad == Bad(e) IN
          /\ bad # {} => PrintT(<<"VIOL", e.t, l, bad>>)
          /\ nviol' = nviol + (IF bad # {} THEN 1 ELSE 0)
     /\ l' = l + 1
  \/ /\ l = Len(Trace) + 1 /\ PrintT(<<"DONE", Len(Trace), nviol>>) /\ l' = l + 1 /\ UNCHANGED nviol
TraceSpec == TraceInit /\ [][TraceNext]_tvars
=============================================================================
