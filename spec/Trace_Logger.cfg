SPECIFICATION TraceSpec
CONSTANTS
  Sinks = {1, 2, 3}
  LevelCmp <- Cmp
CHECK_DEADLOCK FALSE
