SPECIFICATION MSpec
CONSTANTS
  Memo = "stale"
  Proto = "CMPP"
  Codings = {0, 8, 15, 7}
  MaxOps = 4
  NVals = {1}
PROPERTY FreshAnswer
CHECK_DEADLOCK FALSE
