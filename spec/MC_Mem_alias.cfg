SPECIFICATION MSpec
CONSTANTS
  CopyOut = TRUE
  DecodeCopies = FALSE
  NPool = 2
  MaxSteps = 5
  MaxLive = 3
PROPERTY Frame
CHECK_DEADLOCK FALSE
