SPECIFICATION MSpec
CONSTANTS
  Memo = "none"
  Proto = "CMPP"
  Codings = {0, 8, 15, 7}
  MaxOps = 4
  NVals = {1, 2}
PROPERTY FreshAnswer
CHECK_DEADLOCK FALSE
