SPECIFICATION TraceSpec
CONSTANTS
  TW = 2
  LW = 2
CHECK_DEADLOCK FALSE
