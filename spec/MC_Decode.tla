------------------------------ MODULE MC_Decode -----------------------------
(* C03 on the model: a decoder = a mandatory fixed part of Mand octets     *)
(* followed by a loop over tag/length/value triplets (1-octet tag and      *)
(* length here), one action per loop iteration, with an allocation meter.  *)
(* Explored over ALL octet strings of length <= MaxLen over Oct.           *)
(*   HdrConsumed  octets of the triplet header consumed per iteration: 2   *)
(*                (0 models smgp.ReadOptions before the fix: it never      *)
(*                advances)                                                *)
(*   AllocFirst   TRUE models "allocate what the length field says, then   *)
(*                look at the input" (packet.Reader before the fix)        *)
EXTENDS Integers, Sequences, FiniteSets, TLC

CONSTANTS Oct, MaxLen, Mand, HdrConsumed, AllocFirst, MaxIter

VARIABLES input, pos, alloc, st, iters
dvars == <<input, pos, alloc, st, iters>>

Inputs == UNION { [1..n -> Oct] : n \in 0..MaxLen }

Init == input \in Inputs /\ pos = 0 /\ alloc = 0 /\ st = "start" /\ iters = 0

ReadFixed ==
  /\ st = "start"
  /\ IF Len(input) < Mand THEN st' = "err" /\ UNCHANGED <<pos, alloc>>
     ELSE st' = "loop" /\ pos' = Mand /\ alloc' = alloc + Mand
  /\ UNCHANGED <<input, iters>>

Iter ==
  /\ st = "loop" /\ iters < MaxIter
  /\ iters' = iters + 1
  /\ UNCHANGED input
  /\ IF pos = Len(input) THEN st' = "ok" /\ UNCHANGED <<pos, alloc>>
     ELSE IF Len(input) - pos < 2 THEN st' = "err" /\ UNCHANGED <<pos, alloc>>
     ELSE LET n == IF HdrConsumed = 0 THEN 0 ELSE input[pos + 2] IN
          IF AllocFirst
            THEN /\ alloc' = alloc + n
                 /\ IF Len(input) - pos - 2 < n THEN st' = "err" /\ UNCHANGED pos
                    ELSE st' = "loop" /\ pos' = pos + HdrConsumed + n
            ELSE IF Len(input) - pos - 2 < n THEN st' = "err" /\ UNCHANGED <<pos, alloc>>
                 ELSE st' = "loop" /\ pos' = pos + HdrConsumed + n /\ alloc' = alloc + n

Next == ReadFixed \/ Iter
Spec == Init /\ [][Next]_dvars /\ WF_dvars(Next)

\* time and memory proportional to the input
Bounded == alloc <= 2 * Len(input) + 4
Progress == [][(st = "loop" /\ st' = "loop") => pos' > pos]_dvars
Terminates == <>(st \in {"ok", "err"})
\* input that ends before the mandatory part is complete is an error, never success
ShortIsError == (st = "ok") => Len(input) >= Mand
InBounds == pos <= Len(input)
=============================================================================
