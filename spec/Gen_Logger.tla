------------------------------ MODULE Gen_Logger -----------------------------
(* Behaviour generator for the logger package: random walks of Logger       *)
(* (level / output / silent-mode changes, messages of both loggers in every *)
(* form, the engine error format, Builds of every outcome); each walk is    *)
(* replayed on the real package-level loggers and the recorded history is   *)
(* validated by Trace_Logger.                                               *)
EXTENDS Logger, Json, TLC

CONSTANTS GenLen
VARIABLES hist
Cmp(c, lv) == c <= lv
GTexts == { <<>>, <<97>>, <<37, 100>>, <<90, 32, 57>> }      \* "", "a", "%d", "Z 9"
NoPct(t) == \A i \in 1..Len(t) : t[i] # 37

GenInit == level = 0 /\ sink = 1 /\ silent = FALSE /\ last = <<>> /\ hist = <<>>
GenNext ==
  /\ Len(hist) < GenLen
  /\ \/ \E lv \in -1..7 : SetLevel(lv) /\ hist' = Append(hist, [a |-> "level", lv |-> lv])
     \/ \E k \in Sinks : SetOutput(k) /\ hist' = Append(hist, [a |-> "output", k |-> k])
     \/ \E b \in BOOLEAN : SetSilent(b) /\ hist' = Append(hist, [a |-> "silent", b |-> b])
     \/ \E who \in {"def", "sys"}, style \in {"plain", "f", "ctx"}, lv \in 0..5, t \in GTexts, ha \in BOOLEAN, n \in {0, 7} :
          /\ (ha => NoPct(t))
          /\ Log(who, style, lv, t, ha, n, FALSE, <<>>)
          /\ hist' = Append(hist, [a |-> "log", who |-> who, style |-> style, lv |-> lv, text |-> t, hasargs |-> ha, n |-> n])
     \/ \E who \in {"def", "sys"}, t \in {<<>>, <<97>>}, b \in {<<>>, <<98, 98>>} :
          /\ Log(who, "f", 5, t, TRUE, 0, TRUE, b)
          /\ hist' = Append(hist, [a |-> "engine", who |-> who, text |-> t, b |-> b])
     \/ \E kind \in {"ok", "invalid", "fallback", "fail", "noproto"} :
          /\ BuildLog(kind) /\ hist' = Append(hist, [a |-> "build", kind |-> kind])
GenSpec == GenInit /\ [][GenNext]_<<lvars, hist>>
Emit == (Len(hist) = GenLen) => PrintT(<<"BEH", ToJson([steps |-> hist])>>)
=============================================================================
