SPECIFICATION Spec
CONSTANTS
  Oct = {0, 1, 2, 255}
  DW = 8
  RawSlot = TRUE
INVARIANTS Survives Verifies
CHECK_DEADLOCK FALSE
