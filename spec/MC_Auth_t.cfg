SPECIFICATION Spec
CONSTANTS
  Oct = {0, 1, 2}
  DW = 4
  RawSlot = TRUE
INVARIANTS Survives Verifies
CHECK_DEADLOCK FALSE
