------------------------------ MODULE MC_Builder ----------------------------
(* All histories of setters and Builds on one builder, for every            *)
(* environment of every Build: each answer is the one the settings at that  *)
(* moment prescribe.  Memo = "stale" is the negative configuration.         *)
EXTENDS Builder

CONSTANTS Proto, Codings, MaxOps, NVals

VARIABLE k
CandSeqs == UNION { [1..j -> Codings] : j \in 0..2 }
Envs == { [can |-> c, n |-> m] : c \in [Valid(Proto) -> BOOLEAN], m \in [Valid(Proto) -> NVals] }

\* (the builder starts with a protocol and a non-empty content already set: two steps fewer to reach a Build)
MInit == /\ proto = Proto /\ empty = FALSE /\ cands = <<>> /\ origin = -1
         /\ memo = NoMemo /\ result = -2 /\ env = NoEnv /\ k = 0
MNext ==
  /\ k < MaxOps /\ k' = k + 1
  /\ \/ SetProtocol(Proto)
     \/ \E b \in BOOLEAN : SetContent(b)
     \/ \E s \in CandSeqs : SetCodings(s)
     \/ \E o \in Codings \cup {-1} : SetOrigin(o)
     \/ \E e \in Envs : Build(e.can, e.n, e.can[Ucs2])
MSpec == MInit /\ [][MNext]_<<bvars, k>>
=============================================================================
