SPECIFICATION GenSpec
CONSTANTS
  GenLen = 12
  MaxOut = 3
INVARIANTS Emit Paired
CHECK_DEADLOCK FALSE
