SPECIFICATION TraceSpec
CONSTANTS
  ResetOnRelease = TRUE
CHECK_DEADLOCK FALSE
