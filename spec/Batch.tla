-------------------------------- MODULE Batch -------------------------------
(* BatchDataCodingEncoder.Build: given candidate data codings, return the  *)
(* encoding needing the fewest parts among the candidates that can         *)
(* represent the content, ties broken by the documented priority           *)
(* (batchencoder.go: "UCS2>GSM>latin1>other", a smaller Priority() wins):   *)
(*    CMPP: 9 (UCS2 no sign), 8 (UCS2), 15 (GBK), 0 (ASCII)                 *)
(*    SMPP: 8 (UCS2), 0 (GSM7 unpacked), 3 (Latin1), 1 (ASCII), 99 (packed) *)
(* What a candidate can do (can[c], parts n[c]) is the environment: on     *)
(* traces it is observed from the single-coding entry points (C05-C07).    *)
EXTENDS Integers, Sequences, FiniteSets, TLC

PrioSeq(proto) == IF proto = "CMPP" THEN <<9, 8, 15, 0>> ELSE <<8, 0, 3, 1, 99>>
Valid(proto) == { PrioSeq(proto)[i] : i \in 1..Len(PrioSeq(proto)) }
Rank(proto, c) == CHOOSE i \in 1..Len(PrioSeq(proto)) : PrioSeq(proto)[i] = c
Ucs2 == 8

\* the comparator: fewer parts first, then the documented priority
Less(proto, n, a, b) == n[a] < n[b] \/ (n[a] = n[b] /\ Rank(proto, a) < Rank(proto, b))

\* the candidate set: the listed codings plus a valid origin coding
SetOf(cands, origin, proto) ==
  { cands[i] : i \in 1..Len(cands) } \cup (IF origin \in Valid(proto) THEN {origin} ELSE {})

Usable(set, proto, can) == { c \in set \cap Valid(proto) : can[c] }

\* the result the property prescribes: [coding |-> c] or [coding |-> -1] for an error
Expected(cands, origin, proto, can, n, contentEmpty, ucs2Can) ==
  IF contentEmpty \/ cands = <<>> THEN -1
  ELSE LET u == Usable(SetOf(cands, origin, proto), proto, can) IN
       IF u # {} THEN CHOOSE c \in u : \A d \in u \ {c} : Less(proto, n, c, d)
       ELSE IF ucs2Can THEN Ucs2 ELSE -1

\* the comparator is a strict total order on distinct codings for all part counts
StrictTotal(proto) ==
  \A na, nb \in 1..3 : \A a, b \in Valid(proto) : a # b =>
     LET n == (a :> na) @@ (b :> nb) IN Less(proto, n, a, b) # Less(proto, n, b, a)
ASSUME StrictTotal("CMPP") /\ StrictTotal("SMPP")
=============================================================================
