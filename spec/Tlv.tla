--------------------------------- MODULE Tlv --------------------------------
(* Optional-parameter containers (SMPP TLVs, SMGP options): a container is *)
(* a map tag -> value; on the wire a sequence of triplets                  *)
(* tag (TW octets) | length (LW octets, big-endian) | value.               *)
(* Abstract layer: Walk (the complete triplets reachable from offset 0),   *)
(* LastWins, NoFabrication, exactness on well-formed sequences.            *)
EXTENDS Bytes

CONSTANTS TW, LW      \* 2, 2 on the real wire; 1, 1 in the scaled model

Hdr == TW + LW
MaxValLen == (IF LW = 1 THEN 256 ELSE 65536) - 1

Trip(x) == BE(x.t, TW) \o BE(Len(x.v), LW) \o x.v

\* the complete triplets reachable by walking from offset 0; stops at the first
\* incomplete one.  Result: [xs, clean] - clean iff the walk ended exactly at the end.
RECURSIVE Walk(_)
Walk(b) ==
  IF b = <<>> THEN [xs |-> <<>>, clean |-> TRUE]
  ELSE IF Len(b) < Hdr THEN [xs |-> <<>>, clean |-> FALSE]
  ELSE LET n == BEVal(SubSeq(b, TW + 1, Hdr)) IN
       IF Len(b) < Hdr + n THEN [xs |-> <<>>, clean |-> FALSE]
       ELSE LET r == Walk(Drop(b, Hdr + n)) IN
            [xs |-> << [t |-> BEVal(Take(b, TW)), v |-> SubSeq(b, Hdr + 1, Hdr + n)] >> \o r.xs, clean |-> r.clean]

\* the same walk, giving up after `max` triplets (clean = FALSE then): enough to decide "more triplets
\* than parameters" without walking tens of thousands of mis-framed octets
RECURSIVE WalkN(_, _)
WalkN(b, max) ==
  IF b = <<>> THEN [xs |-> <<>>, clean |-> TRUE]
  ELSE IF max = 0 \/ Len(b) < Hdr THEN [xs |-> <<>>, clean |-> FALSE]
  ELSE LET n == BEVal(SubSeq(b, TW + 1, Hdr)) IN
       IF Len(b) < Hdr + n THEN [xs |-> <<>>, clean |-> FALSE]
       ELSE LET r == WalkN(Drop(b, Hdr + n), max - 1) IN
            [xs |-> << [t |-> BEVal(Take(b, TW)), v |-> SubSeq(b, Hdr + 1, Hdr + n)] >> \o r.xs, clean |-> r.clean]

SetOf(xs) == { xs[i] : i \in 1..Len(xs) }
\* a map keyed by tag: later duplicates overwrite earlier ones
LastWins(xs) == { xs[i] : i \in { k \in 1..Len(xs) : \A j \in (k + 1)..Len(xs) : xs[j].t # xs[k].t } }
Distinct(xs) == \A i, j \in 1..Len(xs) : i # j => xs[i].t # xs[j].t

\* C16, parsing side
NoFabrication(res, b) == SetOf(res) \subseteq SetOf(Walk(b).xs)
ExactOnWellFormed(res, err, b) == Walk(b).clean => (~err /\ SetOf(res) = LastWins(Walk(b).xs))

\* C16, serialising side: out is some permutation of the triplets of the set
SerialOK(set, out) ==
  LET w == WalkN(out, Len(set)) IN w.clean /\ Len(w.xs) = Len(set) /\ SetOf(w.xs) = SetOf(set)
\* a value too long for the length field: refused, or truncated consistently
\* (the emitted length field equals the emitted value, which is a prefix of the original)
LongOK(set, out) ==
  LET w == WalkN(out, Len(set)) IN
  /\ w.clean /\ Len(w.xs) <= Len(set)
  /\ \A i \in 1..Len(w.xs) : \E j \in 1..Len(set) :
        set[j].t = w.xs[i].t /\ IsPrefixOf(w.xs[i].v, set[j].v)
=============================================================================
