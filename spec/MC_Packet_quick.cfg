SPECIFICATION MCSpec
CONSTANTS
  MaxW = 2
  MaxR = 2
  Oct = {0, 1}
INVARIANTS
  TypeOK CountAgrees BufIsLog Inverse MirrorOK MirrorNeverFails MirrorEndsEmpty ObsOK PrefixedOK
PROPERTIES
  StickyW StickyR ShrinksOnly
CHECK_DEADLOCK FALSE
