SPECIFICATION MSpec
CONSTANTS
  ResetOnRelease = TRUE
  MaxSteps = 7
INVARIANTS OwnLinesOnly PoolEmpty
CHECK_DEADLOCK FALSE
