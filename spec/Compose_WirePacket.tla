------------------------- MODULE Compose_WirePacket -------------------------
(* The two layers of the specification fit (growth: composition).  An       *)
(* encoder is a sequence of packet.Writer primitives, one per field of its  *)
(* layout (numbers: WriteUintN of the octets; fixed binary and bodies:      *)
(* WriteBytes; fixed-width text: WriteFixedLenString, once per element of   *)
(* a list; C-strings: WriteCString; optional parameters: tag, length,       *)
(* value), followed by BytesWithLength; a decoder is the mirrored sequence  *)
(* of packet.Reader primitives.  For every PDU type and three sample        *)
(* assignments: the writer ends holding exactly the body Wire prescribes,   *)
(* BytesWithLength is Wire's Image, and the mirrored reads over that image  *)
(* return, field by field, the octets RefDecode returns.  What C20 proves   *)
(* about the primitives therefore carries over to the images of C01/C02.    *)
EXTENDS Packet, Layouts
W == INSTANCE Wire

CONSTANTS SampleTypes,     \* a subset of Types, or {} for all of them
          ListAsCStrings   \* FALSE: list elements are fixed-width slots (the code); TRUE: negative configuration

VARIABLES t, s, idx, phase, got
cvars == <<t, s, idx, phase, got>>

\* ---- sample assignments
Oct(s0, i) == 1 + ((s0 * 37 + i * 11) % 200)             \* never NUL
Str(s0, n) == [i \in 1..n |-> Oct(s0, i)]
Min2(a, b) == IF a < b THEN a ELSE b
FieldVal(ty, fs, i, s0) ==
  LET f == fs[i] IN
  CASE f.n = "cmd" -> W!CmdOctets(ty)
    [] f.k \in {"U", "FB", "FH"} -> [j \in 1..f.w |-> (s0 * 53 + j * 7 + i) % 256]
    [] f.k = "N" -> BE(s0 - 1, f.w)                         \* the count of the list that follows: 0, 1, 2
    [] f.k = "L" -> [j \in 1..(s0 - 1) |-> Str(s0 + j, Min2(f.w, s0 + j))]
    [] f.k = "Z" -> BE(3 * (s0 - 1), f.w)                   \* the length of the body that follows: 0, 3, 6
    [] f.k = "B" -> [j \in 1..(3 * (s0 - 1)) |-> (j * 29 + s0) % 256]
    [] f.k = "F" -> Str(s0 + i, Min2(f.w, 2 * s0 - 1))
    [] f.k = "C" -> Str(s0 + i, s0)
    [] f.k \in {"T", "O"} -> [j \in 1..(s0 - 1) |-> [t |-> 256 + j, v |-> [x \in 1..j |-> (x + s0) % 256]]]
Assign(ty, s0) == LET fs == Layout(ty) IN [n \in { fs[i].n : i \in 1..Len(fs) } |->
                     FieldVal(ty, fs, CHOOSE i \in 1..Len(fs) : fs[i].n = n, s0)]

\* ---- the primitives an encoder / a decoder uses, field by field, flattened
RECURSIVE FixedOps(_, _)
FixedOps(xs, w) == IF xs = <<>> THEN <<>> ELSE << [op |-> "F", v |-> Head(xs), n |-> w] >> \o FixedOps(Tail(xs), w)
RECURSIVE TripletOps(_)
TripletOps(xs) ==
  IF xs = <<>> THEN <<>>
  ELSE << [op |-> "U", v |-> BE(Head(xs).t, 2), n |-> 2], [op |-> "U", v |-> BE(Len(Head(xs).v), 2), n |-> 2],
          [op |-> "B", v |-> Head(xs).v, n |-> Len(Head(xs).v)] >> \o TripletOps(Tail(xs))
FieldOps(f, v) ==
  CASE f.k \in {"U", "N", "Z"} -> << [op |-> "U", v |-> v, n |-> f.w] >>
    [] f.k \in {"FB", "FH", "B"} -> << [op |-> "B", v |-> v, n |-> Len(v)] >>
    [] f.k = "F" -> << [op |-> "F", v |-> v, n |-> f.w] >>
    [] f.k = "C" -> << [op |-> "C", v |-> v, n |-> 0] >>
    [] f.k = "L" -> IF ListAsCStrings THEN [j \in 1..Len(v) |-> [op |-> "C", v |-> v[j], n |-> 0]] ELSE FixedOps(v, f.w)
    [] f.k \in {"T", "O"} -> TripletOps(v)
RECURSIVE OpsFrom(_, _, _)
OpsFrom(fs, i, p) == IF i > Len(fs) THEN <<>> ELSE FieldOps(fs[i], p[fs[i].n]) \o OpsFrom(fs, i + 1, p)
Ops(ty, s0) == OpsFrom(Layout(ty), 1, Assign(ty, s0))

\* what a mirrored read of one primitive must return: the octets written (fixed-width text: cut at the first NUL)
Expect(o) == o.v

CInit ==
  /\ Init
  /\ t \in (IF SampleTypes = {} THEN Types ELSE SampleTypes) /\ s \in 1..3
  /\ idx = 1 /\ phase = "w" /\ got = <<>>

WriteStep ==
  /\ phase = "w" /\ idx <= Len(Ops(t, s))
  /\ LET o == Ops(t, s)[idx] IN
       CASE o.op = "U" -> WU(o.v)
         [] o.op = "B" -> WBytes(o.v)
         [] o.op = "F" -> WFixed(o.v, o.n)
         [] o.op = "C" -> WCString(o.v)
  /\ idx' = idx + 1 /\ UNCHANGED <<t, s, phase, got>>
\* BytesWithLength, and the image goes to a reader
Flip ==
  /\ phase = "w" /\ idx = Len(Ops(t, s)) + 1 /\ ~werr
  /\ NewReader(IF HasHeader(t) THEN BE(Len(wbuf) + 4, 4) \o wbuf ELSE wbuf)
  /\ phase' = (IF HasHeader(t) THEN "len" ELSE "r") /\ idx' = 1 /\ UNCHANGED <<t, s, got>>
ReadLen ==
  /\ phase = "len" /\ RU(4) /\ phase' = "r" /\ UNCHANGED <<t, s, idx, got>>
ReadStep ==
  /\ phase = "r" /\ idx <= Len(Ops(t, s))
  /\ LET o == Ops(t, s)[idx] IN
       CASE o.op = "U" -> RU(o.n)
         [] o.op = "B" -> RNBytes(o.n)
         [] o.op = "F" -> RCStringN(o.n)
         [] o.op = "C" -> RCString
  /\ got' = Append(got, ret'.b)
  /\ idx' = idx + 1 /\ UNCHANGED <<t, s, phase>>
CNext == WriteStep \/ Flip \/ ReadLen \/ ReadStep
CSpec == CInit /\ [][CNext]_<<vars, cvars>>

\* the sample assignments are inside the scope of C01 / C02
SamplesWellFormed == W!WellFormed(t, Assign(t, s))
\* after the last write the writer holds the body Wire prescribes; no write was refused
BodyIsWire ==
  (phase = "w" /\ idx = Len(Ops(t, s)) + 1) => (~werr /\ wbuf = W!EncFrom(Layout(t), 1, Assign(t, s)))
\* what the reader was given is Wire's image
ImageIsWire == (phase \in {"len", "r"} /\ idx = 1 /\ got = <<>> /\ ~rerr /\ phase = "len")
                 => rin = W!Image(t, Assign(t, s))
\* every mirrored read returns what was written (ReadNBytes(0) hands out nothing), none fails, nothing is left over
ReadsInvert ==
  phase = "r" => /\ ~rerr
                 /\ \A k \in 1..Len(got) : got[k] = Ops(t, s)[k].v
                 /\ (idx = Len(Ops(t, s)) + 1 => rin = <<>>)
\* and the reference decoder reads the image back to the assignment
WireDecodes ==
  (phase = "r" /\ idx = Len(Ops(t, s)) + 1) =>
     LET d == W!RefDecode(t, W!Image(t, Assign(t, s))) IN d.ok /\ W!Eq(t, d.p, Assign(t, s))
=============================================================================
