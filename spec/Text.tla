-------------------------------- MODULE Text --------------------------------
(* Text codings as (repertoire, character -> unit sequence).  A text is a  *)
(* sequence of Unicode scalar values.  Fully specified here: ASCII, UCS-2  *)
(* as the library uses it (UTF-16BE), GSM 7-bit (from Gsm7).  Latin-1      *)
(* (the library uses Windows-1252) and GB18030 are specified structurally  *)
(* (what C05/C14 state about them), their tables are x/text's.             *)
(* Data-coding numbers: CMPP 0,8,9,15 / SMPP 0,1,3,8 and the library's 99. *)
EXTENDS Gsm7

\* kind of a protocol data-coding number
Kind(proto, n) ==
  IF proto = "cmpp" THEN
       CASE n = 0 -> "ascii" [] n = 8 -> "ucs2" [] n = 9 -> "ucs2" [] n = 15 -> "gb" [] OTHER -> "invalid"
  ELSE CASE n = 0 -> "gsm7u" [] n = 99 -> "gsm7p" [] n = 1 -> "ascii" [] n = 3 -> "latin1"
         [] n = 8 -> "ucs2" [] OTHER -> "invalid"

Ucs2Number == 8

IsScalar(c) == c \in 0..1114111 /\ ~(c \in 55296..57343)

\* units of one character (octets; septets for the GSM kinds)
Units(kind, c) ==
  CASE kind = "ascii" -> <<c>>
    [] kind = "ucs2"  -> IF c < 65536 THEN << c \div 256, c % 256 >>
                         ELSE LET v == c - 65536
                                  hi == 55296 + (v \div 1024)
                                  lo == 56320 + (v % 1024)
                              IN << hi \div 256, hi % 256, lo \div 256, lo % 256 >>
    [] kind \in {"gsm7u", "gsm7p"} -> EncChar(c)

FullySpecified(kind) == kind \in {"ascii", "ucs2", "gsm7u", "gsm7p"}

InRep(kind, c) ==
  CASE kind = "ascii" -> c < 128
    [] kind = "ucs2"  -> IsScalar(c)
    [] kind \in {"gsm7u", "gsm7p"} -> c \in Repertoire

CanRepresent(kind, text) == \A i \in 1..Len(text) : InRep(kind, text[i])

\* flatten by divide and conquer (recursion depth log n)
RECURSIVE FlatUnits(_, _, _, _)
FlatUnits(kind, text, lo, hi) ==
  IF lo > hi THEN <<>>
  ELSE IF lo = hi THEN Units(kind, text[lo])
  ELSE LET mid == (lo + hi) \div 2 IN FlatUnits(kind, text, lo, mid) \o FlatUnits(kind, text, mid + 1, hi)
UnitStream(kind, text) == FlatUnits(kind, text, 1, Len(text))

\* the octets / septets a codec must produce for a representable text
Encoded(kind, text) == IF kind = "gsm7p" THEN Pack(UnitStream(kind, text)) ELSE UnitStream(kind, text)

\* decoding a unit stream back (fully specified codings); <<-1>> marks "not decodable"
RECURSIVE DecUcs2(_)
DecUcs2(u) ==
  IF u = <<>> THEN <<>>
  ELSE IF Len(u) < 2 THEN <<-1>>
  ELSE LET w == u[1] * 256 + u[2] IN
       IF w \in 55296..56319
         THEN IF Len(u) >= 4 /\ (u[3] * 256 + u[4]) \in 56320..57343
                THEN << 65536 + (w - 55296) * 1024 + (u[3] * 256 + u[4] - 56320) >> \o DecUcs2(Drop(u, 4))
                ELSE <<-1>>
       ELSE IF w \in 56320..57343 THEN <<-1>>
       ELSE <<w>> \o DecUcs2(Drop(u, 2))

\* what decoding the encoded form may return: the text itself; for packed GSM-7 also the
\* text of an allowed unpacking (the two end-of-message ambiguities)
DecodedAllowed(kind, text) ==
  IF kind = "gsm7p"
    THEN { DecSeptets(s) : s \in { x \in UnpackAllowed(UnitStream(kind, text)) : ValidSeptets(x) } }
    ELSE { text }

\* wire data_coding numbers the protocol-level content decoders support
WireKind(proto, n) ==
  IF proto = "cmpp" THEN
       CASE n = 0 -> "ascii" [] n = 8 -> "ucs2" [] n = 9 -> "ucs2" [] n = 15 -> "gb" [] OTHER -> "invalid"
  ELSE CASE n = 0 -> "gsm7u" [] n = 1 -> "ascii" [] n = 3 -> "latin1" [] n = 8 -> "ucs2" [] OTHER -> "invalid"

\* the Windows-1252 characters above U+00FF (the only ones a single-octet coding that
\* calls itself Latin-1 could conceivably accept besides U+0000..U+00FF)
CP1252Extras == { 8364, 8218, 402, 8222, 8230, 8224, 8225, 710, 8240, 352, 8249, 338, 381,
                  8216, 8217, 8220, 8221, 8226, 8211, 8212, 732, 8482, 353, 8250, 339, 382, 376 }
Latin1MustRefuse(c) == c >= 256 /\ c \notin CP1252Extras

\* GB18030 is not required to round-trip this private-use range (x/text's table is not bijective there)
GBCarveOut(c) == c \in 57344..59492

----------------------------------------------------------------------------
(* Structural segmentation of an encoded stream into characters: the       *)
(* length of the character that starts at position p (1-based), 0 if the   *)
(* stream ends inside it.                                                  *)
CharLenAt(kind, u, p) ==
  LET left == Len(u) - p + 1 IN
  CASE kind \in {"ascii", "latin1"} -> 1
    [] kind = "ucs2" ->
         IF left < 2 THEN 0
         ELSE IF u[p] \in 216..219 THEN (IF left >= 4 /\ u[p + 2] \in 220..223 THEN 4 ELSE 0)
         ELSE IF u[p] \in 220..223 THEN 0      \* a lone low surrogate: the pair was cut
         ELSE 2
    [] kind \in {"gsm7u", "gsm7p"} ->
         IF u[p] = ESC THEN (IF left >= 2 THEN 2 ELSE 0) ELSE 1
    [] kind = "gb" ->
         IF u[p] \in 129..254
           THEN IF left < 2 THEN 0
                ELSE IF u[p + 1] \in 48..57 THEN (IF left >= 4 THEN 4 ELSE 0)
                ELSE 2
           ELSE 1

\* TRUE iff u is a whole number of characters.  Iterative over positions through a
\* reachability function so that long payloads do not need deep recursion.
WholeChars(kind, u) ==
  IF kind \in {"ascii", "latin1"} THEN TRUE
  ELSE LET n == Len(u)
           RECURSIVE Walk(_)
           Walk(p) == IF p = n + 1 THEN TRUE
                      ELSE LET k == CharLenAt(kind, u, p) IN IF k = 0 THEN FALSE ELSE Walk(p + k)
       IN Walk(1)
=============================================================================
