--------------------------------- MODULE Conc -------------------------------
(* Concurrent use of the library's shared buffer pools (C13): every        *)
(* operation Gets a pooled buffer, fills it with its own content, copies   *)
(* the content out and Puts the buffer back.  Get and Put are atomic; the  *)
(* steps of different goroutines interleave arbitrarily.  PutEarly = TRUE  *)
(* releases the buffer before the copy-out (negative configuration).       *)
EXTENDS Integers, Sequences, FiniteSets, TLC

CONSTANTS G, Ops, PutEarly     \* goroutines, operations per goroutine

VARIABLES pool, buf, nextBuf, gs
cvars == <<pool, buf, nextBuf, gs>>

\* the content operation k of goroutine g wants to produce
Want(g, k) == g * 100 + k

Init ==
  /\ pool = {} /\ buf = [b \in {} |-> 0] /\ nextBuf = 1
  /\ gs = [g \in G |-> [pc |-> "get", k |-> 1, b |-> 0, res |-> <<>>]]

Get(g) ==
  /\ gs[g].pc = "get" /\ gs[g].k <= Ops
  /\ IF pool = {}
       THEN /\ buf' = buf @@ (nextBuf :> 0) /\ nextBuf' = nextBuf + 1 /\ pool' = pool
            /\ gs' = [gs EXCEPT ![g].pc = "write", ![g].b = nextBuf]
       ELSE \E b \in pool :
            /\ pool' = pool \ {b} /\ UNCHANGED <<buf, nextBuf>>
            /\ gs' = [gs EXCEPT ![g].pc = "write", ![g].b = b]

Write(g) ==
  /\ gs[g].pc = "write"
  /\ buf' = [buf EXCEPT ![gs[g].b] = Want(g, gs[g].k)]
  /\ gs' = [gs EXCEPT ![g].pc = IF PutEarly THEN "put" ELSE "copy"]
  /\ UNCHANGED <<pool, nextBuf>>

Copy(g) ==
  /\ gs[g].pc = "copy"
  /\ gs' = [gs EXCEPT ![g].res = Append(@, buf[gs[g].b]),
                      ![g].pc = IF PutEarly THEN "get" ELSE "put",
                      ![g].k = IF PutEarly THEN @ + 1 ELSE @]
  /\ UNCHANGED <<pool, buf, nextBuf>>

Put(g) ==
  /\ gs[g].pc = "put"
  /\ pool' = pool \cup {gs[g].b}
  /\ gs' = [gs EXCEPT ![g].pc = IF PutEarly THEN "copy" ELSE "get",
                      ![g].k = IF PutEarly THEN @ ELSE @ + 1]
  /\ UNCHANGED <<buf, nextBuf>>

Next == \E g \in G : Get(g) \/ Write(g) \/ Copy(g) \/ Put(g)
Spec == Init /\ [][Next]_cvars

\* every call returns exactly what it returns when run alone
Independent == \A g \in G : \A i \in 1..Len(gs[g].res) : gs[g].res[i] = Want(g, i)
\* a pooled buffer is never held by two goroutines at once
Exclusive == \A g1, g2 \in G : (g1 # g2 /\ gs[g1].pc \in {"write", "copy"} /\ gs[g2].pc \in {"write", "copy"}
                                  /\ ~PutEarly) => gs[g1].b # gs[g2].b
=============================================================================
