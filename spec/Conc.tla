--------------------------------- MODULE Conc -------------------------------
(* Concurrent use of the library's shared state (C13), and the same state   *)
(* seen by one caller over time (history independence: C05, C08, C12).      *)
(*                                                                         *)
(* Every operation Gets a pooled scratch buffer, consults a lookup table,   *)
(* writes its own content after whatever the buffer holds, copies the       *)
(* content out and Puts the buffer back (reset).  An operation may instead  *)
(* fail half-way (a refused input) and return the buffer on its error path. *)
(* Get, Put and the table steps are atomic; the steps of different          *)
(* goroutines interleave arbitrarily.                                       *)
(*                                                                         *)
(* Switches (negative configurations set one of them the wrong way):        *)
(*   PutEarly      the buffer is released before the copy-out               *)
(*   ResetOnError  the error path resets the buffer like the success path   *)
(*   LazyInit      "static": the table exists before any call (a literal);  *)
(*                 "once":   built on first use under a once-guard;         *)
(*                 "racy":   built on first use without synchronisation     *)
EXTENDS Integers, Sequences, FiniteSets, TLC

CONSTANTS G, Ops, PutEarly, ResetOnError, LazyInit, MayFail

VARIABLES pool, buf, nextBuf, gs, table
cvars == <<pool, buf, nextBuf, gs, table>>

\* the content operation k of goroutine g wants to produce
Want(g, k) == g * 100 + k
Failed == 0        \* what a refused operation returns (an error, no content)
Garbage == -1

Init ==
  /\ pool = {} /\ buf = [b \in {} |-> <<>>] /\ nextBuf = 1
  /\ gs = [g \in G |-> [pc |-> "get", k |-> 1, b |-> 0, res |-> <<>>, blind |-> FALSE, copied |-> FALSE]]
  /\ table = IF LazyInit = "static" THEN "ready" ELSE "nil"

\* sync.Pool semantics: Get hands out some pooled buffer, or a new one at any time
GetBuf(g, b) ==
  /\ gs[g].pc = "get" /\ gs[g].k <= Ops
  /\ UNCHANGED table
  /\ IF b = nextBuf
       THEN /\ buf' = buf @@ (nextBuf :> <<>>) /\ nextBuf' = nextBuf + 1 /\ pool' = pool
       ELSE /\ b \in pool /\ pool' = pool \ {b} /\ UNCHANGED <<buf, nextBuf>>
  /\ gs' = [gs EXCEPT ![g].pc = "lookup", ![g].b = b]
Get(g) == \E b \in pool \cup {nextBuf} : GetBuf(g, b)

\* first use of the lookup table
Lookup(g) ==
  /\ gs[g].pc = "lookup"
  /\ UNCHANGED <<pool, buf, nextBuf>>
  /\ CASE table = "ready" -> /\ gs' = [gs EXCEPT ![g].pc = "write"] /\ UNCHANGED table
       [] table = "nil"   -> /\ table' = "partial" /\ gs' = [gs EXCEPT ![g].pc = "build"]
       [] table = "partial" ->
            /\ LazyInit = "racy"      \* under a once-guard the reader waits (the step is not enabled)
            /\ gs' = [gs EXCEPT ![g].pc = "write", ![g].blind = TRUE]    \* reads the half-built table
            /\ UNCHANGED table

Build(g) ==
  /\ gs[g].pc = "build"
  /\ table' = "ready" /\ gs' = [gs EXCEPT ![g].pc = "write"]
  /\ UNCHANGED <<pool, buf, nextBuf>>

\* bytes.Buffer semantics: the content goes after whatever the buffer already holds
Write(g) ==
  /\ gs[g].pc = "write"
  /\ buf' = [buf EXCEPT ![gs[g].b] = Append(@, IF gs[g].blind THEN Garbage ELSE Want(g, gs[g].k))]
  /\ gs' = [gs EXCEPT ![g].pc = "full", ![g].blind = FALSE]
  /\ UNCHANGED <<pool, nextBuf, table>>

\* a refused input: part of the content has been written, the operation returns an error and the buffer
Fail(g) ==
  /\ MayFail /\ gs[g].pc \in {"write", "full"} /\ ~gs[g].copied /\ gs[g].k % 2 = 1
  /\ buf' = [buf EXCEPT ![gs[g].b] = IF ResetOnError THEN <<>> ELSE Append(@, Garbage)]
  /\ pool' = pool \cup {gs[g].b}
  /\ gs' = [gs EXCEPT ![g].res = Append(@, Failed), ![g].pc = "get", ![g].k = @ + 1, ![g].blind = FALSE]
  /\ UNCHANGED <<nextBuf, table>>

Result(g) == IF buf[gs[g].b] = <<Want(g, gs[g].k)>> THEN Want(g, gs[g].k) ELSE Garbage

\* the content is copied out while the buffer is held
Copy(g) ==
  /\ gs[g].pc = "full" /\ ~gs[g].copied
  /\ gs' = [gs EXCEPT ![g].res = Append(@, Result(g)), ![g].copied = TRUE]
  /\ UNCHANGED <<pool, buf, nextBuf, table>>

\* Release: the buffer is reset and goes back to the pool
Put(g) ==
  /\ gs[g].pc = "full" /\ (gs[g].copied \/ PutEarly)
  /\ pool' = pool \cup {gs[g].b}
  /\ buf' = IF gs[g].copied THEN [buf EXCEPT ![gs[g].b] = <<>>] ELSE buf
  /\ gs' = IF gs[g].copied THEN [gs EXCEPT ![g].pc = "get", ![g].k = @ + 1, ![g].copied = FALSE]
                            ELSE [gs EXCEPT ![g].pc = "released"]
  /\ UNCHANGED <<nextBuf, table>>

\* (PutEarly only) the copy-out happens after the buffer has been given back
CopyLate(g) ==
  /\ gs[g].pc = "released"
  /\ gs' = [gs EXCEPT ![g].res = Append(@, Result(g)), ![g].pc = "get", ![g].k = @ + 1]
  /\ UNCHANGED <<pool, buf, nextBuf, table>>

Next == \E g \in G : Get(g) \/ Lookup(g) \/ Build(g) \/ Write(g) \/ Fail(g) \/ Copy(g) \/ Put(g) \/ CopyLate(g)
Spec == Init /\ [][Next]_cvars

\* every call returns exactly what it returns when run alone, whatever ran before it
Independent == \A g \in G : \A i \in 1..Len(gs[g].res) : gs[g].res[i] \in {Want(g, i), Failed}
\* a pooled buffer is never held by two goroutines at once
Holds(g) == gs[g].pc \in {"lookup", "build", "write", "full"}
Exclusive == \A g1, g2 \in G : (g1 # g2 /\ Holds(g1) /\ Holds(g2)) => gs[g1].b # gs[g2].b
\* ... and a held buffer is not in the pool
HeldNotPooled == \A g \in G : Holds(g) => gs[g].b \notin pool
\* a buffer in the pool is empty (what the next Get relies on)
PoolClean == \A b \in pool : buf[b] = <<>>
\* nobody reads the table while it is being built
NoBlindRead == \A g \in G : ~gs[g].blind
=============================================================================
