------------------------------- MODULE Validity -----------------------------
(* SMPP 3.4 section 7.1.1 time strings "YYMMDDhhmmsstnnp" as produced by   *)
(* smpp.ToValidatePeriod: relative form (p = "R") and absolute UTC form    *)
(* (p = "+", nn = 00).  A duration is (days, seconds of the day) so that   *)
(* 100 years fit TLC's 32-bit integers.  The unit sizes are constants so   *)
(* that the same definitions are model-checked at scaled units.            *)
EXTENDS Bytes

CONSTANTS SPM, MPH, HPD,   \* seconds per minute, minutes per hour, hours per day (60, 60, 24)
          DayCap           \* capacity of the two-digit day field (100)

SPH == SPM * MPH
SPD == SPH * HPD

D2(n) == << 48 + ((n \div 10) % 10), 48 + (n % 10) >>

\* relative form: representable iff fewer than DayCap days (months and years are not fixed durations)
RelString(days, sec) ==
  <<48,48,48,48>> \o D2(days) \o D2(sec \div SPH) \o D2((sec % SPH) \div SPM) \o D2(sec % SPM) \o <<48,48,48,82>>

\* what the relative string denotes, in (days, seconds)
DigitsVal(s) == (s[1] - 48) * 10 + (s[2] - 48)
DenoteRel(str) ==
  << DigitsVal(SubSeq(str, 5, 6)),
     DigitsVal(SubSeq(str, 7, 8)) * SPH + DigitsVal(SubSeq(str, 9, 10)) * SPM + DigitsVal(SubSeq(str, 11, 12)) >>

----------------------------------------------------------------------------
(* Civil calendar: day number 0 = 2000-01-01 (proleptic Gregorian).        *)
LeapYear(y) == (y % 4 = 0 /\ y % 100 # 0) \/ y % 400 = 0
DaysInYear(y) == IF LeapYear(y) THEN 366 ELSE 365
DaysInMonth(y, m) ==
  CASE m \in {1, 3, 5, 7, 8, 10, 12} -> 31
    [] m \in {4, 6, 9, 11} -> 30
    [] m = 2 -> IF LeapYear(y) THEN 29 ELSE 28

RECURSIVE YearOf(_, _)
YearOf(z, y) == IF z < DaysInYear(y) THEN << y, z >> ELSE YearOf(z - DaysInYear(y), y + 1)
RECURSIVE MonthOf(_, _, _)
MonthOf(y, m, z) == IF z < DaysInMonth(y, m) THEN << m, z + 1 >> ELSE MonthOf(y, m + 1, z - DaysInMonth(y, m))

\* <<year, month, day>> of day number z >= 0
Civil(z) == LET yz == YearOf(z, 2000) md == MonthOf(yz[1], 1, yz[2]) IN << yz[1], md[1], md[2] >>

AbsString(day, sec) ==
  LET c == Civil(day) IN
  D2(c[1] % 100) \o D2(c[2]) \o D2(c[3]) \o D2(sec \div SPH) \o D2((sec % SPH) \div SPM) \o D2(sec % SPM) \o <<48,48,48,43>>

ASSUME Civil(0) = <<2000, 1, 1>> /\ Civil(59) = <<2000, 2, 29>> /\ Civil(60) = <<2000, 3, 1>>
ASSUME Civil(365) = <<2000, 12, 31>> /\ Civil(366) = <<2001, 1, 1>>
ASSUME Civil(36524) = <<2099, 12, 31>> /\ Civil(36525) = <<2100, 1, 1>>
ASSUME Civil(36525 + 58) = <<2100, 2, 28>> /\ Civil(36525 + 59) = <<2100, 3, 1>>
ASSUME Civil(9131) = <<2024, 12, 31>> /\ Civil(8826) = <<2024, 3, 1>>
=============================================================================
