SPECIFICATION Spec
CONSTANTS
  Keys = {2, 3, 4, 6}
  ColonInFallback = TRUE
INVARIANTS OrderIndependent SmppToo
CHECK_DEADLOCK FALSE
