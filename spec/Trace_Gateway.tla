---------------------------- MODULE Trace_Gateway ---------------------------
(* Trace validation of an end-to-end run assembled from the real library:   *)
(* split -> one submit PDU per part -> encode -> byte stream in arbitrary   *)
(* chunks -> frame extractor -> dispatcher -> decode -> GenEmptyResponse -> *)
(* ParseLongSmsContent -> reassembly -> content decoder.  Every event is    *)
(* an action of Gateway; the texts travel beside the model (texts[m]).      *)
EXTENDS Gateway, Json, IOUtils

VARIABLES l, dead, nviol, texts
tvars == <<l, dead, nviol, texts>>
Trace == ndJsonDeserialize(IOEnv.VERIF_TRACE)
TraceInit == Init /\ l = 1 /\ dead = TRUE /\ nviol = 0 /\ texts = [m \in {} |-> 0]
T(c, tag) == IF c THEN {tag} ELSE {}

Act(e) ==
  CASE e.ev = "GSubmit" -> Submit(e.m, e.nparts, e.ref)
    [] e.ev = "GSend"   -> Send(e.m, e.i)
    [] e.ev = "GResend" -> Resend(e.oldsid)
    [] e.ev = "GRecv"   -> GwRecv
    [] e.ev = "GAck"    -> SpAck

Bad(e) ==
  CASE e.ev = "GSubmit" -> {}
    [] e.ev = "GSend"   -> T(e.sid # nextSid, "C10.gateway.driver_sid")
    [] e.ev = "GResend" -> T(e.sid # nextSid, "C10.gateway.driver_sid")
    [] e.ev = "GRecv" ->
         LET p == Head(wire) n == sub[p.m].n IN
         T(e.sid # p.sid, "C04.gateway.frame_order")
         \cup T(e.rsid # p.sid \/ ~e.rok, "C10.gateway.response")
         \cup T(e.valid # (n > 1), "C07.gateway.header")
         \cup T(n > 1 /\ e.valid /\ (e.key # sub[p.m].ref \/ e.total # n \/ e.index # p.i), "C07.gateway.header")
         \cup (IF Len(delivered') > Len(delivered)
                 THEN T(e.deliv = <<-1>> \/ e.deliv # texts[delivered'[Len(delivered')].parts[1][1]], "C06.gateway.delivered_text")
                 ELSE T(e.deliv # <<-1>>, "C06.gateway.unexpected_delivery"))
    [] e.ev = "GAck" -> T(e.sid # Head(back) \/ e.sid \notin DOMAIN outst, "C10.gateway.ack")

Enabled(e) ==
  CASE e.ev = "GSubmit" -> e.m \notin DOMAIN sub
    [] e.ev = "GSend"   -> <<e.m, e.i>> \in unsent
    [] e.ev = "GResend" -> e.oldsid \in DOMAIN outst
    [] e.ev = "GRecv"   -> wire # <<>>
    [] e.ev = "GAck"    -> back # <<>>

Reset ==
  /\ Trace[l].ev = "Start"
  /\ sub' = [m \in {} |-> 0] /\ unsent' = {} /\ wire' = <<>> /\ back' = <<>> /\ outst' = [s \in {} |-> 0]
  /\ nextSid' = 1 /\ asm' = [r \in {} |-> 0] /\ delivered' = <<>> /\ resent' = 0
  /\ texts' = [m \in {} |-> 0] /\ dead' = FALSE /\ UNCHANGED nviol

Live ==
  /\ Trace[l].ev # "Start" /\ ~dead
  /\ LET e == Trace[l] IN
     IF ~Enabled(e)
       THEN /\ PrintT(<<"VIOL", e.t, l, {"C10.gateway.not_a_step"}>>)
            /\ dead' = TRUE /\ nviol' = nviol + 1 /\ UNCHANGED <<gvars, texts>>
       ELSE /\ Act(e)
            /\ texts' = IF e.ev = "GSubmit" THEN (e.m :> e.text) @@ texts ELSE texts
            /\ LET bad == Bad(e) IN
                 /\ bad # {} => PrintT(<<"VIOL", e.t, l, bad>>)
                 /\ dead' = (bad # {})
                 /\ nviol' = nviol + (IF bad # {} THEN 1 ELSE 0)

Skip == Trace[l].ev # "Start" /\ dead /\ UNCHANGED <<gvars, dead, nviol, texts>>

TraceNext ==
  \/ /\ l <= Len(Trace) /\ (Reset \/ Live \/ Skip) /\ l' = l + 1
  \/ /\ l = Len(Trace) + 1 /\ PrintT(<<"DONE", Len(Trace), nviol>>) /\ l' = l + 1
     /\ UNCHANGED <<gvars, dead, nviol, texts>>
TraceSpec == TraceInit /\ [][TraceNext]_<<gvars, tvars>>
TraceInv == dead \/ (Unmixed /\ Paired)
=============================================================================
