SPECIFICATION MCSpec
CONSTANTS
  W <- MCW
  SW <- MCSW
  DW <- MCDW
INVARIANTS SplitIsSpec RoundTrip StrRoundTrip
PROPERTIES Identity
CHECK_DEADLOCK FALSE
