SPECIFICATION Spec
CONSTANTS
  G = {1, 2}
  Ops = 2
  PutEarly = FALSE
  ResetOnError = TRUE
  LazyInit = "once"
  MayFail = TRUE
  MaxBuf = 8
INVARIANT PInd
PROPERTY Refines
CHECK_DEADLOCK FALSE
