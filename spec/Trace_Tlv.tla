------------------------------ MODULE Trace_Tlv -----------------------------
(* Trace validation of smpp TLV / TLVs and smgp Option / Options against   *)
(* Tlv at the real widths (2-octet tag, 2-octet length).                   *)
EXTENDS Tlv, Json, IOUtils, TLC

VARIABLES l, nviol
tvars == <<l, nviol>>
Trace == ndJsonDeserialize(IOEnv.VERIF_TRACE)
TraceInit == l = 1 /\ nviol = 0
T(c, tag) == IF c THEN {tag} ELSE {}

Long(set) == \E i \in 1..Len(set) : Len(set[i].v) > 65531

Bad(e) ==
  CASE e.ev = "Ser" ->
         IF e.panic THEN {"C16.serialize.panic"}
         ELSE IF Long(e.set) THEN T(~LongOK(e.set, e.out), "C16.longvalue")
         ELSE T(Distinct(e.set) /\ ~SerialOK(e.set, e.out), "C16.serialize")
              \cup T(e.len >= 0 /\ e.len # Len(e.out), "C16.len")
    [] e.ev = "Parse" ->
         IF e.panic THEN {"C16.parse.panic"}
         ELSE IF e.hang THEN {"C16.parse.hang"}
         ELSE T(~NoFabrication(e.res, e.in), "C16.fabricated")
              \cup T(Walk(e.in).clean /\ (e.err \/ SetOf(e.res) # LastWins(Walk(e.in).xs)), "C16.parse")
    [] e.ev = "Add" -> T(~e.present, "C16.add_lost")
    [] e.ev = "Acc" ->
         IF e.panic THEN {"C16.accessor.panic"}
         ELSE T(e.out # (IF Len(e.v) >= 1 THEN e.v[1] ELSE 0), "C16.accessor")

TraceNext ==
  \/ /\ l <= Len(Trace)
     /\ LET e == Trace[l] bad == Bad(e) IN
          /\ bad # {} => PrintT(<<"VIOL", e.t, l, bad>>)
          /\ nviol' = nviol + (IF bad # {} THEN 1 ELSE 0)
     /\ l' = l + 1
  \/ /\ l = Len(Trace) + 1 /\ PrintT(<<"DONE", Len(Trace), nviol>>) /\ l' = l + 1 /\ UNCHANGED nviol
TraceSpec == TraceInit /\ [][TraceNext]_tvars
=============================================================================
