SPECIFICATION MCSpec
CONSTANTS
  MaxItems = 3
  CutBinary = FALSE
INVARIANTS AssignmentsWellFormed PrefixIsLength RoundTrip TruncationsRefused
CHECK_DEADLOCK FALSE
