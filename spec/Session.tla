------------------------------- MODULE Session ------------------------------
(* A connection at the PDU level: requests with sequence identifiers,      *)
(* generated responses, dispatch by command id (C10).  Commands and        *)
(* sequence identifiers are octet sequences (32-bit values); the SGIP      *)
(* sequence identifier is all three header words (12 octets).              *)
EXTENDS Bytes, Layouts, TLC

\* the response bit: command id + 2^31
RespCmd(c) == << c[1] + 128, c[2], c[3], c[4] >>
IsReqCmd(c) == c[1] < 128

\* header offsets per package: command id at octets 5..8; sequence identifier after it
CmdOf(bytes) == SubSeq(bytes, 5, 8)
SeqOf(pkg, bytes) ==
  CASE pkg = "smpp34" -> SubSeq(bytes, 13, 16)
    [] pkg = "sgip12" -> SubSeq(bytes, 9, 20)
    [] OTHER          -> SubSeq(bytes, 9, 12)
HdrLen(pkg) == CASE pkg = "smpp34" -> 16 [] pkg = "sgip12" -> 20 [] OTHER -> 12

\* the command ids under which a type travels (SMPP bind: three flavours)
CmdsOf(t) ==
  IF t = "smpp34.Bind" THEN BindCmds
  ELSE IF t = "smpp34.BindResp" THEN { RespCmd(c) : c \in BindCmds }
  ELSE { CmdOctets(t) }

PkgTypes(pkg) == { t \in Types : Pkg(t) = pkg /\ HasHeader(t) }
\* what the dispatcher of a package must answer for a command id
Dispatch(pkg, cmd) ==
  IF \E t \in PkgTypes(pkg) : cmd \in CmdsOf(t)
    THEN CHOOSE t \in PkgTypes(pkg) : cmd \in CmdsOf(t)
    ELSE "unsupported"

\* request/response pairs never share a command id; responses differ by exactly the response bit
TablesOK ==
  /\ \A t \in Types : RespType(t) # "" =>
        /\ HasHeader(t) /\ Pkg(RespType(t)) = Pkg(t)
        /\ CmdsOf(RespType(t)) = { RespCmd(c) : c \in CmdsOf(t) }
  /\ \A pkg \in {"cmpp20", "cmpp30", "sgip12", "smgp30", "smpp34"} :
        \A t1, t2 \in PkgTypes(pkg) : t1 # t2 => CmdsOf(t1) \cap CmdsOf(t2) = {}

----------------------------------------------------------------------------
(* The session state machine: the client keeps the set of outstanding      *)
(* requests; a response must match exactly one of them.                    *)
VARIABLES outstanding,   \* set of [cmd, sid] sent and not yet answered
          c2s, s2c       \* messages in flight: sets of [cmd, sid]

svars == <<outstanding, c2s, s2c>>

SInit == outstanding = {} /\ c2s = {} /\ s2c = {}

Send(cmd, sid) ==
  /\ outstanding' = outstanding \cup {[cmd |-> cmd, sid |-> sid]}
  /\ c2s' = c2s \cup {[cmd |-> cmd, sid |-> sid]}
  /\ UNCHANGED s2c

\* the server answers request m with response command rc and sequence identifier rs
Reply(m, rc, rs) ==
  /\ m \in c2s
  /\ c2s' = c2s \ {m}
  /\ s2c' = s2c \cup {[cmd |-> rc, sid |-> rs]}
  /\ UNCHANGED outstanding

Matches(o, r) == r.cmd = RespCmd(o.cmd) /\ r.sid = o.sid
ClientRecv(r) ==
  /\ r \in s2c
  /\ s2c' = s2c \ {r}
  /\ outstanding' = outstanding \ { o \in outstanding : Matches(o, r) }
  /\ UNCHANGED c2s

\* every response in flight matches exactly one outstanding request
Paired == \A r \in s2c : Cardinality({ o \in outstanding : Matches(o, r) }) = 1
=============================================================================
