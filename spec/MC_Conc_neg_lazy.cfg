SPECIFICATION Spec
CONSTANTS
  G = {1, 2}
  Ops = 1
  PutEarly = FALSE
  ResetOnError = TRUE
  LazyInit = "racy"
  MayFail = TRUE
INVARIANTS Independent Exclusive HeldNotPooled PoolClean NoBlindRead
CHECK_DEADLOCK FALSE
