----------------------------- MODULE MC_Session -----------------------------
(* All interleavings of at most MaxOut outstanding requests over the       *)
(* request command ids of every package and boundary sequence identifiers. *)
(* The library model answers honestly (response bit set on the request's   *)
(* command, sequence identifier copied); BindFixed = TRUE models the bind  *)
(* response fixed to "transceiver" (the code before the fix): negative.    *)
EXTENDS Session

CONSTANTS MaxOut, BindFixed

ReqCmds == UNION { CmdsOf(t) : t \in { x \in Types : RespType(x) # "" } }
Sids == { <<0, 0, 0, 0>>, <<0, 0, 0, 1>>, <<255, 255, 255, 255>> }

LibResp(m) == IF BindFixed /\ m.cmd \in BindCmds THEN <<128, 0, 0, 9>> ELSE RespCmd(m.cmd)

MCNext ==
  \/ \E c \in ReqCmds, s \in Sids :
        /\ Cardinality(outstanding) < MaxOut
        /\ [cmd |-> c, sid |-> s] \notin outstanding      \* a client does not reuse an outstanding identifier
        /\ Send(c, s)
  \/ \E m \in c2s : Reply(m, LibResp(m), m.sid)
  \/ \E r \in s2c : ClientRecv(r)
MCSpec == SInit /\ [][MCNext]_svars

ASSUME TablesOK
\* no request stays unanswered forever in the model: when nothing is in flight nothing is outstanding
Quiescent == (c2s = {} /\ s2c = {}) => outstanding = {}
=============================================================================
