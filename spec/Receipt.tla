------------------------------- MODULE Receipt ------------------------------
(* Delivery-receipt texts (SMPP 3.4 Appendix B; SMGP 3.0 status report):   *)
(* "key:value" pairs joined by single spaces, in any order, any subset.    *)
(* Strings are sequences of octets.  Keys are numbered 1..8:               *)
(*   id, sub, dlvrd, submit date, done date, stat, err, text               *)
(* SMGP also spells them Sub, Dlvrd, Submit_Date, Done_Date, Stat, Err,    *)
(* Text (spelling 2); each SMGP value is cut to its field width and the id *)
(* is the hex form of the ten octets after "id:".                          *)
EXTENDS Bytes

Str(s) == s     \* octet sequences are written as tuples of character codes below

Key1 == << <<105,100>>, <<115,117,98>>, <<100,108,118,114,100>>,
           <<115,117,98,109,105,116,32,100,97,116,101>>, <<100,111,110,101,32,100,97,116,101>>,
           <<115,116,97,116>>, <<101,114,114>>, <<116,101,120,116>> >>
Key2 == << <<105,100>>, <<83,117,98>>, <<68,108,118,114,100>>,
           <<83,117,98,109,105,116,95,68,97,116,101>>, <<68,111,110,101,95,68,97,116,101>>,
           <<83,116,97,116>>, <<69,114,114>>, <<84,101,120,116>> >>
SmgpWidth == << 10, 3, 3, 10, 10, 7, 3, 20 >>

KeyOf(k, sp) == IF sp = 2 THEN Key2[k] ELSE Key1[k]

\* a pair is <<key number, spelling, value>>
RECURSIVE Render(_)
Render(pairs) ==
  IF pairs = <<>> THEN <<>>
  ELSE LET p == Head(pairs) one == KeyOf(p[1], p[2]) \o <<58>> \o p[3] IN
       IF Len(pairs) = 1 THEN one ELSE one \o <<32>> \o Render(Tail(pairs))

\* what extraction must return for key k: the value of the pair that carries k, "" if absent
Present(pairs, k) == \E i \in 1..Len(pairs) : pairs[i][1] = k
ValueOf(pairs, k) == pairs[CHOOSE i \in 1..Len(pairs) : pairs[i][1] = k][3]

HexDigit(n) == IF n < 10 THEN 48 + n ELSE 87 + n
RECURSIVE Hex(_)
Hex(b) == IF b = <<>> THEN <<>> ELSE << HexDigit(Head(b) \div 16), HexDigit(Head(b) % 16) >> \o Hex(Tail(b))

ExpectedSmpp(pairs, k) == IF Present(pairs, k) THEN ValueOf(pairs, k) ELSE <<>>
ExpectedSmgp(pairs, k) ==
  IF ~Present(pairs, k) THEN <<>>
  ELSE IF k = 1 THEN (IF Len(ValueOf(pairs, 1)) >= 10 THEN Hex(Take(ValueOf(pairs, 1), 10)) ELSE <<>>)
  ELSE Take(ValueOf(pairs, k), SmgpWidth[k])

----------------------------------------------------------------------------
(* Implementation-shaped layer: first occurrence of "key:" in the text,    *)
(* value up to the next space.  ColonInFallback = FALSE models the SMGP    *)
(* lookup before the fix (alternative spelling searched without its colon, *)
(* offset taken from the primary key).                                     *)
FindSub(s, pat) ==
  LET ok == { i \in 1..(Len(s) - Len(pat) + 1) : SubSeq(s, i, i + Len(pat) - 1) = pat } IN
  IF ok = {} THEN 0 ELSE CHOOSE i \in ok : \A j \in ok : i <= j

UpToSpace(s, start) ==
  LET rest == Drop(s, start - 1) sp == IndexOf(rest, 32) IN IF sp = 0 THEN rest ELSE Take(rest, sp - 1)

ImplSmpp(s, k) ==
  LET pat == Key1[k] \o <<58>> i == FindSub(s, pat) IN IF i = 0 THEN <<>> ELSE UpToSpace(s, i + Len(pat))

ImplSmgp(s, k, colonInFallback) ==
  IF k = 1 THEN
    LET i == FindSub(s, <<105,100,58>>) IN
    IF i = 0 \/ Len(s) < i + 3 + 10 - 1 THEN <<>> ELSE Hex(SubSeq(s, i + 3, i + 12))
  ELSE
    LET pat1 == Key1[k] \o <<58>>
        i1 == FindSub(s, pat1)
        pat2 == IF colonInFallback THEN Key2[k] \o <<58>> ELSE Key2[k]
        i2 == FindSub(s, pat2)
        start == IF i1 > 0 THEN i1 + Len(pat1) ELSE IF i2 > 0 THEN i2 + Len(pat1) ELSE 0
    IN IF start = 0 THEN <<>>
       ELSE IF start > Len(s) + 1 THEN <<"panic">>
       ELSE Take(UpToSpace(s, start), SmgpWidth[k])
=============================================================================
