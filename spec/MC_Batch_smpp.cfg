SPECIFICATION Spec
CONSTANTS
  Proto = "SMPP"
  MaxCands = 2
  Codings = {0, 1, 3, 8, 99, 7}
  TiePrio = FALSE
INVARIANT Correct
CHECK_DEADLOCK FALSE
