--------------------------------- MODULE Auth -------------------------------
(* Login handshake (CMPP 2.0/3.0 CONNECT, SMGP 3.0 Login): the client      *)
(* builds an authenticator, it travels through a fixed 16-octet slot, the  *)
(* server recomputes and compares, answers with its own authenticator, the *)
(* client verifies.  Digest is a parameter: MD5 (MD5.tla) on traces, an    *)
(* abstract function in the scaled model.                                  *)
(*   CMPP:  AuthenticatorSource = MD5(Source_Addr + 9 octets 0 + secret + timestamp)  *)
(*          AuthenticatorISMG   = MD5(Status + AuthenticatorSource + secret)          *)
(*   SMGP:  AuthenticatorClient = MD5(ClientID + 7 octets 0 + secret + timestamp)     *)
(*          AuthenticatorServer = MD5(Status + AuthenticatorClient + secret)          *)
(* timestamp = the 10 decimal digits MMDDHHMMSS, zero padded on the left.  *)
EXTENDS Bytes

ZeroPad(proto) == IF proto = "smgp30" THEN 7 ELSE 9
StatusWidth(proto) == IF proto = "cmpp20" THEN 1 ELSE 4

RECURSIVE P10(_)
P10(n) == IF n = 0 THEN 1 ELSE 10 * P10(n - 1)
Dec10(ts) == [i \in 1..10 |-> 48 + ((ts \div P10(10 - i)) % 10)]

ReqInput(proto, account, secret, ts) == account \o Zeros(ZeroPad(proto)) \o secret \o Dec10(ts)
RespInput(status, reqAuth, secret) == status \o reqAuth \o secret

\* how a 16-octet slot is read back: raw, or as a C-string (what the library did)
ReadSlot(slot, raw) == IF raw THEN slot ELSE CutAtNul(slot)
=============================================================================
