SPECIFICATION Spec
CONSTANTS
  Msgs = {1, 2, 3}
  MaxParts = 3
  Refs = {7, 8}
  SameRef = FALSE
  Echo = TRUE
  MaxResend = 1
INVARIANTS Unmixed AtMostOnce Paired
CHECK_DEADLOCK FALSE
