------------------------------ MODULE MC_Split ------------------------------
(* The splitting loops of longsms.go as step machines (one action per loop *)
(* iteration), checked against the abstract relation of C06/C07/C14 at     *)
(* scaled capacities for ALL texts of at most MaxChars characters.         *)
(*   Algo = "greedy"    the whole-character greedy reference               *)
(*          "generic"   splitWithUDHI: fixed-width cut, coding-agnostic    *)
(*          "packedOld" encodeAndSplitGSM7Packed as written before the fix *)
(*                      (precomputed ceil(n/Per) iterations)               *)
(*          "packedNew" the repaired loop (runs until the input is used up)*)
(* A character is 1 unit, or 2 units whose first is an escape indicator.   *)
EXTENDS Integers, Sequences, FiniteSets, TLC

CONSTANTS MaxChars, CharKinds, Per, Max, Algo

VARIABLES text, u, begin, end, idx, cnt, res, done
svars == <<text, u, begin, end, idx, cnt, res, done>>

Unit(c, esc) == [c |-> c, e |-> esc]
UnitsOf(t) ==
  LET RECURSIVE F(_)
      F(i) == IF i > Len(t) THEN <<>>
              ELSE (IF t[i] = 1 THEN <<Unit(i, FALSE)>> ELSE <<Unit(i, TRUE), Unit(i, FALSE)>>) \o F(i + 1)
  IN F(1)

Ceil(a, b) == (a + b - 1) \div b
Min(a, b) == IF a < b THEN a ELSE b
Texts == UNION { [1..n -> CharKinds] : n \in 0..MaxChars }

Init ==
  /\ text \in Texts
  /\ u = UnitsOf(text)
  /\ Len(u) > Max                      \* only texts that need more than one part
  /\ begin = 0 /\ end = Per /\ idx = 0
  /\ cnt = Ceil(Len(u), Per)
  /\ res = <<>> /\ done = FALSE

Chunk(a, b) == SubSeq(u, a + 1, b)

\* whole-character filling from position a
RECURSIVE Fill(_, _)
Fill(a, used) ==
  IF a >= Len(u) THEN a
  ELSE LET k == IF u[a + 1].e THEN 2 ELSE 1 IN
       IF used + k > Per THEN a ELSE Fill(a + k, used + k)

IterGreedy ==
  IF begin >= Len(u) THEN done' = TRUE /\ cnt' = Len(res) /\ UNCHANGED <<text, u, begin, end, idx, res>>
  ELSE LET e == Fill(begin, 0) IN
       /\ res' = Append(res, Chunk(begin, e)) /\ begin' = e
       /\ UNCHANGED <<text, u, end, idx, cnt, done>>

IterGeneric ==
  IF idx >= cnt THEN done' = TRUE /\ UNCHANGED <<text, u, begin, end, idx, cnt, res>>
  ELSE LET b == idx * Per e == Min((idx + 1) * Per, Len(u)) IN
       /\ res' = IF b = e THEN res ELSE Append(res, Chunk(b, e))
       /\ idx' = idx + 1
       /\ UNCHANGED <<text, u, begin, end, cnt, done>>

IterPackedOld ==
  IF idx >= cnt THEN done' = TRUE /\ UNCHANGED <<text, u, begin, end, idx, cnt, res>>
  ELSE LET e1 == Min(end, Len(u)) IN
       IF begin >= e1
         THEN idx' = idx + 1 /\ UNCHANGED <<text, u, begin, end, cnt, res, done>>
         ELSE LET e2 == IF idx # cnt - 1 /\ u[e1].e THEN e1 - 1 ELSE e1 IN
              /\ res' = Append(res, Chunk(begin, e2))
              /\ begin' = e2 /\ end' = e2 + Per /\ idx' = idx + 1
              /\ UNCHANGED <<text, u, cnt, done>>

IterPackedNew ==
  IF begin >= Len(u) THEN done' = TRUE /\ cnt' = Len(res) /\ UNCHANGED <<text, u, begin, end, idx, res>>
  ELSE LET e0 == begin + Per
           e2 == IF e0 >= Len(u) THEN Len(u) ELSE IF u[e0].e THEN e0 - 1 ELSE e0 IN
       /\ res' = Append(res, Chunk(begin, e2)) /\ begin' = e2
       /\ UNCHANGED <<text, u, end, idx, cnt, done>>

Next ==
  /\ ~done
  /\ CASE Algo = "greedy"    -> IterGreedy
       [] Algo = "generic"   -> IterGeneric
       [] Algo = "packedOld" -> IterPackedOld
       [] Algo = "packedNew" -> IterPackedNew
Spec == Init /\ [][Next]_svars /\ WF_svars(Next)

RECURSIVE Cat(_)
Cat(r) == IF r = <<>> THEN <<>> ELSE Head(r) \o Cat(Tail(r))

RECURSIVE GreedyN(_)
GreedyN(a) == IF a >= Len(u) THEN 0 ELSE 1 + GreedyN(Fill(a, 0))

Preserves == done => Cat(res) = u
TotalOK   == done => cnt = Len(res)                      \* the announced total is the number of parts
SizeOK    == \A i \in 1..Len(res) : Len(res[i]) > 0 /\ Len(res[i]) <= Per
WholeOK   == \A i \in 1..Len(res) : ~res[i][Len(res[i])].e   \* no part ends on an escape indicator
MinimalOK == done => Len(res) <= GreedyN(0)
\* every loop iteration makes progress (termination)
Terminates == <>done
=============================================================================
