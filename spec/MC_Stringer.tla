----------------------------- MODULE MC_Stringer ----------------------------
(* Every history of at most MaxSteps steps of stringers that follow one     *)
(* another (New, writes, String - also twice -, Release): what String()     *)
(* returns begins with exactly one header, holds the lines written to THIS  *)
(* stringer in order, and nothing of an earlier one.  "Release does not     *)
(* empty the builder" is the negative configuration.                        *)
EXTENDS Stringer, TLC

CONSTANTS MaxSteps
VARIABLES steps, mine   \* mine: the lines written to the live stringer (history variable)
mvars == <<steps, mine>>

Vals == { <<>>, <<97>> }
MInit == SInit /\ steps = 0 /\ mine = <<>>
MNext ==
  /\ steps < MaxSteps /\ steps' = steps + 1
  /\ \/ New /\ mine' = <<>>
     \/ \E v \in Vals, wb \in BOOLEAN : Write("s", <<102>>, v, wb) /\ mine' = mine \o Line("s", <<102>>, v, wb) \o NL
     \/ \E n \in {-7, 0, 12} : Write("n", <<102>>, n, FALSE) /\ mine' = mine \o Line("n", <<102>>, n, FALSE) \o NL
     \/ \E v \in Vals : Omit(<<102>>, v) /\ mine' = (IF v = <<>> THEN mine ELSE mine \o Line("s", <<102>>, v, FALSE) \o NL)
     \/ Str /\ mine' = mine \o EndMark
     \/ Release /\ mine' = <<>>
MSpec == MInit /\ [][MNext]_<<svars, mvars>>

\* the builder of the live stringer holds the header and its own lines, nothing else
OwnLinesOnly == live => buf = Header \o mine
\* builders in the pool are empty
PoolEmpty == \A i \in 1..Len(pool) : pool[i] = <<>>
=============================================================================
