-------------------------------- MODULE Split -------------------------------
(* Long-SMS splitting (longsms.go): what C06, C07 and C14 demand of the    *)
(* parts produced for a text, stated on the unit stream of the text under  *)
(* the reported coding (abstract layer), plus the concatenation header     *)
(* (UDH) construction and parsing.  The abstract layer says nothing about  *)
(* HOW the parts are cut: any split satisfying it is accepted.             *)
(* The implementation-shaped loops live in MC_Split.                       *)
EXTENDS Text

CONSTANTS MaxOct, PerOct,   \* 140, 134: single-SMS limit / per-part payload, octet codings
          MaxSep, PerSep,   \* 160, 153: the same in septets for GSM 7-bit
          MaxParts          \* 255: the counters are octets

IsGsm(kind) == kind \in {"gsm7u", "gsm7p"}
MaxOf(kind) == IF IsGsm(kind) THEN MaxSep ELSE MaxOct
PerOf(kind) == IF IsGsm(kind) THEN PerSep ELSE PerOct

Hdr(ref, total, seq) == <<5, 0, 3, ref, total, seq>>

----------------------------------------------------------------------------
(* Greedy whole-character reference: fill each part as far as whole        *)
(* characters allow.  u is the unit stream (a whole number of characters). *)

\* end position (units consumed) of the part that starts after `pos` units
RECURSIVE FillFrom(_, _, _, _, _)
FillFrom(kind, u, pos, used, per) ==
  IF pos >= Len(u) THEN pos
  ELSE LET k == CharLenAt(kind, u, pos + 1) IN
       IF k = 0 \/ used + k > per THEN pos ELSE FillFrom(kind, u, pos + k, used + k, per)

RECURSIVE GreedyFrom(_, _, _, _)
GreedyFrom(kind, u, pos, per) ==
  IF pos >= Len(u) THEN 0
  ELSE LET e == FillFrom(kind, u, pos, 0, per) IN
       IF e = pos THEN 1 ELSE 1 + GreedyFrom(kind, u, e, per)     \* e = pos: malformed stream, stop

\* number of parts of the greedy reference (1 if the text fits a single SMS)
GreedyCount(kind, u) == IF Len(u) <= MaxOf(kind) THEN 1 ELSE GreedyFrom(kind, u, 0, PerOf(kind))

----------------------------------------------------------------------------
(* Judging a produced list of parts.                                       *)

Single(parts) == Len(parts) = 1
Payload(parts, i) == Drop(parts[i], 6)

HeadersOK(parts, ref) ==
  \A i \in 1..Len(parts) : Len(parts[i]) >= 6 /\ Take(parts[i], 6) = Hdr(ref, Len(parts), i)

\* octet codings (and unpacked GSM-7, one septet per octet): payloads concatenate to u
RECURSIVE OffsetOf(_, _)
OffsetOf(parts, i) == IF i = 1 THEN 0 ELSE OffsetOf(parts, i - 1) + Len(parts[i - 1]) - 6

PreservesOct(parts, u) ==
  /\ OffsetOf(parts, Len(parts) + 1) = Len(u)
  /\ \A i \in 1..Len(parts) :
       LET off == OffsetOf(parts, i) n == Len(parts[i]) - 6 IN
         n >= 0 /\ off + n <= Len(u) /\ Payload(parts, i) = SubSeq(u, off + 1, off + n)

\* packed GSM-7: a reference unpacker that is told the septet count.  The count of a
\* part of m octets is floor(8m/7), or one less when that also packs into m octets;
\* Tiles holds iff some choice of counts makes the parts tile the septet stream s.
SeptetCounts(m) == { n \in {(8 * m) \div 7, ((8 * m) \div 7) - 1} : n >= 0 /\ PackedLen(n) = m }

ChunkOK(mode, c, n) ==
  CASE mode = "any"   -> TRUE
    [] mode = "size"  -> n > 0 /\ n <= PerSep
    [] mode = "whole" -> WholeChars("gsm7u", c)
    [] mode = "all"   -> n > 0 /\ n <= PerSep /\ WholeChars("gsm7u", c)

RECURSIVE Tiles(_, _, _, _, _)
Tiles(s, parts, i, pos, mode) ==
  IF i > Len(parts) THEN pos = Len(s)
  ELSE \E n \in SeptetCounts(Len(parts[i]) - 6) :
         /\ pos + n <= Len(s)
         /\ LET chunk == SubSeq(s, pos + 1, pos + n) IN
              /\ Pack(chunk) = Payload(parts, i)
              /\ ChunkOK(mode, chunk, n)
         /\ Tiles(s, parts, i + 1, pos + n, mode)

PreservesPacked(parts, s) == Tiles(s, parts, 1, 0, "any")

\* how far a tiling gets (for classifying a failure): longest prefix of s the first parts cover
RECURSIVE TiledPrefix(_, _, _, _)
TiledPrefix(s, parts, i, pos) ==
  IF i > Len(parts) THEN pos
  ELSE LET ns == { n \in SeptetCounts(Len(parts[i]) - 6) :
                     pos + n <= Len(s) /\ Pack(SubSeq(s, pos + 1, pos + n)) = Payload(parts, i) } IN
       IF ns = {} THEN -1
       ELSE LET n == CHOOSE x \in ns : \A y \in ns : x >= y IN TiledPrefix(s, parts, i + 1, pos + n)


----------------------------------------------------------------------------
(* ParseUDH: the 6-octet (8-bit reference) and 7-octet (16-bit reference)  *)
(* concatenation headers; anything else is "not concatenated".             *)
ParseUDH(s) ==
  IF Len(s) >= 6 /\ s[1] = 5 /\ s[2] = 0 /\ s[3] = 3
    THEN [valid |-> TRUE, key |-> s[4], total |-> s[5], index |-> s[6], rest |-> Drop(s, 6)]
  ELSE IF Len(s) >= 7 /\ s[1] = 6 /\ s[2] = 8 /\ s[3] = 4
    THEN [valid |-> TRUE, key |-> 256 * s[4] + s[5], total |-> s[6], index |-> s[7], rest |-> Drop(s, 7)]
  ELSE [valid |-> FALSE, key |-> 0, total |-> 0, index |-> 0, rest |-> s]
=============================================================================
