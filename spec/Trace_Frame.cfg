SPECIFICATION TraceSpec
CONSTANTS
  LowerBound = TRUE
  Remember = FALSE
INVARIANT TraceInv
CHECK_DEADLOCK FALSE
