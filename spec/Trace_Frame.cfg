SPECIFICATION TraceSpec
CONSTANT LowerBound = TRUE
INVARIANT TraceInv
CHECK_DEADLOCK FALSE
