------------------------------- MODULE Builder ------------------------------
(* BatchDataCodingEncoder as an object that lives across requests: the      *)
(* setters (Protocol, Content, DataCodings, OriginDataCoding) and Build.    *)
(* Build answers from the CURRENT settings only - whatever was set, built   *)
(* or answered before (C09: "the result is a function of the request").     *)
(* What a candidate can do with the current content is the environment of   *)
(* a Build step (can, n, ucs2Can), as in Batch.                             *)
(*                                                                         *)
(* Memo models a candidate set remembered between Builds:                   *)
(*   "none"   nothing is remembered (what the code does)                    *)
(*   "sound"  remembered, forgotten by every setter that feeds it           *)
(*   "stale"  remembered, NOT forgotten by OriginDataCoding (negative)      *)
EXTENDS Batch

CONSTANTS Memo

VARIABLES proto, empty, cands, origin, memo, result, env
bvars == <<proto, empty, cands, origin, memo, result, env>>

NoMemo == {-2}          \* "nothing remembered" (no set of codings contains -2)
NoEnv == [can |-> <<>>, n |-> <<>>, ucs2 |-> FALSE]

BInit ==
  /\ proto = "" /\ empty = TRUE /\ cands = <<>> /\ origin = -1
  /\ memo = NoMemo /\ result = -2 /\ env = NoEnv

SetProtocol(p) == proto' = p /\ memo' = NoMemo /\ UNCHANGED <<empty, cands, origin, result, env>>
SetContent(isEmpty) == empty' = isEmpty /\ UNCHANGED <<proto, cands, origin, memo, result, env>>
SetCodings(s) == cands' = s /\ memo' = NoMemo /\ UNCHANGED <<proto, empty, origin, result, env>>
SetOrigin(o) ==
  /\ origin' = o
  /\ memo' = IF Memo = "stale" THEN memo ELSE NoMemo
  /\ UNCHANGED <<proto, empty, cands, result, env>>

\* the coding Build returns (-1: an error) for a candidate set
ResultFor(set, can, n, ucs2Can) ==
  IF empty \/ cands = <<>> \/ proto = "" THEN -1
  ELSE LET u == Usable(set, proto, can) IN
       IF u # {} THEN CHOOSE c \in u : \A d \in u \ {c} : Less(proto, n, c, d)
       ELSE IF ucs2Can THEN Ucs2 ELSE -1

Build(can, n, ucs2Can) ==
  LET set == IF Memo # "none" /\ memo # NoMemo THEN memo ELSE SetOf(cands, origin, proto) IN
  /\ result' = ResultFor(set, can, n, ucs2Can)
  /\ memo' = IF Memo = "none" THEN NoMemo ELSE set
  /\ env' = [can |-> can, n |-> n, ucs2 |-> ucs2Can]
  /\ UNCHANGED <<proto, empty, cands, origin>>

\* C09 on the object: the last answer is what the current settings prescribe
AnswersCurrentRequest ==
  result # -2 /\ env # NoEnv /\ proto # "" =>
    \* (settings may have changed since the last Build: the claim is about the state right after Build, see FreshAnswer)
    TRUE
FreshAnswer == [][ (result' # result \/ env' # env) =>
                   result' = (IF proto' = "" THEN -1
                              ELSE Expected(cands', origin', proto', env'.can, env'.n, empty', env'.ucs2)) ]_bvars
=============================================================================
