----------------------------- MODULE MC_Container ---------------------------
(* All histories of Put on a container over small tags and values; the      *)
(* serialiser is modelled as "the triplets of the content in some order"    *)
(* (Order = "any") or, negative, "every Put appends a triplet" (a container *)
(* that keeps replaced values: Order = "append").                           *)
EXTENDS Container

CONSTANTS Tags, Vals, MaxOps, Order

VARIABLES k, log
MCVals == {<<>>, <<0>>, <<7, 9>>}
Perms(S) == { f \in [1..Cardinality(S) -> S] : \A i, j \in 1..Cardinality(S) : i # j => f[i] # f[j] }
RECURSIVE Cat(_)
Cat(xs) == IF xs = <<>> THEN <<>> ELSE Trip(Head(xs)) \o Cat(Tail(xs))
Serialisations ==
  IF Order = "append" THEN { Cat(log) }
  ELSE { Cat([i \in 1..Cardinality(Pairs) |-> p[i]]) : p \in Perms(Pairs) }

MInit == CInit /\ k = 0 /\ log = <<>>
MNext == /\ k < MaxOps /\ k' = k + 1
         /\ \E t \in Tags, v \in Vals : Put(t, v) /\ log' = Append(log, [t |-> t, v |-> v])
MSpec == MInit /\ [][MNext]_<<cvars, k, log>>
\* every serialisation of the content reads back as the content
Lossless == \A b \in Serialisations : IsSerialisation(b) /\ LastWins(Walk(b).xs) = Pairs
=============================================================================
