SPECIFICATION Spec
CONSTANTS
  Msgs = {1, 2}
  MaxParts = 2
  Refs = {7}
  SameRef = TRUE
  Echo = TRUE
  MaxResend = 0
INVARIANTS Unmixed AtMostOnce Paired
CHECK_DEADLOCK FALSE
