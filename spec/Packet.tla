------------------------------- MODULE Packet -------------------------------
(* packet.Writer / packet.Reader of go-sms-protocol as a state machine.    *)
(* One action per public primitive.  The writer has a sticky first error,  *)
(* a byte counter and a buffer; the reader has the unread input and a      *)
(* sticky first error.  `ret` is the value returned by the last primitive  *)
(* (an observation variable), `wlog` the history of successful writes      *)
(* (used to state "each write primitive is inverted by the matching read").*)
(*                                                                         *)
(* The machine is deterministic (implementation-shaped).  Where the        *)
(* property is silent the machine does what the code does, and the trace   *)
(* specification does not compare that part of the state:                  *)
(*   - Written() after an error has been recorded (wcnt is frozen here);    *)
(*   - how much input a *failing* read consumes (drained here) and which   *)
(*     zero-padded prefix of the unread input a failing ReadBytes hands    *)
(*     back (PartialOut is what the property allows).                      *)
EXTENDS Bytes, TLC

VARIABLES
  wbuf,   \* octets written so far (writer)
  wcnt,   \* Written(): meaningful while werr = FALSE
  werr,   \* writer: an error is recorded
  wlog,   \* history: sequence of [k, v, n] of successful writes
  rin,    \* reader: octets not yet consumed (meaningful while rerr = FALSE)
  rerr,   \* reader: an error is recorded
  ret     \* what the last operation returned

wvars == <<wbuf, wcnt, werr, wlog>>
rvars == <<rin, rerr>>
vars  == <<wbuf, wcnt, werr, wlog, rin, rerr, ret>>

R(k, b, n, e) == [k |-> k, b |-> b, n |-> n, e |-> e]
None == R("none", <<>>, 0, FALSE)
Val(b) == R("val", b, 0, FALSE)

Init ==
  /\ wbuf = <<>> /\ wcnt = 0 /\ werr = FALSE /\ wlog = <<>>
  /\ rin = <<>> /\ rerr = FALSE
  /\ ret = None

----------------------------------------------------------------------------
(* Writer                                                                  *)

\* shared shape: append `octs` if no error is recorded, otherwise add nothing
WAppend(kind, arg, n, octs) ==
  /\ UNCHANGED rvars
  /\ ret' = None
  /\ IF werr
       THEN UNCHANGED wvars
       ELSE /\ wbuf' = wbuf \o octs
            /\ wcnt' = wcnt + Len(octs)
            /\ wlog' = Append(wlog, [k |-> kind, v |-> arg, n |-> n])
            /\ UNCHANGED werr

\* WriteUint8/16/32/64: v is the big-endian octet sequence of the value
WU(v)       == WAppend("U", v, Len(v), v)
WBytes(b)   == WAppend("B", b, Len(b), b)
WString(s)  == WAppend("S", s, Len(s), s)
WCString(s) == WAppend("C", s, Len(s) + 1, s \o <<0>>)

\* WriteFixedLenString(s, n): fails iff s does not fit, else NUL-pads to n
WFixed(s, n) ==
  IF ~werr /\ Len(s) > n
    THEN /\ werr' = TRUE
         /\ UNCHANGED <<wbuf, wcnt, wlog, rin, rerr>>
         /\ ret' = None
    ELSE WAppend("F", s, n, PadTo(s, n))

\* observers (state unchanged); an error hides the buffer
OBytes     == /\ ret' = IF werr THEN R("obs", <<>>, 0, TRUE) ELSE R("obs", wbuf, 0, FALSE)
              /\ UNCHANGED <<wvars, rvars>>
OBytesLen  == /\ ret' = IF werr THEN R("obsl", <<>>, 0, TRUE)
                                ELSE R("obsl", BE(Len(wbuf) + 4, 4) \o wbuf, 0, FALSE)
              /\ UNCHANGED <<wvars, rvars>>
OLen       == /\ ret' = R("int", <<>>, IF werr THEN 0 ELSE Len(wbuf), FALSE)
              /\ UNCHANGED <<wvars, rvars>>

----------------------------------------------------------------------------
(* Reader                                                                  *)

NewReader(input) ==
  /\ rin' = input /\ rerr' = FALSE /\ ret' = None
  /\ UNCHANGED wvars

\* what a failing ReadBytes(n) may hand back under the property: a zero-padded
\* prefix of the unread input, never octets it does not have
PartialOut(n) == { Take(rin, k) \o Zeros(n - k) : k \in 0..Min(Len(rin), n) }

\* shared shape of the fixed-size reads; `post` maps the n octets to the result,
\* `zero` is the zero value, `failout` what the implementation hands back on
\* failure.  A failing read drains the input (io.ReadFull / Buffer.Read do).
RFixedSize(n, post(_), zero, failout) ==
  /\ UNCHANGED wvars
  /\ IF rerr
       THEN /\ ret' = Val(zero) /\ UNCHANGED rvars
       ELSE IF n <= 0
         THEN /\ ret' = Val(zero) /\ UNCHANGED rvars
         ELSE IF Len(rin) >= n
           THEN /\ ret' = Val(post(Take(rin, n)))
                /\ rin' = Drop(rin, n)
                /\ UNCHANGED rerr
           ELSE /\ rerr' = TRUE
                /\ rin' = <<>>
                /\ ret' = Val(failout)

Id(x) == x

\* ReadUint8/16/32/64 (k = 1,2,4,8): big-endian octets of the value, zero on failure
RU(k) == RFixedSize(k, Id, Zeros(k), Zeros(k))
\* ReadBytes(receiver) with len(receiver) = n; receiver starts zeroed
RBytes(n) == RFixedSize(n, Id, Zeros(Max(n, 0)), rin \o Zeros(n - Len(rin)))
\* ReadNBytes(n): nil on failure
RNBytes(n) == RFixedSize(n, Id, <<>>, <<>>)
\* ReadCStringN(n): n octets, cut at the first NUL
RCStringN(n) == RFixedSize(n, CutAtNul, <<>>, <<>>)
\* ReadCStringNWithoutTrim(n)
RCStringNNoTrim(n) == RFixedSize(n, Id, <<>>, <<>>)

\* ReadCString: up to and including the first NUL
RCString ==
  /\ UNCHANGED wvars
  /\ IF rerr
       THEN /\ ret' = Val(<<>>) /\ UNCHANGED rvars
       ELSE LET i == IndexOf(rin, 0) IN
            IF i > 0
              THEN /\ ret' = Val(Take(rin, i - 1)) /\ rin' = Drop(rin, i) /\ UNCHANGED rerr
              ELSE /\ rerr' = TRUE /\ rin' = <<>> /\ ret' = Val(<<>>)

ORemaining == /\ ret' = R("int", <<>>, IF rerr THEN -1 ELSE Len(rin), FALSE)   \* -1: unconstrained after an error
              /\ UNCHANGED <<wvars, rvars>>
ORBytes    == /\ ret' = R("robs", IF rerr THEN <<>> ELSE rin, 0, FALSE)
              /\ UNCHANGED <<wvars, rvars>>

----------------------------------------------------------------------------
(* Properties (checked by TLC on MC_Packet; evaluated on every recorded    *)
(* step of the real code by Trace_Packet).                                 *)

\* the writer's byte count agrees with the bytes actually written
CountAgrees == ~werr => wcnt = Len(wbuf)

\* the buffer is exactly the concatenation of the images of the logged writes
Image(w) == CASE w.k = "C" -> w.v \o <<0>>
              [] w.k = "F" -> PadTo(w.v, w.n)
              [] OTHER     -> w.v
RECURSIVE Images(_)
Images(l) == IF l = <<>> THEN <<>> ELSE Image(Head(l)) \o Images(Tail(l))
BufIsLog == wbuf = Images(wlog)

\* sticky errors, as action properties
StickyW == [][werr => (werr' /\ wbuf' = wbuf /\ wlog' = wlog)]_vars
StickyR == [][rerr => rerr']_vars

\* a reader never hands back octets it does not have: the unread input only shrinks
\* from the front while no error is recorded
ShrinksOnly == [][(~rerr /\ ~rerr' /\ rin' # rin /\ UNCHANGED wvars /\ ret'.k = "val")
                    => \E k \in 1..Len(rin) : rin' = Drop(rin, k)]_vars

TypeOK ==
  /\ AllOctets(wbuf) /\ wcnt \in Nat /\ werr \in BOOLEAN
  /\ AllOctets(rin) /\ rerr \in BOOLEAN

(* Inverse: reading back the image of a logged write with the matching     *)
(* primitive returns the written value (C-string forms: NUL-free values).   *)
ReadBack(w, img) ==
  CASE w.k = "C" -> Take(img, IndexOf(img, 0) - 1)
    [] w.k = "F" -> CutAtNul(img)
    [] OTHER     -> img
\* mirrored reads stay aligned only while no written C-string contains a NUL
CleanUpTo(i) == \A j \in 1..i : ~(wlog[j].k = "C" /\ HasNul(wlog[j].v))
InverseOf(w) == (w.k \in {"C", "F"} /\ HasNul(w.v)) \/ ReadBack(w, Image(w)) = w.v
Inverse == \A i \in 1..Len(wlog) : InverseOf(wlog[i])
=============================================================================
