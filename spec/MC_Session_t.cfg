SPECIFICATION MCSpec
CONSTANTS
  MaxOut = 3
  BindFixed = FALSE
INVARIANTS Paired Quiescent
CHECK_DEADLOCK FALSE
