SPECIFICATION MCSpec
CONSTANTS
  MaxOut = 5
  BindFixed = FALSE
INVARIANTS Paired Quiescent
CHECK_DEADLOCK FALSE
