---------------------------- MODULE Trace_Receipt ---------------------------
(* Trace validation of smpp34.ExtractDeliveryReceipt and                   *)
(* smgp30.ExtractDeliveryReceipt on receipts rendered from (key, value)    *)
(* pairs in any order and subset.  TLC checks the rendering against Render *)
(* and every returned field against what the receipt carries.              *)
EXTENDS Receipt, Json, IOUtils, TLC

VARIABLES l, nviol
tvars == <<l, nviol>>
Trace == ndJsonDeserialize(IOEnv.VERIF_TRACE)
TraceInit == l = 1 /\ nviol = 0
T(c, tag) == IF c THEN {tag} ELSE {}

Pairs(e) == [i \in 1..Len(e.pairs) |-> << e.pairs[i].k, e.pairs[i].sp, e.pairs[i].v >>]

Bad(e) ==
  IF e.panic THEN {"C18.panic"}
  ELSE IF e.text # Render(Pairs(e)) THEN {"C18.driver.render"}
  ELSE IF e.variant = "smpp"
    THEN T(\E k \in 1..8 : e.out[k] # ExpectedSmpp(Pairs(e), k), "C18.smpp.field")
    ELSE T(e.out[1] # ExpectedSmgp(Pairs(e), 1), "C18.smgp.id")
         \cup T(\E k \in 2..8 : e.out[k] # ExpectedSmgp(Pairs(e), k), "C18.smgp.field")

TraceNext ==
  \/ /\ l <= Len(Trace)
     /\ LET e == Trace[l] bad == Bad(e) IN
          /\ bad # {} => PrintT(<<"VIOL", e.t, l, bad>>)
          /\ nviol' = nviol + (IF bad # {} THEN 1 ELSE 0)
     /\ l' = l + 1
  \/ /\ l = Len(Trace) + 1 /\ PrintT(<<"DONE", Len(Trace), nviol>>) /\ l' = l + 1 /\ UNCHANGED nviol
TraceSpec == TraceInit /\ [][TraceNext]_tvars
=============================================================================
