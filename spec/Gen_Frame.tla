------------------------------- MODULE Gen_Frame -----------------------------
(* Behaviour generator for the spec -> code direction of C04: random walks   *)
(* of Frame (tlc -simulate) over small frame lists; the arrival schedule the *)
(* walk chose (chunk sizes) and the calls it made are recorded in `hist` and *)
(* replayed on the real codecs over the scripted ConnReader.                 *)
EXTENDS Frame, Json

CONSTANTS GenLen, BodyOct, MaxBody, MaxFrames

VARIABLES hist, init
gvars == <<hist, init>>

Bodies == UNION { [1..n -> BodyOct] : n \in 0..MaxBody }
Frames == { BE(4 + Len(b), 4) \o b : b \in Bodies }
FrameLists == UNION { [1..n -> Frames] : n \in 0..MaxFrames }
Truncs == { Take(f, k) : f \in Frames, k \in 0..(MaxBody + 3) } \ Frames
Malformed == { BE(p, 4) \o t : p \in 0..3, t \in {<<>>, <<4>>, <<0, 0>>} }

Step(a, k) == [a |-> a, k |-> k]

GenInit ==
  \E fl \in FrameLists, tail \in Truncs \cup Malformed, f \in {"eof", "err"} :
     /\ FrameInit(fl, tail, f)
     /\ init = [sent |-> fl, stream |-> Concat(fl) \o tail, fault |-> f]
     /\ hist = <<>>

\* a blocking read pulls exactly one further chunk when the buffer does not hold the frame yet;
\* the chunk may bring up to all remaining octets
BlockedStep ==
  LET avail == buf \o stream
      ok == Len(avail) >= 4 /\ PLen(Take(avail, 4)) >= 4 /\ Len(avail) >= PLen(Take(avail, 4))
      n == IF Len(avail) >= 4 THEN PLen(Take(avail, 4)) ELSE 0
  IN IF ~ok THEN /\ DecodeBlocked(0) /\ hist' = Append(hist, Step("B", Len(stream)))
     ELSE IF Len(buf) >= n THEN /\ DecodeBlocked(Len(buf) - n) /\ hist' = Append(hist, Step("B", 0))
     ELSE \E j \in 0..(Len(avail) - n) :
            /\ DecodeBlocked(j) /\ hist' = Append(hist, Step("B", n - Len(buf) + j))

GenNext ==
  /\ Len(hist) < GenLen /\ res.k \notin {"err", "panic"}
  /\ \/ \E k \in 1..Len(stream) : Arrive(k) /\ hist' = Append(hist, Step("A", k))
     \/ Decode /\ hist' = Append(hist, Step("D", 0))
     \/ BlockedStep
  /\ UNCHANGED init
GenSpec == GenInit /\ [][GenNext]_<<vars, gvars>>

Emit == (Len(hist) = GenLen \/ (Len(hist) > 0 /\ res.k \in {"err", "panic"}))
          => PrintT(<<"BEH", ToJson([init |-> init, steps |-> hist])>>)
=============================================================================
