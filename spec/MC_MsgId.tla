------------------------------ MODULE MC_MsgId ------------------------------
(* Exhaustive check of the Msg_Id algebra at scaled widths: every id and   *)
(* every in-range field tuple.  The implementation-shaped layer is the     *)
(* shift/mask arithmetic of cmpp/msgid.go with its own shift table SW      *)
(* (negative configuration: a field one bit short).                        *)
EXTENDS MsgId, TLC

CONSTANT SW   \* widths the shift/mask implementation uses

MCW == <<2,2,2,2,2,3,3>>
MCDW == <<1,1,1,1,1,1,1>>
MCSW == MCW
MCSWneg == <<2,2,2,1,2,3,3>>     \* minute field one bit short
RealW == <<4,5,5,6,6,22,16>>
RealDW == <<2,2,2,2,2,7,5>>

VARIABLES id, f, phase
mvars == <<id, f, phase>>

AllIds == [1..TotalBits -> {0, 1}]

\* implementation-shaped: msgID = ((..(f1 << w2) + f2) << w3 ...), split by >> and mask
RECURSIVE ImplCombine(_, _, _)
ImplCombine(ff, i, acc) == IF i > NF THEN acc ELSE ImplCombine(ff, i + 1, acc * Pow2(SW[i]) + ff[i])
RECURSIVE SOff(_)
SOff(i) == IF i = NF THEN 0 ELSE SOff(i + 1) + SW[i + 1]
ImplSplit(v) == [i \in 1..NF |-> (v \div Pow2(SOff(i))) % Pow2(SW[i])]

MCInit == id \in AllIds /\ f = <<>> /\ phase = "id"
MCNext ==
  \/ /\ phase = "id" /\ f' = ImplSplit(BitVal(id)) /\ phase' = "split" /\ UNCHANGED id
  \/ /\ phase = "split" /\ id' = Bits(ImplCombine(f, 1, 0), TotalBits) /\ phase' = "combined" /\ UNCHANGED f
MCSpec == MCInit /\ [][MCNext]_mvars

\* splitting any id gives the fields the specification says it carries
SplitIsSpec == phase = "split" => f = Split(id)
\* and composing them again is the identity; the composed id is the specified layout
RoundTrip == phase = "combined" => (id = Compose(f) /\ Split(id) = f /\ InRange(f))
StrRoundTrip == phase = "split" => (Len(StrOf(id)) = DOff(NF) + DW[NF] /\ ParseStr(StrOf(id)) = f)
\* identity must also hold as an action property: the id after combine is the id before split
Identity == [][phase = "split" => id' = id]_mvars
=============================================================================
