------------------------------ MODULE MC_Gsm7 -------------------------------
(* State machine: septets are pushed one at a time into the streaming      *)
(* packer (accumulator + bit count), the implementation-shaped layer 2.    *)
(* After every push TLC checks that the streamed output equals the         *)
(* bit-stream definition, that unpacking with the count is the identity    *)
(* and that the block-of-eight unpacker returns an allowed answer.  The    *)
(* tables are checked by ASSUME.                                           *)
EXTENDS Gsm7, TLC

CONSTANTS Alpha, MaxLen, MidGuard

VARIABLES s, acc, nb, outp
gvars == <<s, acc, nb, outp>>

FullAlpha == 0..127
GInit == s = <<>> /\ acc = 0 /\ nb = 0 /\ outp = <<>>

\* push one septet: add it above the nb pending bits, emit an octet when 8 are available
Push(x) ==
  /\ Len(s) < MaxLen
  /\ s' = Append(s, x)
  /\ LET a == acc + x * P2(nb) n == nb + 7 IN
       IF n >= 8 THEN /\ outp' = Append(outp, a % 256) /\ acc' = a \div 256 /\ nb' = n - 8
                 ELSE /\ outp' = outp /\ acc' = a /\ nb' = n
GNext == \E x \in Alpha : Push(x)
GSpec == GInit /\ [][GNext]_gvars

Flushed == IF nb > 0 THEN Append(outp, acc) ELSE outp

StreamIsDef == Flushed = PackRaw(s)
FastIsDef == PackFast(s) = PackRaw(s)
LenOK == Len(Pack(s)) = PackedLen(Len(s))
RoundTripN == UnpackN(Pack(s), Len(s)) = s
FillIsCR == (Len(s) % 8 = 7) => UnpackN(Pack(s), Len(s) + 1)[Len(s) + 1] = CR
ImplAllowed == ImplUnpack(Pack(s), MidGuard) \in UnpackAllowed(s)

\* the tables of TS 23.038 are mutually inverse; the escape is not a character
ASSUME Len(Default) = 128 /\ Default[ESC + 1] = -1
ASSUME \A i, j \in 1..128 : (i # j) => Default[i] # Default[j]
ASSUME Cardinality(Ext) = 10 /\ Cardinality(ExtChars) = 10 /\ Cardinality(ExtCodes) = 10
ASSUME DefaultChars \cap ExtChars = {}
ASSUME Cardinality(Repertoire) = 137
ASSUME \A c \in Repertoire : ValidSeptets(EncChar(c)) /\ DecSeptets(EncChar(c)) = <<c>>
ASSUME \A x \in (0..127) \ {ESC} : EncChar(Default[x + 1]) = <<x>>
ASSUME \A p \in Ext : EncChar(p[2]) = <<ESC, p[1]>> /\ Default[p[1] + 1] # -1
=============================================================================
