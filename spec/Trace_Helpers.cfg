SPECIFICATION TraceSpec
CHECK_DEADLOCK FALSE
