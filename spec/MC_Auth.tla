-------------------------------- MODULE MC_Auth -----------------------------
(* The handshake as a state machine with the digest abstracted: every      *)
(* digest value (DW octets over Oct) is possible for some credentials, so  *)
(* the environment chooses it.  RawSlot = FALSE reads the slot as a        *)
(* C-string: the negative configuration (a digest containing 0x00).        *)
EXTENDS Auth, TLC

CONSTANTS Oct, DW, RawSlot

VARIABLES phase, reqAuth, srvAuth, srvOk, respAuth, cliResp, cliOk, status
avars == <<phase, reqAuth, srvAuth, srvOk, respAuth, cliResp, cliOk, status>>

Digests == [1..DW -> Oct]
\* the response digest is a function of (status, request authenticator as the server holds it)
RespDigest(st, a) == IF a = <<>> THEN [i \in 1..DW |-> st] ELSE [i \in 1..DW |-> (a[1] + st + i) % 3]

Init == phase = "idle" /\ reqAuth = <<>> /\ srvAuth = <<>> /\ srvOk = FALSE /\ respAuth = <<>>
        /\ cliResp = <<>> /\ cliOk = FALSE /\ status = 0

ClientBuild == phase = "idle" /\ reqAuth' \in Digests /\ phase' = "sent"
               /\ UNCHANGED <<srvAuth, srvOk, respAuth, cliResp, cliOk, status>>
\* encode into the slot (padded), transmit, decode
ServerDecode == phase = "sent" /\ srvAuth' = ReadSlot(PadTo(reqAuth, DW), RawSlot) /\ phase' = "decoded"
               /\ UNCHANGED <<reqAuth, srvOk, respAuth, cliResp, cliOk, status>>
\* the server recomputes the digest from the same credentials (= reqAuth) and compares
ServerVerify == phase = "decoded" /\ srvOk' = (srvAuth = reqAuth) /\ phase' = "verified"
               /\ UNCHANGED <<reqAuth, srvAuth, respAuth, cliResp, cliOk, status>>
ServerReply == phase = "verified" /\ status' \in {0, 2} /\ respAuth' = RespDigest(status', srvAuth) /\ phase' = "replied"
               /\ UNCHANGED <<reqAuth, srvAuth, srvOk, cliResp, cliOk>>
ClientDecode == phase = "replied" /\ cliResp' = ReadSlot(PadTo(respAuth, DW), RawSlot) /\ phase' = "cdecoded"
               /\ UNCHANGED <<reqAuth, srvAuth, srvOk, respAuth, cliOk, status>>
\* the client recomputes from the authenticator it sent
ClientVerify == phase = "cdecoded" /\ cliOk' = (cliResp = RespDigest(status, reqAuth)) /\ phase' = "done"
               /\ UNCHANGED <<reqAuth, srvAuth, srvOk, respAuth, cliResp, status>>

Next == ClientBuild \/ ServerDecode \/ ServerVerify \/ ServerReply \/ ClientDecode \/ ClientVerify
Spec == Init /\ [][Next]_avars

Survives == (phase \in {"decoded", "verified", "replied", "cdecoded", "done"} => srvAuth = reqAuth)
            /\ (phase \in {"cdecoded", "done"} => cliResp = respAuth)
Verifies == (phase \in {"verified", "replied", "cdecoded", "done"} => srvOk) /\ (phase = "done" => cliOk)
=============================================================================
