------------------------------ MODULE MC_Logger -----------------------------
(* Every history of at most MaxSteps configuration and logging steps over  *)
(* two outputs: a line goes to the output that is current WHEN it is       *)
(* written, carries the marker of its own level, and is there exactly when *)
(* the level lets it through and it is not muted.                          *)
EXTENDS Logger, TLC

CONSTANTS MaxSteps
VARIABLES steps, req     \* req: the request of the last step (history variable for the properties)
mvars == <<steps, req>>

Cmp(c, lv) == c <= lv
CmpNeg(c, lv) == c < lv      \* negative configuration: a message AT the configured level is dropped

Texts == { <<>>, <<97>> }
NoReq == [op |-> "none"]

MInit == LInit /\ steps = 0 /\ req = NoReq
MNext ==
  /\ steps < MaxSteps /\ steps' = steps + 1
  /\ \/ \E lv \in -1..7 : SetLevel(lv) /\ req' = NoReq
     \/ \E k \in Sinks : SetOutput(k) /\ req' = NoReq
     \/ \E b \in BOOLEAN : SetSilent(b) /\ req' = NoReq
     \/ \E who \in {"def", "sys"}, style \in {"plain", "f", "ctx"}, lv \in 0..5, t \in Texts, ha \in BOOLEAN :
          /\ Log(who, style, lv, t, ha, 3, FALSE, <<>>)
          /\ req' = [op |-> "log", lv |-> lv, muted |-> FALSE]
     \/ \E who \in {"def", "sys"}, t \in Texts :
          /\ Log(who, "f", 5, t, TRUE, 0, TRUE, <<98>>)
          /\ req' = [op |-> "log", lv |-> 5, muted |-> (who = "sys" /\ silent)]
     \/ \E kind \in {"ok", "invalid", "fallback", "fail", "noproto"} : BuildLog(kind) /\ req' = [op |-> "build", kind |-> kind]
MSpec == MInit /\ [][MNext]_<<lvars, mvars>>

IsPrefix(p, s) == Len(p) <= Len(s) /\ SubSeq(s, 1, Len(p)) = p

\* at most one line per logging call, to the current output, with the marker of the call's level
OneLineToCurrent ==
  req.op = "log" => /\ Len(last) <= 1
                    /\ \A i \in 1..Len(last) : last[i].sink = sink /\ IsPrefix(Marker(req.lv), last[i].line)
\* written iff the level admits it and it is not muted
WrittenIff == req.op = "log" => ((Len(last) = 1) <=> (level <= req.lv /\ ~req.muted))
\* configuration steps and successful / refused builds write nothing; a build never writes more than two lines
QuietSteps == /\ req.op = "none" => last = <<>>
              /\ req.op = "build" => /\ Len(last) <= 2
                                     /\ req.kind \in {"ok", "invalid"} => last = <<>>
                                     /\ (req.kind = "fail" /\ level <= 5) => Len(last) = 1
                                     /\ \A i \in 1..Len(last) : last[i].sink = sink
=============================================================================
