SPECIFICATION MCSpec
CONSTANTS
  MaxItems = 1
  CutBinary = TRUE
INVARIANTS AssignmentsWellFormed PrefixIsLength RoundTrip TruncationsRefused
CHECK_DEADLOCK FALSE
