----------------------------- MODULE Gen_Container ---------------------------
(* Behaviour generator for C16 on the container objects: random walks of     *)
(* Container (New, Put and the observations in any order); each walk is      *)
(* replayed on a real smpp.TLVs and a real smgp.Options and the recorded     *)
(* history is validated by Trace_Container.                                  *)
EXTENDS Container, Json

CONSTANTS GenLen, Tags
VARIABLES hist
GVals == { <<>>, <<0>>, <<1>>, <<255, 0, 7>>, <<1, 2, 3, 4, 5, 6, 7, 8, 9>> }
Op(a, t, v) == [a |-> a, t |-> t, v |-> v]

GenInit == CInit /\ hist = <<>>
GenNext ==
  /\ Len(hist) < GenLen
  /\ \/ \E t \in Tags, v \in GVals : Put(t, v) /\ hist' = Append(hist, Op("put", t, v))
     \/ \E a \in {"ser", "len", "udhi"} : UNCHANGED cvars /\ hist' = Append(hist, Op(a, 0, <<>>))
     \/ New /\ hist' = Append(hist, Op("new", 0, <<>>))
GenSpec == GenInit /\ [][GenNext]_<<cvars, hist>>
Emit == (Len(hist) = GenLen) => PrintT(<<"BEH", ToJson([steps |-> hist])>>)
=============================================================================
