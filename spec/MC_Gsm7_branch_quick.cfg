SPECIFICATION GSpec
CONSTANTS
  Alpha = {0, 1, 13, 27, 63, 64, 127}
  MaxLen = 6
  MidGuard = FALSE
INVARIANTS StreamIsDef FastIsDef LenOK RoundTripN FillIsCR ImplAllowed
CHECK_DEADLOCK FALSE
