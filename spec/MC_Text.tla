------------------------------- MODULE MC_Text ------------------------------
(* The fully specified codings as a codec state machine                    *)
(* idle -> encoded | refused -> decoded, over ALL strings of at most MaxLen *)
(* characters from a scaled alphabet that contains, per coding, one-unit    *)
(* characters, multi-unit characters and non-members.                       *)
EXTENDS Text, TLC

CONSTANTS Kinds, MaxLen

VARIABLES kind, text, enc, dec, phase
xvars == <<kind, text, enc, dec, phase>>

Alpha(k) ==
  CASE k = "ascii" -> {65, 127, 128, 233}
    [] k = "ucs2"  -> {65, 20013, 65536, 1114111}
    [] k \in {"gsm7u", "gsm7p"} -> {64, 97, 91, 8364, 13, 96}

Init == /\ kind \in Kinds
        /\ text \in UNION { [1..n -> Alpha(kind)] : n \in 0..MaxLen }
        /\ enc = <<>> /\ dec = <<>> /\ phase = "idle"

Encode ==
  /\ phase = "idle"
  /\ IF CanRepresent(kind, text) THEN enc' = Encoded(kind, text) /\ phase' = "encoded"
     ELSE enc' = <<>> /\ phase' = "refused"
  /\ UNCHANGED <<kind, text, dec>>

\* the decoder of each coding, implementation-shaped for packed GSM-7 (block unpacker, no septet count)
Decode ==
  /\ phase = "encoded"
  /\ dec' = CASE kind = "ascii" -> enc
              [] kind = "ucs2"  -> DecUcs2(enc)
              [] kind = "gsm7u" -> (IF ValidSeptets(enc) THEN DecSeptets(enc) ELSE <<-1>>)
              [] kind = "gsm7p" -> LET s == ImplUnpack(enc, FALSE) IN IF ValidSeptets(s) THEN DecSeptets(s) ELSE <<-1>>
  /\ phase' = "decoded"
  /\ UNCHANGED <<kind, text, enc>>

Spec == Init /\ [][Encode \/ Decode]_xvars

RefusesExactlyForeign == (phase = "refused") <=> (phase # "idle" /\ ~CanRepresent(kind, text))
Inverts == phase = "decoded" => dec \in DecodedAllowed(kind, text)
\* outside the two named ambiguities the round trip is exact
ExactOutsideCarveOut ==
  (phase = "decoded" /\ kind = "gsm7p") =>
     LET s == UnitStream(kind, text) IN
       (Len(s) % 8 # 0 \/ Len(s) = 0 \/ ~(s[Len(s)] = CR \/ (s[Len(s)] = 0 /\ s[Len(s) - 1] < 64))) => dec = text
=============================================================================
