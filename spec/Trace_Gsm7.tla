----------------------------- MODULE Trace_Gsm7 -----------------------------
(* Trace validation of datacoding/gsm7encoding (function pairs, both       *)
(* transform.Transformers, validators) and datacoding.GSM7Packed/Unpacked  *)
(* against Gsm7.  Stateless judgements (each event is one call) except for *)
(* the tiling of the exhaustive code-point sweep.                          *)
EXTENDS Gsm7, Json, IOUtils, TLC

VARIABLES l, nviol, cover
tvars == <<l, nviol, cover>>
Trace == ndJsonDeserialize(IOEnv.VERIF_TRACE)
TraceInit == l = 1 /\ nviol = 0 /\ cover = 0

T(c, tag) == IF c THEN {tag} ELSE {}

\* the non-repertoire characters of a text, in order
RECURSIVE Invalids(_)
Invalids(text) == IF text = <<>> THEN <<>>
                  ELSE (IF Head(text) \in Repertoire THEN <<>> ELSE <<Head(text)>>) \o Invalids(Tail(text))

Bad(e) ==
  CASE e.ev = "Pack" -> T(e.out # Pack(e.s), "C08.pack")
    [] e.ev = "UnpackRT" ->
         IF e.panic THEN (IF e.s = <<>> THEN {"C08.unpack.empty_panic"} ELSE {"C08.unpack.panic"})
         ELSE IF e.o # Pack(e.s) THEN {}     \* reported by the Pack event of the same case
         ELSE IF e.out \in UnpackAllowed(e.s) THEN {}
         ELSE IF e.out = ImplUnpack(e.o, TRUE) THEN {"C08.unpack.zero_dropped_midmessage"}
         ELSE {"C08.unpack"}
    [] e.ev = "Enc" ->
         T(e.err # ~Representable(e.text), "C08.alphabet.enc")
         \cup T(~e.err /\ Representable(e.text) /\ e.out # EncSeptets(e.text), "C08.alphabet.enc")
    [] e.ev = "Dec" ->
         T(e.err # ~ValidSeptets(e.s), "C08.alphabet.dec")
         \cup T(~e.err /\ ValidSeptets(e.s) /\ e.out # DecSeptets(e.s), "C08.alphabet.dec")
    [] e.ev = "Valid" ->
         T(e.inv # Invalids(e.text) \/ e.isvalid # Representable(e.text), "C08.validator")
    [] e.ev = "ValidBuf" ->
         \* refused exactly when some septet is refused; what it names are octets of the buffer, the octets above 0x7F among them
         T((e.inv = <<>>) # ValidSeptets(e.s), "C08.validator")
         \cup T(~({e.inv[i] : i \in 1..Len(e.inv)} \subseteq {e.s[i] : i \in 1..Len(e.s)}), "C08.validator.names_foreign_octet")
         \cup T(~({e.s[i] : i \in {j \in 1..Len(e.s) : e.s[j] > 127}} \subseteq {e.inv[i] : i \in 1..Len(e.inv)}), "C08.validator.misses_octet")
    [] e.ev = "EncPacked" ->
         T(e.err # ~Representable(e.text), "C08.packed.enc")
         \cup T(~e.err /\ Representable(e.text) /\ e.out # Pack(EncSeptets(e.text)), "C08.packed.enc")
    [] e.ev = "DecPacked" ->
         \* o = Pack(s) for valid s; the decoded text must be the text of an allowed unpacking
         IF e.o # Pack(e.s) \/ ~ValidSeptets(e.s) THEN {}
         ELSE IF e.panic THEN {"C08.packed.dec.panic"}
         ELSE IF ~e.err /\ \E u \in UnpackAllowed(e.s) : ValidSeptets(u) /\ e.out = DecSeptets(u) THEN {}
         ELSE IF e.err /\ \E u \in UnpackAllowed(e.s) : ~ValidSeptets(u) THEN {}
         ELSE IF ValidSeptets(ImplUnpack(e.o, TRUE)) /\ ~e.err /\ e.out = DecSeptets(ImplUnpack(e.o, TRUE))
              THEN {"C08.unpack.zero_dropped_midmessage"}
         ELSE {"C08.packed.dec"}
    [] e.ev = "SweepStart" -> {}
    [] e.ev = "Sweep" ->
         T(e.lo # cover \/ e.hi < e.lo, "C08.sweep.gap")
         \cup T(e.class = "roundtrip" /\ \E cp \in e.lo..e.hi : cp \notin Repertoire, "C08.alphabet.accepts_foreign")
         \cup T(e.class = "refused" /\ \E r \in Repertoire : r >= e.lo /\ r <= e.hi, "C08.alphabet.refuses_member")
         \cup T(e.class \notin {"roundtrip", "refused"}, "C08.alphabet." \o e.class)
    [] e.ev = "SweepEnd" -> T(cover # 1114112, "C08.sweep.gap")
    [] e.ev = "PairRow" ->
         \* row[b+1] = 0 if every entry point accepts <<a,b>>, 7 if every entry point refuses it
         T(\E b \in 0..255 : e.row[b + 1] # (IF ValidSeptets(<<e.a, b>>) THEN 0 ELSE 7), "C08.alphabet.pairs")

TraceNext ==
  \/ /\ l <= Len(Trace)
     /\ LET e == Trace[l] bad == Bad(e) IN
          /\ bad # {} => PrintT(<<"VIOL", e.t, l, bad>>)
          /\ nviol' = nviol + (IF bad # {} THEN 1 ELSE 0)
          /\ cover' = IF e.ev = "SweepStart" THEN 0 ELSE IF e.ev = "Sweep" THEN e.hi + 1 ELSE cover
     /\ l' = l + 1
  \/ /\ l = Len(Trace) + 1 /\ PrintT(<<"DONE", Len(Trace), nviol>>) /\ l' = l + 1
     /\ UNCHANGED <<nviol, cover>>

TraceSpec == TraceInit /\ [][TraceNext]_tvars
=============================================================================
