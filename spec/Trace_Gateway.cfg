SPECIFICATION TraceSpec
CONSTANTS
  Msgs = {1}
  MaxParts = 255
  Refs = {0}
  SameRef = FALSE
  Echo = TRUE
  MaxResend = 1000
INVARIANT TraceInv
CHECK_DEADLOCK FALSE
