SPECIFICATION Spec
CONSTANTS
  TW = 1
  LW = 1
  Oct = {0, 1, 2}
  MaxLen = 12
  Variant = "strict"
  SizeBits = 16
INVARIANTS NoFab Exact SerNeverPanics
PROPERTIES Progress Terminates
CHECK_DEADLOCK FALSE
