----------------------------- MODULE MC_Packet -----------------------------
(* Exhaustive small-scope exploration of Packet: every sequence of at most *)
(* MaxW writer operations drawn from an argument menu, followed either by  *)
(* the mirrored read sequence over the writer's output or by arbitrary     *)
(* reads over any prefix of it (failure at every position).                *)
EXTENDS Packet

CONSTANTS MaxW, MaxR, Oct   \* Oct: the octet alphabet of the menu

VARIABLES phase, ridx, mirror
mcvars == <<phase, ridx, mirror>>

Strs == UNION { [1..n -> Oct] : n \in 0..2 }
Widths == 0..3

MCInit == Init /\ phase = "w" /\ ridx = 0 /\ mirror = FALSE

WStep ==
  /\ phase = "w" /\ ridx < MaxW
  /\ \/ \E s \in Strs : WU(s) \/ WBytes(s) \/ WString(s) \/ WCString(s)
     \/ \E s \in Strs, n \in Widths : WFixed(s, n)
  /\ ridx' = ridx + 1 /\ UNCHANGED <<phase, mirror>>

WObs ==
  /\ phase = "w"
  /\ OBytes \/ OBytesLen \/ OLen
  /\ UNCHANGED mcvars

\* hand the writer's output (whole: mirrored reads; any prefix: arbitrary reads) to a reader
FlipMirror ==
  /\ phase = "w" /\ ~werr
  /\ NewReader(wbuf)
  /\ phase' = "r" /\ ridx' = 0 /\ mirror' = TRUE
FlipPrefix ==
  /\ phase = "w" /\ ~werr
  /\ \E k \in 0..Len(wbuf) : NewReader(Take(wbuf, k))
  /\ phase' = "r" /\ ridx' = 0 /\ mirror' = FALSE

MirrorRead ==
  /\ phase = "r" /\ mirror /\ ridx < Len(wlog)
  /\ LET w == wlog[ridx + 1] IN
       CASE w.k = "U" -> RU(w.n)
         [] w.k = "B" -> RBytes(w.n)
         [] w.k = "S" -> RNBytes(w.n)
         [] w.k = "C" -> RCString
         [] w.k = "F" -> RCStringN(w.n)
  /\ ridx' = ridx + 1 /\ UNCHANGED <<phase, mirror>>

AnyRead ==
  /\ phase = "r" /\ ~mirror /\ ridx < MaxR
  /\ \/ \E k \in {1, 2} : RU(k)
     \/ \E n \in 0..3 : RBytes(n) \/ RNBytes(n) \/ RCStringN(n) \/ RCStringNNoTrim(n)
     \/ RCString
  /\ ridx' = ridx + 1 /\ UNCHANGED <<phase, mirror>>

RObs ==
  /\ phase = "r"
  /\ ORemaining \/ ORBytes
  /\ UNCHANGED mcvars

MCNext == WStep \/ WObs \/ FlipMirror \/ FlipPrefix \/ MirrorRead \/ AnyRead \/ RObs
MCSpec == MCInit /\ [][MCNext]_<<vars, mcvars>>

\* Inverse, dynamically: the i-th mirrored read returns the i-th written value
\* (C-string forms: for NUL-free values), and the mirrored sequence ends at Remaining = 0
MirrorOK ==
  (phase = "r" /\ mirror /\ ridx > 0 /\ ret.k = "val" /\ ~rerr /\ CleanUpTo(ridx)) =>
     LET w == wlog[ridx] IN
       \/ w.k \in {"C", "F"} /\ HasNul(w.v)
       \/ w.k = "S" /\ w.n = 0                  \* ReadNBytes(0) = nil
       \/ ret.b = w.v
MirrorNeverFails == (phase = "r" /\ mirror /\ CleanUpTo(Len(wlog))) => ~rerr
MirrorEndsEmpty == (phase = "r" /\ mirror /\ ridx = Len(wlog) /\ CleanUpTo(Len(wlog))) => rin = <<>>

\* observers agree with the state
ObsOK == (ret.k \in {"obs", "obsl"}) => (ret.e = werr)
PrefixedOK ==
  (phase = "w" /\ ret.k = "obsl" /\ ~ret.e)
     => (BEVal(Take(ret.b, 4)) = Len(ret.b) /\ Drop(ret.b, 4) = wbuf /\ Len(ret.b) = wcnt + 4)

\* a successful fixed-size read returns exactly the next octets
View == <<wbuf, wcnt, werr, wlog, rin, rerr, ret, phase, ridx, mirror>>
=============================================================================
