SPECIFICATION Spec
CONSTANTS
  Oct = {0, 1, 2}
  DW = 2
  RawSlot = TRUE
INVARIANTS Survives Verifies
CHECK_DEADLOCK FALSE
