SPECIFICATION GenSpec
CONSTANTS
  Memo = "none"
  GenLen = 10
  Codings = {0, 1, 3, 8, 9, 15, 99, 7}
  NContents = 5
INVARIANT Emit
CHECK_DEADLOCK FALSE
