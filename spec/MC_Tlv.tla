-------------------------------- MODULE MC_Tlv ------------------------------
(* The parser loops of smpp/pdu_tlv.go and smgp/options.go as step         *)
(* machines over ALL octet strings of length <= MaxLen (1-octet tag and    *)
(* length), against the abstract layer of Tlv; and the serialiser with its *)
(* buffer-size arithmetic (SizeBits: the width in which length+header is   *)
(* computed; 8 = wraps around as TLV.Bytes did before the fix).            *)
(*   Variant "strict"  = smgp.ParseOptions (any incomplete triplet: error) *)
(*   Variant "lenient" = ReadTLVs / ReadTLVs1 / ReadOptions: a value that   *)
(*   is missing ENTIRELY at the end of input ends the loop without error.  *)
EXTENDS Tlv, TLC

CONSTANTS Oct, MaxLen, Variant, SizeBits

VARIABLES input, pos, res, st
pvars == <<input, pos, res, st>>

Inputs == UNION { [1..n -> Oct] : n \in 0..MaxLen }
Init == input \in Inputs /\ pos = 0 /\ res = <<>> /\ st = "loop"

Iter ==
  /\ st = "loop"
  /\ UNCHANGED input
  /\ LET left == Len(input) - pos IN
     IF left = 0 THEN st' = "ok" /\ UNCHANGED <<pos, res>>
     ELSE IF left < Hdr THEN st' = "err" /\ res' = <<>> /\ UNCHANGED pos
     ELSE LET n == input[pos + 2] IN
          IF left - Hdr >= n
            THEN /\ res' = Append(res, [t |-> input[pos + 1], v |-> SubSeq(input, pos + Hdr + 1, pos + Hdr + n)])
                 /\ pos' = pos + Hdr + n /\ st' = "loop"
          ELSE IF Variant = "lenient" /\ left - Hdr = 0
            THEN st' = "ok" /\ UNCHANGED <<pos, res>>       \* EOF exactly after the header: loop ends quietly
          ELSE st' = "err" /\ res' = <<>> /\ UNCHANGED pos

Spec == Init /\ [][Iter]_pvars /\ WF_pvars(Iter)

Done == st \in {"ok", "err"}
NoFab == Done => NoFabrication(res, input)
Exact == Done => (Walk(input).clean => (st = "ok" /\ LastWins(res) = LastWins(Walk(input).xs)))
Progress == [][(st = "loop" /\ st' = "loop") => pos' > pos]_pvars
Terminates == <>Done

\* serialiser: buffer of (len + Hdr) computed in SizeBits bits, value copied into it
RECURSIVE P2(_)
P2(n) == IF n = 0 THEN 1 ELSE 2 * P2(n - 1)
SerOne(x) ==
  LET size == ((Len(x.v) % 256) + Hdr) % P2(SizeBits)        \* length field holds Len mod 256
      room == size - Hdr
  IN IF room < 0 THEN <<"panic">>                             \* slice out of range
     ELSE BE(x.t, 1) \o BE(Len(x.v) % 256, 1) \o Take(x.v, room) \o Zeros(room - Len(Take(x.v, room)))
LongValues == { [t |-> 1, v |-> Zeros(n)] : n \in {250, 251, 252, 255, 256, 260} }
SerNeverPanics == \A x \in LongValues : SerOne(x) # <<"panic">> /\ LongOK(<<x>>, SerOne(x))
=============================================================================
