----------------------------- MODULE MC_Validity ----------------------------
(* The relative formatter of smpp/util.go as coded (days = hours/24 mod     *)
(* DayMod, then printed) against "the string denotes exactly the duration", *)
(* for ALL durations up to the field capacity + 2 units, at scaled units.   *)
(* DayMod = 0: no reduction (what the property needs).                      *)
EXTENDS Validity, TLC

CONSTANT DayMod

VARIABLES d, out, phase
vvars == <<d, out, phase>>

MaxD == DayCap * SPD + 2
Init == d \in 0..MaxD /\ out = <<>> /\ phase = "asked"

ImplRel(total) ==
  LET days0 == total \div SPD
      days == IF DayMod = 0 THEN days0 ELSE days0 % DayMod
      sec == total % SPD
  IN IF DayMod = 0 /\ days0 >= DayCap THEN <<"err">>
     ELSE IF days = 0 /\ sec = 0 THEN <<>>
     ELSE RelString(days, sec)

Format == phase = "asked" /\ out' = ImplRel(d) /\ phase' = "done" /\ UNCHANGED d
Spec == Init /\ [][Format]_vvars

Exact ==
  phase = "done" =>
    IF d = 0 THEN out = <<>>
    ELSE IF d \div SPD >= DayCap THEN out = <<"err">>
    ELSE Len(out) = 16 /\ DenoteRel(out) = << d \div SPD, d % SPD >>
=============================================================================
