------------------------------- MODULE MsgId -------------------------------
(* CMPP Msg_Id (CMPP 2.0/3.0 specification, SUBMIT_RESP / DELIVER Msg_Id): *)
(* a 64-bit integer, most significant bit first:                           *)
(*   bit64..61 month, bit60..56 day, bit55..51 hour, bit50..45 minute,     *)
(*   bit44..39 second, bit38..17 gateway code, bit16..1 sequence number.   *)
(* An id is carried as a sequence of bits (MSB first); field values are    *)
(* ordinary integers (< 2^22).  W gives the field widths so that the same  *)
(* module is model-checked exhaustively at scaled widths.                  *)
EXTENDS Bytes

CONSTANTS W,    \* field widths in bits, MSB first: <<4,5,5,6,6,22,16>>
          DW    \* decimal widths of the string form: <<2,2,2,2,2,7,5>>

NF == Len(W)

RECURSIVE Pow2(_)
Pow2(n) == IF n = 0 THEN 1 ELSE 2 * Pow2(n - 1)
RECURSIVE Pow10(_)
Pow10(n) == IF n = 0 THEN 1 ELSE 10 * Pow10(n - 1)

Bits(v, n) == [i \in 1..n |-> (v \div Pow2(n - i)) % 2]
RECURSIVE BitVal(_)
BitVal(b) == IF b = <<>> THEN 0 ELSE 2 * BitVal(Take(b, Len(b) - 1)) + b[Len(b)]

RECURSIVE Off(_)
Off(i) == IF i = 1 THEN 0 ELSE Off(i - 1) + W[i - 1]
TotalBits == Off(NF) + W[NF]

InRange(f) == Len(f) = NF /\ \A i \in 1..NF : f[i] \in 0..(Pow2(W[i]) - 1)

RECURSIVE ComposeFrom(_, _)
ComposeFrom(f, i) == IF i > NF THEN <<>> ELSE Bits(f[i], W[i]) \o ComposeFrom(f, i + 1)
\* the id the specification assigns to in-range field values
Compose(f) == ComposeFrom(f, 1)

\* the field values an id carries
Split(b) == [i \in 1..NF |-> BitVal(SubSeq(b, Off(i) + 1, Off(i) + W[i]))]

RECURSIVE OctetsToBits(_)
OctetsToBits(o) == IF o = <<>> THEN <<>> ELSE Bits(Head(o), 8) \o OctetsToBits(Tail(o))

\* fixed-width decimal string form (ASCII digits)
Dec(v, n) == [i \in 1..n |-> 48 + ((v \div Pow10(n - i)) % 10)]
RECURSIVE StrFrom(_, _)
StrFrom(f, i) == IF i > NF THEN <<>> ELSE Dec(f[i], DW[i]) \o StrFrom(f, i + 1)
StrOf(b) == StrFrom(Split(b), 1)

\* parsing the string form back (fixed widths)
RECURSIVE DecVal(_)
DecVal(s) == IF s = <<>> THEN 0 ELSE 10 * DecVal(Take(s, Len(s) - 1)) + (s[Len(s)] - 48)
RECURSIVE DOff(_)
DOff(i) == IF i = 1 THEN 0 ELSE DOff(i - 1) + DW[i - 1]
ParseStr(s) == [i \in 1..NF |-> DecVal(SubSeq(s, DOff(i) + 1, DOff(i) + DW[i]))]
=============================================================================
