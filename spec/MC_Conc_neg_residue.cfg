SPECIFICATION Spec
CONSTANTS
  G = {1}
  Ops = 3
  PutEarly = FALSE
  ResetOnError = FALSE
  LazyInit = "static"
  MayFail = TRUE
INVARIANTS Independent Exclusive HeldNotPooled PoolClean NoBlindRead
CHECK_DEADLOCK FALSE
