SPECIFICATION Spec
CONSTANTS
  Msgs = {1, 2}
  MaxParts = 2
  Refs = {7, 8}
  SameRef = FALSE
  Echo = TRUE
  MaxResend = 1
INVARIANTS SPaired
PROPERTY Refines
CHECK_DEADLOCK FALSE
