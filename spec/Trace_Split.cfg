SPECIFICATION TraceSpec
CONSTANTS
  MaxOct = 140
  PerOct = 134
  MaxSep = 160
  PerSep = 153
  MaxParts = 255
CHECK_DEADLOCK FALSE
