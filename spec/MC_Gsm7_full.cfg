SPECIFICATION GSpec
CONSTANTS
  Alpha <- FullAlpha
  MaxLen = 3
  MidGuard = FALSE
INVARIANTS StreamIsDef FastIsDef LenOK RoundTripN FillIsCR ImplAllowed
CHECK_DEADLOCK FALSE
