SPECIFICATION Spec
CONSTANTS
  Oct = {0, 1, 2}
  DW = 2
  RawSlot = FALSE
INVARIANTS Survives Verifies
CHECK_DEADLOCK FALSE
