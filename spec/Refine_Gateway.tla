---------------------------- MODULE Refine_Gateway ---------------------------
(* Gateway implements Session: under the refinement mapping below every     *)
(* step of the end-to-end composition is a step of the request / response    *)
(* state machine of C10 (or leaves its variables unchanged), so what TLC     *)
(* establishes for Session - every response in flight matches exactly one    *)
(* outstanding request - holds for the composed system as well.              *)
(*   Send, Resend  ->  Send      GwRecv  ->  Reply (honest library answer)   *)
(*   SpAck         ->  ClientRecv          Submit  ->  (no Session step)     *)
EXTENDS Gateway

SubmitCmd == <<0, 0, 0, 4>>                      \* CMPP_SUBMIT
Sid4(s) == <<0, 0, s \div 256, s % 256>>          \* a sequence identifier as four octets
Msg(c, s) == [cmd |-> c, sid |-> Sid4(s)]

Outstanding == { Msg(SubmitCmd, s) : s \in DOMAIN outst }
C2S == { Msg(SubmitCmd, wire[k].sid) : k \in 1..Len(wire) }
S2C == { Msg(<<128, 0, 0, 4>>, back[k]) : k \in 1..Len(back) }
S == INSTANCE Session WITH outstanding <- Outstanding, c2s <- C2S, s2c <- S2C

SNext ==
  \/ \E s \in 1..(nextSid + 1) : S!Send(SubmitCmd, Sid4(s))
  \/ \E m \in C2S : S!Reply(m, S!RespCmd(m.cmd), m.sid)
  \/ \E r \in S2C : S!ClientRecv(r)
Refines == S!SInit /\ [][SNext]_(S!svars)
SPaired == S!Paired
=============================================================================
