SPECIFICATION CSpec
CONSTANTS
  SampleTypes = {}
  ListAsCStrings = FALSE
INVARIANTS SamplesWellFormed BodyIsWire ImageIsWire ReadsInvert WireDecodes
CHECK_DEADLOCK FALSE
