------------------------------ MODULE MC_Frame ------------------------------
(* Exhaustive small scope: every list of at most MaxFrames frames with     *)
(* bodies over BodyOct (octets that look like length prefixes included),   *)
(* followed by nothing, by every proper prefix of one more frame           *)
(* (truncation at every point) or by a malformed length prefix 0..3 with   *)
(* trailing octets; every arrival pattern (Arrive(k) for every k at every  *)
(* step), every interleaving with Decode / DecodeBlocked, both endings.    *)
EXTENDS Frame

CONSTANTS MaxFrames, MaxBody, BodyOct, MaxStreams

VARIABLES orig, streams     \* streams: how many connections the codec value has served
Bodies == UNION { [1..n -> BodyOct] : n \in 0..MaxBody }
Frames == { BE(4 + Len(b), 4) \o b : b \in Bodies }
FrameLists == UNION { [1..n -> Frames] : n \in 0..MaxFrames }
Truncs == { Take(f, k) : f \in Frames, k \in 0..(MaxBody + 3) } \ Frames
Malformed == { BE(p, 4) \o t : p \in 0..3, t \in {<<>>, <<4>>, <<0, 0>>} }
Tails == Truncs \cup Malformed

MCInit ==
  \E fl \in FrameLists, tail \in Tails, f \in {"eof", "err"} :
     /\ FrameInit(fl, tail, f)
     /\ orig = Concat(fl) \o tail
     /\ streams = 1

MCNext ==
  \/ /\ res.k \notin {"err", "panic"}     \* after an error the connection is closed
     /\ \/ \E k \in 1..Len(stream) : Arrive(k)
        \/ Decode
        \/ \E j \in 0..(Len(buf) + Len(stream)) : DecodeBlocked(j)
     /\ UNCHANGED <<orig, streams>>
  \/ \* the connection is over (closed after an error, or abandoned): the codec value serves a second one
     /\ streams < MaxStreams
     /\ \E fl \in FrameLists, tail \in Tails, f \in {"eof", "err"} :
          /\ NextStream(fl, tail, f) /\ orig' = Concat(fl) \o tail
     /\ streams' = streams + 1

MCSpec == MCInit /\ [][MCNext]_<<vars, orig, streams>>

ConservedInv == Conserved(orig)

\* progress: once everything has arrived, repeated Decode returns all sent frames
\* (checked as: whenever the stream is empty and Decode says incomplete, every sent frame is out)
AllOut == (stream = <<>> /\ res.k = "incomplete") => out = sent
=============================================================================
