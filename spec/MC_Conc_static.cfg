SPECIFICATION Spec
CONSTANTS
  G = {1, 2}
  Ops = 2
  PutEarly = FALSE
  ResetOnError = TRUE
  LazyInit = "static"
  MayFail = TRUE
INVARIANTS Independent Exclusive HeldNotPooled PoolClean NoBlindRead
CHECK_DEADLOCK FALSE
