SPECIFICATION Spec
CONSTANTS
  MaxChars = 17
  CharKinds = {1, 2}
  Per = 3
  Max = 4
  Algo = "greedy"
INVARIANTS Preserves TotalOK SizeOK WholeOK MinimalOK
PROPERTIES Terminates
CHECK_DEADLOCK FALSE
