SPECIFICATION MSpec
CONSTANTS
  Memo = "sound"
  Proto = "CMPP"
  Codings = {0, 8, 15, 7}
  MaxOps = 3
  NVals = {1, 2}
PROPERTY FreshAnswer
CHECK_DEADLOCK FALSE
