SPECIFICATION MSpec
CONSTANTS
  TW = 1
  LW = 1
  Tags = {1, 2, 3}
  Vals <- MCVals
  MaxOps = 4
  Order = "any"
INVARIANT Lossless
CHECK_DEADLOCK FALSE
