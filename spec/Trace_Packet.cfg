SPECIFICATION TraceSpec
INVARIANT TraceInv
CHECK_DEADLOCK FALSE
