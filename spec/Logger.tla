------------------------------- MODULE Logger -------------------------------
(* The logger package (growth beyond the listed properties): two loggers   *)
(* - the default one and the system one, which prefixes every message -    *)
(* share a level and an output.  A message of level lv is written, as ONE  *)
(* line "<level marker><prefix?><body>" to the CURRENT output, iff the     *)
(* configured level is not above lv; the system logger's Errorf is muted   *)
(* for the engine error format while silent mode is on.  The batch encoder *)
(* reports its UCS-2 fallback (Info) and its failure (Error) through the   *)
(* default logger; a successful or a refused Build writes nothing.         *)
(* Texts are sequences of code points.  Fatal (which ends the process) is  *)
(* outside the model.                                                      *)
EXTENDS Integers, Sequences

CONSTANTS Sinks,        \* outputs a test may install
          LevelCmp(_, _) \* LevelCmp(configured, lv): the message is let through (the negative configuration inverts it)

VARIABLES level, sink, silent,
          last           \* what the last step wrote: a sequence of [sink, line]
lvars == <<level, sink, silent, last>>

Marker(lv) ==
  CASE lv = 0 -> <<91, 84, 114, 97, 99, 101, 93, 32>> [] lv = 1 -> <<91, 68, 101, 98, 117, 103, 93, 32>> [] lv = 2 -> <<91, 73, 110, 102, 111, 93, 32>> [] lv = 3 -> <<91, 78, 111, 116, 105, 99, 101, 93, 32>>
    [] lv = 4 -> <<91, 87, 97, 114, 110, 93, 32>> [] lv = 5 -> <<91, 69, 114, 114, 111, 114, 93, 32>> [] lv = 6 -> <<91, 70, 97, 116, 97, 108, 93, 32>>
SysPrefix == <<91, 103, 111, 45, 115, 109, 115, 45, 112, 114, 111, 116, 111, 99, 111, 108, 93, 58, 32>>
FallbackMsg == <<91, 69, 110, 99, 111, 100, 101, 83, 77, 80, 80, 67, 111, 110, 116, 101, 110, 116, 65, 110, 100, 83, 112, 108, 105, 116, 66, 97, 116, 99, 104, 93, 32, 97, 108, 108, 32, 100, 97, 116, 97, 67, 111, 100, 105, 110, 103, 32, 102, 97, 105, 108, 101, 100, 46, 32, 117, 115, 101, 32, 117, 99, 115, 50, 32, 97, 115, 32, 100, 101, 102, 97, 117, 108, 116>>
FailMsg == <<91, 69, 110, 99, 111, 100, 101, 83, 77, 80, 80, 67, 111, 110, 116, 101, 110, 116, 65, 110, 100, 83, 112, 108, 105, 116, 66, 97, 116, 99, 104, 93, 32, 97, 108, 108, 32, 100, 97, 116, 97, 67, 111, 100, 105, 110, 103, 32, 102, 97, 105, 108, 101, 100>>
EngineA == <<69, 114, 114, 111, 114, 61>>    \* "Error="
EngineB == <<44, 32, 114, 101, 109, 111, 116, 101, 65, 100, 100, 114, 61>>    \* ", remoteAddr="

Digit(n) == <<48 + n>>

\* what the caller's arguments turn into.  style "plain": Sprint of the operands (no blank between a string and a number);
\* "f" / "ctx": the format verbatim without arguments, "%s|%d" with two
Body(style, text, hasargs, n) ==
  IF ~hasargs THEN text
  ELSE IF style = "plain" THEN text \o Digit(n) ELSE text \o <<124>> \o Digit(n)

Passes(lv) == LevelCmp(level, lv)

LInit == level = 0 /\ sink \in Sinks /\ silent = FALSE /\ last = <<>>

SetLevel(lv) == level' = lv /\ last' = <<>> /\ UNCHANGED <<sink, silent>>
SetOutput(k) == sink' = k /\ last' = <<>> /\ UNCHANGED <<level, silent>>
SetSilent(b) == silent' = b /\ last' = <<>> /\ UNCHANGED <<level, sink>>

\* who: "def" | "sys"; lv 0..5; engine: the call is Errorf(EngineErrorFormat, a, b) - then text = a, and b is the second operand
Log(who, style, lv, text, hasargs, n, engine, b) ==
  LET muted == who = "sys" /\ engine /\ silent
      body == IF engine THEN EngineA \o text \o EngineB \o b ELSE Body(style, text, hasargs, n)
      line == Marker(lv) \o (IF who = "sys" THEN SysPrefix ELSE <<>>) \o body
  IN /\ last' = IF Passes(lv) /\ ~muted THEN << [sink |-> sink, line |-> line] >> ELSE <<>>
     /\ UNCHANGED <<level, sink, silent>>

\* outcome of a Build: "ok" (some candidate encodes), "invalid" (refused before anything runs), "fallback" (nothing encodes,
\* UCS-2 was not asked for: it is tried), "fail" (nothing encodes, UCS-2 was among the candidates), "noproto" (the fallback
\* has no UCS-2 coding for the protocol: both messages)
BuildLog(kind) ==
  LET info == IF Passes(2) THEN << [sink |-> sink, line |-> Marker(2) \o FallbackMsg] >> ELSE <<>>
      err  == IF Passes(5) THEN << [sink |-> sink, line |-> Marker(5) \o FailMsg] >> ELSE <<>>
  IN /\ last' = CASE kind \in {"ok", "invalid"} -> <<>>
                  [] kind = "fallback" -> info
                  [] kind = "fail" -> err
                  [] kind = "noproto" -> info \o err
     /\ UNCHANGED <<level, sink, silent>>
=============================================================================
