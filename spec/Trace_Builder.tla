----------------------------- MODULE Trace_Builder ---------------------------
(* Trace validation of histories on one real BatchDataCodingEncoder:         *)
(* New, Set (protocol / content / codings / origin) and Build events, each   *)
(* the corresponding action of Builder (Memo = "none").  A Build event       *)
(* carries only what was observed: the environment of the current content    *)
(* (from the single-coding entry points) and the answer; the settings are    *)
(* the specification's own state, built up from the Set events.              *)
EXTENDS Builder, Json, IOUtils

VARIABLES l, dead, nviol
tvars == <<l, dead, nviol>>
Trace == ndJsonDeserialize(IOEnv.VERIF_TRACE)
TraceInit == BInit /\ l = 1 /\ dead = TRUE /\ nviol = 0
T(c, tag) == IF c THEN {tag} ELSE {}

EnvCan(e) == [c \in Valid(proto) |-> \E i \in 1..Len(e.env) : e.env[i].c = c /\ e.env[i].can]
EnvN(e) == [c \in Valid(proto) |->
              IF \E i \in 1..Len(e.env) : e.env[i].c = c
                THEN e.env[CHOOSE i \in 1..Len(e.env) : e.env[i].c = c].n ELSE 1]

Act(e) ==
  CASE e.ev = "Set" /\ e.what = "proto" -> SetProtocol(e.s)
    [] e.ev = "Set" /\ e.what = "content" -> SetContent(e.empty)
    [] e.ev = "Set" /\ e.what = "codings" -> SetCodings(e.v)
    [] e.ev = "Set" /\ e.what = "origin" -> SetOrigin(e.v[1])
    [] e.ev = "Build" -> IF proto = "" THEN Build(<<>>, <<>>, FALSE) ELSE Build(EnvCan(e), EnvN(e), e.ucs2can)

Bad(e) ==
  IF e.ev # "Build" THEN {}
  ELSE IF e.panic THEN {"C09.panic"}
  ELSE IF e.mutated THEN {"C09.request_mutated"}
  ELSE LET got == IF e.err THEN -1 ELSE e.coding IN
       IF got = result' THEN {}
       ELSE IF result' = -1 THEN {"C09.builder.error_expected"}
       ELSE IF got = -1 THEN {"C09.builder.unexpected_error"}
       ELSE {"C09.builder.answer_of_another_request"}

Reset == Trace[l].ev = "New" /\ dead' = FALSE /\ UNCHANGED nviol
         /\ proto' = "" /\ empty' = TRUE /\ cands' = <<>> /\ origin' = -1 /\ memo' = NoMemo /\ result' = -2 /\ env' = NoEnv
Live ==
  /\ Trace[l].ev # "New" /\ ~dead
  /\ LET e == Trace[l] IN
       /\ Act(e)
       /\ LET bad == Bad(e) IN
            /\ bad # {} => PrintT(<<"VIOL", e.t, l, bad>>)
            /\ dead' = (bad # {})
            /\ nviol' = nviol + (IF bad # {} THEN 1 ELSE 0)
Skip == Trace[l].ev # "New" /\ dead /\ UNCHANGED <<bvars, dead, nviol>>

TraceNext ==
  \/ /\ l <= Len(Trace) /\ (Reset \/ Live \/ Skip) /\ l' = l + 1
  \/ /\ l = Len(Trace) + 1 /\ PrintT(<<"DONE", Len(Trace), nviol>>) /\ l' = l + 1 /\ UNCHANGED <<bvars, dead, nviol>>
TraceSpec == TraceInit /\ [][TraceNext]_<<bvars, tvars>>
=============================================================================
