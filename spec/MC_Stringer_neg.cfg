SPECIFICATION MSpec
CONSTANTS
  ResetOnRelease = FALSE
  MaxSteps = 7
INVARIANTS OwnLinesOnly PoolEmpty
CHECK_DEADLOCK FALSE
