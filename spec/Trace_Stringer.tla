---------------------------- MODULE Trace_Stringer ---------------------------
(* Trace validation of histories on real packet.PDUStringer objects that     *)
(* follow one another (the pool hands the builders on): every recorded call  *)
(* is the corresponding action of Stringer, and what String() returned must  *)
(* be the model's builder content.  Tags X.stringer.* : specification drift  *)
(* outside the listed properties, never a verdict.                           *)
EXTENDS Stringer, Json, IOUtils, TLC

VARIABLES l, dead, nviol
tvars == <<l, dead, nviol>>
Trace == ndJsonDeserialize(IOEnv.VERIF_TRACE)
TraceInit == SInit /\ l = 1 /\ dead = TRUE /\ nviol = 0
T(c, tag) == IF c THEN {tag} ELSE {}

Act(e) ==
  CASE e.ev = "New" -> buf' = Header /\ live' = TRUE /\ UNCHANGED <<pool, ret>>     \* (every pooled builder is empty: PoolEmpty)
    [] e.ev = "W" -> IF e.omit THEN Omit(e.field, e.v) ELSE Write(e.kind, e.field, e.v, e.wb)
    [] e.ev = "Str" -> Str
    [] e.ev = "Rel" -> Release

Bad(e) ==
  T(e.ev = "Str" /\ e.out # buf', "X.stringer.output")
  \cup T(e.ev \in {"W", "Str", "Rel"} /\ ~live, "X.stringer.driver")

Reset == Trace[l].ev = "Start" /\ dead' = FALSE /\ UNCHANGED nviol
         /\ buf' = <<>> /\ live' = FALSE /\ pool' = <<>> /\ ret' = <<>>
Live ==
  /\ Trace[l].ev # "Start" /\ ~dead
  /\ LET e == Trace[l] IN
       IF e.ev \in {"W", "Str", "Rel"} /\ ~live
         THEN /\ PrintT(<<"VIOL", e.t, l, {"X.stringer.driver"}>>) /\ dead' = TRUE /\ nviol' = nviol + 1 /\ UNCHANGED svars
         ELSE /\ Act(e)
              /\ LET bad == Bad(e) IN
                   /\ bad # {} => PrintT(<<"VIOL", e.t, l, bad>>)
                   /\ dead' = (bad # {})
                   /\ nviol' = nviol + (IF bad # {} THEN 1 ELSE 0)
Skip == Trace[l].ev # "Start" /\ dead /\ UNCHANGED <<svars, dead, nviol>>

TraceNext ==
  \/ /\ l <= Len(Trace) /\ (Reset \/ Live \/ Skip) /\ l' = l + 1
  \/ /\ l = Len(Trace) + 1 /\ PrintT(<<"DONE", Len(Trace), nviol>>) /\ l' = l + 1 /\ UNCHANGED <<svars, dead, nviol>>
TraceSpec == TraceInit /\ [][TraceNext]_<<svars, tvars>>
=============================================================================
