---------------------------- MODULE Trace_Packet ----------------------------
(* Trace validation of recorded executions of the real packet.Writer /     *)
(* packet.Reader against Packet.  One ndjson line per public call, logged  *)
(* after the call returned.  Thousands of short traces are concatenated;   *)
(* a "NewW" event starts a new trace (TraceReset).  Monitor mode: an event *)
(* the specification does not allow is reported (PrintT <<"VIOL",...>>) and *)
(* the rest of that trace is skipped; the next trace is checked again.     *)
EXTENDS Packet, Json, IOUtils

VARIABLES l, dead, nviol, wmsg, rmsg
tvars == <<l, dead, nviol, wmsg, rmsg>>

Trace == ndJsonDeserialize(IOEnv.VERIF_TRACE)

TraceInit == Init /\ l = 1 /\ dead = FALSE /\ nviol = 0 /\ wmsg = "" /\ rmsg = ""

IsW(e) == e.ev \in {"WU", "WBytes", "WStr", "WCStr", "WFix"}
IsR(e) == e.ev \in {"RU", "RBytes", "RNBytes", "RCStrN", "RCStrNT", "RCStr"}

\* the Packet action an event stands for, with its logged arguments
Act(e) ==
  CASE e.ev = "WU"      -> WU(e.v)
    [] e.ev = "WBytes"  -> WBytes(e.v)
    [] e.ev = "WStr"    -> WString(e.v)
    [] e.ev = "WCStr"   -> WCString(e.v)
    [] e.ev = "WFix"    -> WFixed(e.v, e.n)
    [] e.ev = "OBytes"  -> OBytes
    [] e.ev = "OBytesLen" -> OBytesLen
    [] e.ev = "NewR"    -> NewReader(e.in)
    [] e.ev = "RU"      -> RU(e.n)
    [] e.ev = "RBytes"  -> RBytes(e.n)
    [] e.ev = "RNBytes" -> RNBytes(e.n)
    [] e.ev = "RCStrN"  -> RCStringN(e.n)
    [] e.ev = "RCStrNT" -> RCStringNNoTrim(e.n)
    [] e.ev = "RCStr"   -> RCString

\* judgement of one recorded step: the set of violated clauses of C20.
\* Evaluated with the primed variables already bound by Act(e).
Bad(e) ==
  IF IsW(e) THEN
       (IF (e.err # "") # werr' THEN {"C20.werr"} ELSE {})
  \cup (IF ~werr' /\ e.w # Len(wbuf') THEN {"C20.count"} ELSE {})
  \cup (IF e.len # (IF werr' THEN 0 ELSE Len(wbuf')) THEN {"C20.len"} ELSE {})
  \cup (IF werr /\ e.err # wmsg THEN {"C20.sticky.w"} ELSE {})
  ELSE IF e.ev = "OBytes" THEN
       \* (after a failed write the observers hand out the error and nothing else)
       (IF e.oerr # werr \/ (~werr /\ e.out # wbuf) \/ (werr /\ e.out # <<>>) THEN {"C20.bytes"} ELSE {})
  ELSE IF e.ev = "OBytesLen" THEN
       (IF e.oerr # werr \/ (~werr /\ e.out # BE(Len(wbuf) + 4, 4) \o wbuf) \/ (werr /\ e.out # <<>>)
          THEN {"C20.prefixed"} ELSE {})
  ELSE IF IsR(e) THEN
       (IF (e.err # "") # rerr' THEN {"C20.rerr"} ELSE {})
  \cup (IF /\ ~((~rerr /\ rerr') /\ e.ev = "RBytes" /\ e.out \in PartialOut(e.n))
           /\ e.out # ret'.b
          THEN {"C20.read"} ELSE {})
  \cup (IF ~rerr' /\ e.rem # Len(rin') THEN {"C20.rem"} ELSE {})
  \* ORBytes: the unread input, as an observation (the reads that follow still find it)
  \cup (IF "looked" \in DOMAIN e /\ e.looked /\ e.rest # (IF rerr' THEN <<>> ELSE rin') THEN {"C20.rest"} ELSE {})
  \cup (IF rerr /\ e.err # rmsg THEN {"C20.sticky.r"} ELSE {})
  \cup (IF e.stale THEN {"C20.earlier_result_changed"} ELSE {})    \* a value read earlier no longer reads the same
  \cup (IF /\ e.mi > 0 /\ ~rerr' /\ CleanUpTo(e.mi)
           /\ ~(wlog[e.mi].k \in {"C", "F"} /\ HasNul(wlog[e.mi].v))
           /\ e.out # wlog[e.mi].v
          THEN {"C20.mirror"} ELSE {})
  ELSE {}

Reset ==
  /\ Trace[l].ev = "NewW"
  /\ wbuf' = <<>> /\ wcnt' = 0 /\ werr' = FALSE /\ wlog' = <<>>
  /\ rin' = <<>> /\ rerr' = FALSE /\ ret' = None
  /\ dead' = FALSE /\ wmsg' = "" /\ rmsg' = ""
  /\ UNCHANGED nviol

Live ==
  /\ Trace[l].ev # "NewW" /\ ~dead
  /\ LET e == Trace[l] IN
       /\ Act(e)
       /\ LET bad == Bad(e) IN
            /\ bad # {} => PrintT(<<"VIOL", e.t, l, bad>>)
            /\ dead' = (bad # {})
            /\ nviol' = nviol + (IF bad # {} THEN 1 ELSE 0)
       /\ wmsg' = IF IsW(e) /\ ~werr /\ werr' THEN e.err ELSE wmsg
       /\ rmsg' = IF e.ev = "NewR" THEN ""
                  ELSE IF IsR(e) /\ ~rerr /\ rerr' THEN e.err ELSE rmsg

Skip ==
  /\ Trace[l].ev # "NewW" /\ dead
  /\ UNCHANGED <<vars, dead, nviol, wmsg, rmsg>>

TraceNext ==
  \/ /\ l <= Len(Trace)
     /\ (Reset \/ Live \/ Skip)
     /\ l' = l + 1
  \/ /\ l = Len(Trace) + 1
     /\ PrintT(<<"DONE", Len(Trace), nviol>>)
     /\ l' = l + 1
     /\ UNCHANGED <<vars, dead, nviol, wmsg, rmsg>>

TraceSpec == TraceInit /\ [][TraceNext]_<<vars, tvars>>

\* the invariants of Packet, evaluated in every state of every recorded execution
TraceInv == dead \/ (CountAgrees /\ BufIsLog /\ Inverse)
=============================================================================
