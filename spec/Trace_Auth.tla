------------------------------ MODULE Trace_Auth ----------------------------
(* Trace validation of real login handshakes: the library builds the       *)
(* authenticator, the PDU is encoded, decoded by the peer, verified,       *)
(* answered, decoded and verified again.  TLC recomputes every digest with *)
(* MD5.tla.  One handshake = one trace (Build resets).                     *)
EXTENDS Auth, MD5, Json, IOUtils, TLC

VARIABLES l, dead, nviol, h      \* h: what the handshake has established so far
tvars == <<l, dead, nviol, h>>
Trace == ndJsonDeserialize(IOEnv.VERIF_TRACE)
NoH == [proto |-> "", account |-> <<>>, secret |-> <<>>, ts |-> 0, auth |-> <<>>, auth2 |-> <<>>,
        status |-> <<>>, resp |-> <<>>]
TraceInit == l = 1 /\ dead = TRUE /\ nviol = 0 /\ h = NoH
T(c, tag) == IF c THEN {tag} ELSE {}

Bad(e) ==
  CASE e.ev = "Build" ->
         T(e.auth # MD5(ReqInput(e.proto, e.account, e.secret, e.ts)), "C15.defined.request")
         \cup T(Len(e.auth) # 16, "C15.defined.request")
    [] e.ev = "SrvDecode" ->
         T(e.decerr \/ e.auth2 # h.auth, "C15.survives.request")
         \cup T(~e.decerr /\ (e.account2 # h.account \/ e.ts2 # h.ts), "C15.survives.fields")
    [] e.ev = "SrvVerify" ->
         \* the server recomputes from what it decoded plus the shared secret
         T(e.recomputed # h.auth2 \/ MD5(ReqInput(h.proto, h.account, h.secret, h.ts)) # h.auth2, "C15.verifies.request")
    [] e.ev = "SrvReply" ->
         T(e.lib /\ e.respauth # MD5(RespInput(e.status, h.auth2, h.secret)), "C15.defined.response")
    [] e.ev = "CliDecode" ->
         \* (only the trailing 0x00 octets of the authenticator missing is the recorded SMGP Login_Resp finding;
         \*  anything else that does not survive is a different violation)
         IF ~e.decerr /\ e.status2 = h.status /\ e.respauth2 # h.resp /\ Len(e.respauth2) < Len(h.resp)
            /\ e.respauth2 = SubSeq(h.resp, 1, Len(e.respauth2))
            /\ \A i \in (Len(e.respauth2) + 1)..Len(h.resp) : h.resp[i] = 0
           THEN {"C15.survives.response.trailing_nul"}
           ELSE T(e.decerr \/ e.respauth2 # h.resp \/ e.status2 # h.status, "C15.survives.response")
    [] e.ev = "Stamp" ->   \* the 10-digit string (digest input) and the number (PDU field) denote the same instant
         T(e.s # Dec10(e.n), "C15.timestamp_pair")
    [] e.ev = "CliVerify" ->
         T(e.recomputed # e.received \/ MD5(RespInput(h.status, h.auth, h.secret)) # e.received, "C15.verifies.response")

Step(e) ==
  CASE e.ev = "Build" -> [NoH EXCEPT !.proto = e.proto, !.account = e.account, !.secret = e.secret, !.ts = e.ts, !.auth = e.auth]
    [] e.ev = "SrvDecode" -> [h EXCEPT !.auth2 = e.auth2]
    [] e.ev = "SrvReply" -> [h EXCEPT !.status = e.status, !.resp = e.respauth]
    [] OTHER -> h

Reset == Trace[l].ev = "Build" /\ dead' = (Bad(Trace[l]) # {}) /\ h' = Step(Trace[l])
         /\ LET bad == Bad(Trace[l]) IN
              /\ bad # {} => PrintT(<<"VIOL", Trace[l].t, l, bad>>)
              /\ nviol' = nviol + (IF bad # {} THEN 1 ELSE 0)
Live ==
  /\ Trace[l].ev # "Build" /\ ~dead
  /\ LET e == Trace[l] bad == Bad(e) IN
       /\ bad # {} => PrintT(<<"VIOL", e.t, l, bad>>)
       /\ dead' = (bad # {})
       /\ nviol' = nviol + (IF bad # {} THEN 1 ELSE 0)
       /\ h' = Step(e)
Skip == Trace[l].ev # "Build" /\ dead /\ UNCHANGED <<dead, nviol, h>>

TraceNext ==
  \/ /\ l <= Len(Trace) /\ (Reset \/ Live \/ Skip) /\ l' = l + 1
  \/ /\ l = Len(Trace) + 1 /\ PrintT(<<"DONE", Len(Trace), nviol>>) /\ l' = l + 1 /\ UNCHANGED <<dead, nviol, h>>
TraceSpec == TraceInit /\ [][TraceNext]_tvars
=============================================================================
