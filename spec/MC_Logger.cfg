SPECIFICATION MSpec
CONSTANTS
  Sinks = {1, 2}
  MaxSteps = 4
  LevelCmp <- Cmp
INVARIANTS OneLineToCurrent WrittenIff QuietSteps
CHECK_DEADLOCK FALSE
