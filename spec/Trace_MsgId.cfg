SPECIFICATION TraceSpec
CONSTANTS
  W <- RealW
  DW <- RealDW
CHECK_DEADLOCK FALSE
