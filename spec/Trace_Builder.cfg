SPECIFICATION TraceSpec
CONSTANTS
  Memo = "none"
CHECK_DEADLOCK FALSE
