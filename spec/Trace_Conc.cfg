SPECIFICATION TraceSpec
CONSTANTS
  G <- TraceG
  Ops = 1
  PutEarly = FALSE
  ResetOnError = TRUE
  LazyInit = "static"
  MayFail = TRUE
INVARIANT TraceInv
CHECK_DEADLOCK FALSE
