SPECIFICATION GenSpec
CONSTANTS
  TW = 2
  LW = 2
  GenLen = 10
  Tags = {1, 2, 3, 16, 65535}
INVARIANT Emit
CHECK_DEADLOCK FALSE
