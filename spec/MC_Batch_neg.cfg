SPECIFICATION Spec
CONSTANTS
  Proto = "SMPP"
  MaxCands = 2
  Codings = {0, 8, 3}
  TiePrio = TRUE
INVARIANT Correct
CHECK_DEADLOCK FALSE
