SPECIFICATION Spec
CONSTANTS
  SPM = 60
  MPH = 60
  HPD = 24
  DayCap = 31
  DayMod = 0
INVARIANT Exact
CHECK_DEADLOCK FALSE
