SPECIFICATION MCSpec
CONSTANTS
  MaxW = 3
  MaxR = 3
  Oct = {0, 1}
INVARIANTS
  TypeOK CountAgrees BufIsLog Inverse MirrorOK MirrorNeverFails MirrorEndsEmpty ObsOK PrefixedOK
PROPERTIES
  StickyW StickyR ShrinksOnly
CHECK_DEADLOCK FALSE
