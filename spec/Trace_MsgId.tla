---------------------------- MODULE Trace_MsgId -----------------------------
(* Trace validation of cmpp.CombineMsgID / SplitMsgID / MsgID2String /     *)
(* MsgIDString2Uint64 against MsgId at the real widths.  Ids travel as 8   *)
(* octets.  Events:                                                        *)
(*   Combine  f -> id            Layout: id = Compose(f) for in-range f     *)
(*   Split    id -> f            f = Split(id)                              *)
(*   Round    id -> id2          Combine(Split(id)) = id                    *)
(*   Str      id -> s, back      s = StrOf(id), parse(s) = id  (id # 0)     *)
(*   SweepStart/Sweep/SweepEnd   run-length classified exhaustive sweeps:   *)
(*       the driver evaluates the reference-free identities on every       *)
(*       element; TLC checks that the intervals tile 0..n-1 and that every *)
(*       interval is classified "exact".                                   *)
EXTENDS MsgId, Json, IOUtils, TLC

VARIABLES l, nviol, cover, sweepN
tvars == <<l, nviol, cover, sweepN>>

Trace == ndJsonDeserialize(IOEnv.VERIF_TRACE)

TraceInit == l = 1 /\ nviol = 0 /\ cover = 0 /\ sweepN = 0

Bad(e) ==
  CASE e.ev = "Combine" ->
         IF InRange(e.f) /\ OctetsToBits(e.id) # Compose(e.f) THEN {"C17.layout"} ELSE {}
    [] e.ev = "Split" ->
         IF e.f # Split(OctetsToBits(e.id)) THEN {"C17.split"} ELSE {}
    [] e.ev = "Round" ->
         IF e.id2 # e.id THEN {"C17.splitcompose"} ELSE {}
    [] e.ev = "Str" ->
         (IF e.s # StrOf(OctetsToBits(e.id)) THEN {"C17.str"} ELSE {})
         \cup (IF e.back # e.id THEN {"C17.strparse"} ELSE {})
    [] e.ev = "SweepStart" -> {}
    [] e.ev = "Sweep" ->
         (IF e.lo # cover \/ e.hi < e.lo THEN {"C17.sweep.gap"} ELSE {})
         \cup (IF e.class # "exact" THEN {"C17.sweep." \o e.class} ELSE {})
    [] e.ev = "SweepEnd" ->
         IF cover # sweepN THEN {"C17.sweep.gap"} ELSE {}

TraceNext ==
  \/ /\ l <= Len(Trace)
     /\ LET e == Trace[l] bad == Bad(e) IN
          /\ bad # {} => PrintT(<<"VIOL", e.t, l, bad>>)
          /\ nviol' = nviol + (IF bad # {} THEN 1 ELSE 0)
          /\ cover' = IF e.ev = "SweepStart" THEN 0 ELSE IF e.ev = "Sweep" THEN e.hi + 1 ELSE cover
          /\ sweepN' = IF e.ev = "SweepStart" THEN e.n ELSE sweepN
     /\ l' = l + 1
  \/ /\ l = Len(Trace) + 1 /\ PrintT(<<"DONE", Len(Trace), nviol>>) /\ l' = l + 1
     /\ UNCHANGED <<nviol, cover, sweepN>>

TraceSpec == TraceInit /\ [][TraceNext]_tvars
RealW == <<4,5,5,6,6,22,16>>
RealDW == <<2,2,2,2,2,7,5>>
=============================================================================
