----------------------------- MODULE Gen_Stringer ----------------------------
(* Behaviour generator for packet.PDUStringer: random walks of Stringer      *)
(* (stringers that follow one another; writes of every modelled value kind,  *)
(* fields left out when empty, String once or several times, Release); each  *)
(* walk is replayed on real stringers and validated by Trace_Stringer.       *)
EXTENDS Stringer, Json, TLC

CONSTANTS GenLen
VARIABLES hist
GVals == { <<>>, <<97>>, <<34, 37, 10>>, <<0, 255>> }
GFields == { <<>>, <<102>>, <<77, 115, 103, 95, 73, 100>> }
Op(a) == [a |-> a, kind |-> "", field |-> <<>>, v |-> <<>>, n |-> 0, b |-> FALSE, wb |-> FALSE, omit |-> FALSE]

GenInit == SInit /\ hist = <<>>
GenNext ==
  /\ Len(hist) < GenLen
  /\ \/ New /\ hist' = Append(hist, Op("new"))
     \/ \E k \in {"s", "y"}, f \in GFields, v \in GVals, wb \in BOOLEAN :
          Write(k, f, v, wb) /\ hist' = Append(hist, [Op("w") EXCEPT !.kind = k, !.field = f, !.v = v, !.wb = wb])
     \/ \E f \in GFields, n \in {-2147483647, -1, 0, 9, 10, 65535, 2147483647} :
          Write("n", f, n, FALSE) /\ hist' = Append(hist, [Op("w") EXCEPT !.kind = "n", !.field = f, !.n = n])
     \/ \E f \in GFields, b \in BOOLEAN :
          Write("b", f, b, FALSE) /\ hist' = Append(hist, [Op("w") EXCEPT !.kind = "b", !.field = f, !.b = b])
     \/ \E f \in GFields, v \in GVals :
          Omit(f, v) /\ hist' = Append(hist, [Op("w") EXCEPT !.kind = "s", !.field = f, !.v = v, !.omit = TRUE])
     \/ Str /\ hist' = Append(hist, Op("str"))
     \/ Release /\ hist' = Append(hist, Op("rel"))
GenSpec == GenInit /\ [][GenNext]_<<svars, hist>>
Emit == (Len(hist) = GenLen) => PrintT(<<"BEH", ToJson([steps |-> hist])>>)
=============================================================================
