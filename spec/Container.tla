------------------------------ MODULE Container -----------------------------
(* An optional-parameter container (smpp.TLVs, smgp.Options) as an object:  *)
(* New (nil or empty), Put (SetTLV / Add: a later value for a tag replaces   *)
(* the earlier one), and the observations Serialize, Len and TP_udhi, which  *)
(* must always describe the current content (C16).  The content is a         *)
(* function from tags to values; Serialize may emit the triplets in any      *)
(* order (the containers are Go maps).                                       *)
EXTENDS Tlv, FiniteSets, TLC

VARIABLES m, fresh      \* content; fresh = no Put yet (the container may still be nil)
cvars == <<m, fresh>>

NoTags == [t \in {} |-> <<>>]
CInit == m = NoTags /\ fresh = TRUE
New == m' = NoTags /\ fresh' = TRUE
Put(tag, v) == m' = (tag :> v) @@ m /\ fresh' = FALSE      \* last wins, also on a nil container

Pairs == { [t |-> t, v |-> m[t]] : t \in DOMAIN m }
\* what the observations must report
SerialLen == LET RECURSIVE Sum(_)
                 Sum(S) == IF S = {} THEN 0 ELSE LET t == CHOOSE x \in S : TRUE IN Hdr + Len(m[t]) + Sum(S \ {t})
             IN Sum(DOMAIN m)
Udhi == IF 2 \in DOMAIN m /\ Len(m[2]) >= 1 THEN m[2][1] ELSE 0
\* an octet string is a serialisation of the content iff it parses cleanly into exactly the content, each tag once
IsSerialisation(b) ==
  LET w == Walk(b) IN w.clean /\ Distinct(w.xs) /\ SetOf(w.xs) = Pairs /\ Len(b) = SerialLen
=============================================================================
