------------------------------- MODULE Helpers ------------------------------
(* Public helpers outside the twenty listed properties (growth of the      *)
(* specification toward the whole library).  Texts are sequences of        *)
(* Unicode scalar values.                                                  *)
(*   - login / header timestamps MMDDHHMMSS (cmpp.TimeStamp2Str,           *)
(*     cmpp.GenConnectTimestamp, sgip.Timestamp)                            *)
(*   - sgip.FixSGIPMobile, smpp.GenerateSourceAddress*/GenerateDestAddress  *)
(*   - smpp.IsDeliveryReceipt / IsLongMO (esm_class bits)                   *)
(*   - cmpp.RemoveSign / ParseSignature on well-formed signed contents      *)
EXTENDS Integers, Sequences, FiniteSets

\* ---- timestamps: month*10^8 + day*10^6 + hour*10^4 + minute*100 + second
Stamp(mo, d, h, mi, s) == mo * 100000000 + d * 1000000 + h * 10000 + mi * 100 + s
RECURSIVE P10(_)
P10(n) == IF n = 0 THEN 1 ELSE 10 * P10(n - 1)
Dec10(v) == [i \in 1..10 |-> 48 + ((v \div P10(10 - i)) % 10)]

\* ---- SGIP mobile numbers carry the country code 86
StartsWith(s, p) == Len(s) >= Len(p) /\ SubSeq(s, 1, Len(p)) = p
FixMobile(m) == IF StartsWith(m, <<56, 54>>) THEN m
                ELSE IF StartsWith(m, <<43, 56, 54>>) THEN Tail(m)
                ELSE <<56, 54>> \o m

\* ---- SMPP address typing: all digits and >= 10 characters: international/ISDN (1,1);
\*      all digits, shorter: network specific (3,0); anything else: alphanumeric (5,0)
IsDigits(s) == Len(s) > 0 /\ \A i \in 1..Len(s) : s[i] \in 48..57
SourceTonNpi(addr) == IF IsDigits(addr) THEN (IF Len(addr) >= 10 THEN <<1, 1>> ELSE <<3, 0>>) ELSE <<5, 0>>

\* ---- esm_class: bits 5..2 = 0001 delivery receipt; bits 7..6 = 01 UDHI (long MO)
IsReceipt(esm) == (esm \div 4) % 16 = 1
IsLongMO(esm) == esm \div 64 = 1

\* ---- signatures: 【sig】body, [sig]body, body【sig】, body[sig]
LB == 12304   RB == 12305   LS == 91   RS == 93
NoBrackets(s) == \A i \in 1..Len(s) : s[i] \notin {LB, RB, LS, RS}
Signed(l, r, sig, body, prefix) == IF prefix THEN <<l>> \o sig \o <<r>> \o body ELSE body \o <<l>> \o sig \o <<r>>
=============================================================================
