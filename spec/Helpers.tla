------------------------------- MODULE Helpers ------------------------------
(* Public helpers outside the twenty listed properties (growth of the      *)
(* specification toward the whole library).  Texts are sequences of        *)
(* Unicode scalar values.                                                  *)
(*   - login / header timestamps MMDDHHMMSS (cmpp.TimeStamp2Str,           *)
(*     cmpp.GenConnectTimestamp, sgip.Timestamp)                            *)
(*   - sgip.FixSGIPMobile, smpp.GenerateSourceAddress*/GenerateDestAddress  *)
(*   - smpp.IsDeliveryReceipt / IsLongMO (esm_class bits)                   *)
(*   - cmpp.RemoveSign / ParseSignature on well-formed signed contents      *)
EXTENDS Integers, Sequences, FiniteSets

\* ---- timestamps: month*10^8 + day*10^6 + hour*10^4 + minute*100 + second
Stamp(mo, d, h, mi, s) == mo * 100000000 + d * 1000000 + h * 10000 + mi * 100 + s
RECURSIVE P10(_)
P10(n) == IF n = 0 THEN 1 ELSE 10 * P10(n - 1)
Dec10(v) == [i \in 1..10 |-> 48 + ((v \div P10(10 - i)) % 10)]

\* ---- SGIP mobile numbers carry the country code 86
StartsWith(s, p) == Len(s) >= Len(p) /\ SubSeq(s, 1, Len(p)) = p
FixMobile(m) == IF StartsWith(m, <<56, 54>>) THEN m
                ELSE IF StartsWith(m, <<43, 56, 54>>) THEN Tail(m)
                ELSE <<56, 54>> \o m

\* ---- SMPP address typing: all digits and >= 10 characters: international/ISDN (1,1);
\*      all digits, shorter: network specific (3,0); anything else: alphanumeric (5,0)
IsDigits(s) == Len(s) > 0 /\ \A i \in 1..Len(s) : s[i] \in 48..57
SourceTonNpi(addr) == IF IsDigits(addr) THEN (IF Len(addr) >= 10 THEN <<1, 1>> ELSE <<3, 0>>) ELSE <<5, 0>>

\* ---- esm_class: bits 5..2 = 0001 delivery receipt; bits 7..6 = 01 UDHI (long MO)
IsReceipt(esm) == (esm \div 4) % 16 = 1
IsLongMO(esm) == esm \div 64 = 1

\* ---- signatures: 【sig】body, [sig]body, body【sig】, body[sig]
LB == 12304   RB == 12305   LS == 91   RS == 93
NoBrackets(s) == \A i \in 1..Len(s) : s[i] \notin {LB, RB, LS, RS}
Signed(l, r, sig, body, prefix) == IF prefix THEN <<l>> \o sig \o <<r>> \o body ELSE body \o <<l>> \o sig \o <<r>>

\* ---- the data-coding registry (datacoding/codec_cmpp.go, codec_smpp.go): which numbers are codings of a protocol, what
\*      goes on the wire for them, which text codec stands behind them, and the preference order of the batch encoder
\*      (Batch!PrioSeq: an earlier entry has the smaller Priority()).  99 is the library's own number for packed GSM 7-bit;
\*      on the wire it is 0.  An undefined number: wire value 255, name UNKNOWN, no codec (Get*Codec: UCS-2 instead).
RegOrder(proto) == IF proto = "CMPP" THEN <<9, 8, 15, 0>> ELSE <<8, 0, 3, 1, 99>>
RegValid(proto) == { RegOrder(proto)[i] : i \in 1..Len(RegOrder(proto)) }
RegRank(proto, c) == CHOOSE i \in 1..Len(RegOrder(proto)) : RegOrder(proto)[i] = c
RegWire(proto, c) == IF c \notin RegValid(proto) THEN 255 ELSE IF proto = "SMPP" /\ c = 99 THEN 0 ELSE c
RegName(proto, c) ==
  IF c \notin RegValid(proto) THEN "UNKNOWN"
  ELSE IF proto = "CMPP" THEN (CASE c = 0 -> "ASCII" [] c = 8 -> "UCS2" [] c = 9 -> "UCS2_NO_SIGN" [] c = 15 -> "GBK")
  ELSE (CASE c = 0 -> "GSM7_UNPACKED" [] c = 99 -> "GSM7_PACKED" [] c = 1 -> "ASCII" [] c = 3 -> "Latin1" [] c = 8 -> "UCS2")
RegCodec(proto, c) ==
  IF c \notin RegValid(proto) THEN ""
  ELSE IF proto = "CMPP" THEN (CASE c = 0 -> "ASCII" [] c \in {8, 9} -> "UCS2" [] c = 15 -> "GB18030")
  ELSE (CASE c = 0 -> "GSM 7-bit (Unpacked)" [] c = 99 -> "GSM 7-bit (Packed)" [] c = 1 -> "ASCII" [] c = 3 -> "LATIN1" [] c = 8 -> "UCS2")
\* single-message limit and part size, in the units of the codec (septets for GSM 7-bit, octets otherwise)
RegLimits(codec) == IF codec \in {"GSM 7-bit (Unpacked)", "GSM 7-bit (Packed)"} THEN <<160, 153>> ELSE <<140, 134>>

\* ---- exported odds and ends
\* 32-bit numbers travel as <<high 16 bits, low 16 bits>>; W16(b, i): the 16-bit word at octets i, i+1
W16(b, i) == b[i] * 256 + b[i + 1]
HdrFields(b) == << W16(b, 1), W16(b, 3), W16(b, 5), W16(b, 7), W16(b, 9), W16(b, 11) >>     \* length, command, sequence
\* decimal text of hi * 65536 + lo without leaving 31 bits
RECURSIVE DecDigits(_)
DecDigits(n) == IF n < 10 THEN <<48 + n>> ELSE DecDigits(n \div 10) \o <<48 + (n % 10)>>
\* (hi*65536 + lo) = q * 10000 + r with q < 429497: q = hi*6 + (hi*5536 + lo) \div 10000 ...
Dec32(hi, lo) ==
  LET t == (hi * 5536) + lo            \* < 2^31
      q == (hi * 6) + (t \div 10000)
      r == t % 10000
  IN IF q = 0 THEN DecDigits(r)
     ELSE DecDigits(q) \o <<48 + (r \div 1000), 48 + ((r \div 100) % 10), 48 + ((r \div 10) % 10), 48 + (r % 10)>>
HexDigit(n) == IF n < 10 THEN 48 + n ELSE 87 + n
RECURSIVE HexOf(_)
HexOf(b) == IF b = <<>> THEN <<>> ELSE <<HexDigit(Head(b) \div 16), HexDigit(Head(b) % 16)>> \o HexOf(Tail(b))
\* the ten CMPP commands that have a name (request 1, 2, 4, 5, 8 and their responses)
NamedCmd(hi, lo) == hi \in {0, 32768} /\ lo \in {1, 2, 4, 5, 8}
=============================================================================
