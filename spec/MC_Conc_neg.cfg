SPECIFICATION Spec
CONSTANTS
  G = {1, 2}
  Ops = 2
  PutEarly = TRUE
  ResetOnError = TRUE
  LazyInit = "once"
  MayFail = TRUE
INVARIANTS Independent Exclusive HeldNotPooled PoolClean NoBlindRead
CHECK_DEADLOCK FALSE
