SPECIFICATION Spec
CONSTANTS
  G = {1, 2}
  Ops = 2
  PutEarly = TRUE
INVARIANTS Independent Exclusive
CHECK_DEADLOCK FALSE
