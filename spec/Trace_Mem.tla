------------------------------- MODULE Trace_Mem ----------------------------
(* Trace validation of real histories of encode / decode / String / split / *)
(* UCS-2 helper / frame-extractor calls, with the caller scribbling over    *)
(* every input buffer after decoding and over every returned output, and    *)
(* the driver comparing every earlier result with its snapshot after every  *)
(* step.  Each event is an action of Mem (CopyOut = DecodeCopies = TRUE);   *)
(* the results the driver saw change must be among those Mem allows to      *)
(* change: the ones the caller overwrote itself, and views.                 *)
EXTENDS Mem, Json, IOUtils

VARIABLES l, dead, nviol, rmap, imap
tvars == <<l, dead, nviol, rmap, imap>>
Trace == ndJsonDeserialize(IOEnv.VERIF_TRACE)
NoMap == [x \in {} |-> 0]
TraceInit == MInit /\ l = 1 /\ dead = TRUE /\ nviol = 0 /\ rmap = NoMap /\ imap = NoMap

\* calls whose result is octets (or a string) handed to the caller: PDU encoders, String(), the splitters, the
\* UCS-2 helper, the text codecs and GSM 7-bit functions, the batch encoder, the packet-building helpers
ByteResults == {"Encode", "String", "Split", "Ucs2", "Codec", "Build", "Helper"}

Act(e) ==
  CASE e.ev \in ByteResults -> Encode(1)
    [] e.ev = "NewInput" -> NewInput
    [] e.ev = "Decode" -> Decode(IF e.i = 0 THEN Reader ELSE imap[e.i])
    [] e.ev = "Scribble" -> Scribble(imap[e.i])
    [] e.ev = "Refill" -> Scribble(Reader)
    [] e.ev = "ScribbleResult" -> ScribbleResult(rmap[e.r])
    [] e.ev = "FrameDecode" -> FrameDecode
    [] e.ev = "Forget" -> Forget(rmap[e.r])

MakesResult(e) == e.ev \in ByteResults \cup {"Decode", "FrameDecode"}

Bad(e) ==
  (IF \E id \in { e.changed[k] : k \in 1..Len(e.changed) } :
        id \in DOMAIN rmap /\ rmap[id] \in DOMAIN results /\ ~(rmap[id] \in touched' \/ results[rmap[id]].view)
     THEN {"C12.result_changed"} ELSE {})
  \cup (IF MakesResult(e) /\ ~e.same THEN {"C12.result_differs"} ELSE {})
  \* overwriting a result changed the text the caller had passed in: the result was the caller's input memory
  \cup (IF e.ev = "ScribbleResult" /\ ~e.same THEN {"C12.result_aliases_input"} ELSE {})
  \* the parts of one split are results of their own: overwriting one (up to its capacity) does not reach another
  \cup (IF e.ev = "ScribbleResult" /\ "shared" \in DOMAIN e /\ e.shared THEN {"C12.results_share_memory"} ELSE {})

Reset ==
  /\ Trace[l].ev = "Start"
  /\ bufs' = [b \in 1..NPool |-> [owner |-> "pool", val |-> 0]] @@ ((NPool + 1) :> [owner |-> "reader", val |-> 0])
  /\ results' = [r \in {} |-> 0] /\ tick' = NPool + 2 /\ touched' = {}
  /\ rmap' = NoMap /\ imap' = NoMap /\ dead' = FALSE /\ UNCHANGED nviol

Live ==
  /\ Trace[l].ev # "Start" /\ ~dead
  /\ LET e == Trace[l] IN
       /\ Act(e)
       /\ rmap' = IF MakesResult(e) THEN rmap @@ (e.r :> tick) ELSE rmap
       /\ imap' = IF e.ev = "NewInput" THEN imap @@ (e.i :> tick) ELSE imap
       /\ LET bad == Bad(e) IN
            /\ bad # {} => PrintT(<<"VIOL", e.t, l, bad>>)
            /\ dead' = (bad # {})
            /\ nviol' = nviol + (IF bad # {} THEN 1 ELSE 0)

Skip == Trace[l].ev # "Start" /\ dead /\ UNCHANGED <<mvars, dead, nviol, rmap, imap>>

TraceNext ==
  \/ /\ l <= Len(Trace) /\ (Reset \/ Live \/ Skip) /\ l' = l + 1
  \/ /\ l = Len(Trace) + 1 /\ PrintT(<<"DONE", Len(Trace), nviol>>) /\ l' = l + 1
     /\ UNCHANGED <<mvars, dead, nviol, rmap, imap>>
TraceSpec == TraceInit /\ [][TraceNext]_<<mvars, tvars>>
TraceInv == dead \/ NoAlias
=============================================================================
