SPECIFICATION MCSpec
CONSTANTS
  MaxOut = 2
  BindFixed = FALSE
INVARIANTS Paired Quiescent
CHECK_DEADLOCK FALSE
