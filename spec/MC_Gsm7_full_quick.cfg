SPECIFICATION GSpec
CONSTANTS
  Alpha <- FullAlpha
  MaxLen = 2
  MidGuard = FALSE
INVARIANTS StreamIsDef LenOK RoundTripN FillIsCR ImplAllowed
CHECK_DEADLOCK FALSE
