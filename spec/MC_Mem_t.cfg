SPECIFICATION MSpec
CONSTANTS
  CopyOut = TRUE
  DecodeCopies = TRUE
  NPool = 2
  MaxSteps = 7
  MaxLive = 3
INVARIANT NoAlias
PROPERTY Frame
CHECK_DEADLOCK FALSE
