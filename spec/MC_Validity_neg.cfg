SPECIFICATION Spec
CONSTANTS
  SPM = 3
  MPH = 3
  HPD = 3
  DayCap = 4
  DayMod = 3
INVARIANT Exact
CHECK_DEADLOCK FALSE
