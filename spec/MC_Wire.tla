------------------------------- MODULE MC_Wire ------------------------------
(* The reference codec of Wire checked against the property it serves, on  *)
(* ALL generic layouts of at most MaxItems items drawn from every field    *)
(* kind (scaled widths) and ALL well-formed assignments over a small octet *)
(* alphabet.  State machine of one codec run: idle -> encoded -> decoded.  *)
(* CutBinary = TRUE models a decoder that reads fixed binary slots as      *)
(* C-strings (what the library did for the 16-octet authenticators): the   *)
(* negative configuration.                                                 *)
EXTENDS Wire

CONSTANTS MaxItems, CutBinary

VARIABLES fs, p, img, dec, phase
wvars == <<fs, p, img, dec, phase>>

ItemKinds == {"U1", "U2", "F", "FB", "C", "NL", "ZB"}
Oct == {0, 1, 2}
NZ == {1, 2}
Strs(alpha, n) == UNION { [1..k -> alpha] : k \in 0..n }

\* the fields of item kind k at position i (names are positional)
Nm(i, s) == "f" \o ToString(i) \o s
ItemFields(k, i) ==
  CASE k = "U1" -> << Fld(Nm(i, ""), "U", 1) >>
    [] k = "U2" -> << Fld(Nm(i, ""), "U", 2) >>
    [] k = "F"  -> << Fld(Nm(i, ""), "F", 2) >>
    [] k = "FB" -> << Fld(Nm(i, ""), "FB", 2) >>
    [] k = "C"  -> << Fld(Nm(i, ""), "C", 0) >>
    [] k = "NL" -> << Fld(Nm(i, "n"), "N", 1), Fld(Nm(i, "l"), "L", 2) >>
    [] k = "ZB" -> << Fld(Nm(i, "z"), "Z", 1), Fld(Nm(i, "b"), "B", 0) >>
    [] k = "T"  -> << Fld(Nm(i, "t"), "T", 0) >>

TlvSets == { <<>>, << [t |-> 1, v |-> <<>>] >>, << [t |-> 1, v |-> <<0>>], [t |-> 2, v |-> <<1, 0>>] >> }

\* the well-formed assignments of one item
ItemVals(k, i) ==
  CASE k = "U1" -> { (Nm(i, "") :> <<a>>) : a \in Oct }
    [] k = "U2" -> { (Nm(i, "") :> <<a, b>>) : a \in Oct, b \in Oct }
    [] k = "F"  -> { (Nm(i, "") :> s) : s \in Strs(NZ, 2) }
    [] k = "FB" -> { (Nm(i, "") :> <<a, b>>) : a \in Oct, b \in Oct }
    [] k = "C"  -> { (Nm(i, "") :> s) : s \in Strs(NZ, 2) }
    [] k = "NL" -> { (Nm(i, "n") :> <<Len(l)>>) @@ (Nm(i, "l") :> l) : l \in Strs(Strs(NZ, 1), 2) }
    [] k = "ZB" -> { (Nm(i, "z") :> <<Len(b)>>) @@ (Nm(i, "b") :> b) : b \in Strs(Oct, 2) }
    [] k = "T"  -> { (Nm(i, "t") :> x) : x \in TlvSets }

RECURSIVE LayoutOf(_, _)
LayoutOf(ks, i) == IF i > Len(ks) THEN <<>> ELSE ItemFields(ks[i], i) \o LayoutOf(ks, i + 1)
RECURSIVE AssignsOf(_, _)
AssignsOf(ks, i) == IF i > Len(ks) THEN { Empty }
                    ELSE { a @@ b : a \in ItemVals(ks[i], i), b \in AssignsOf(ks, i + 1) }

KindSeqs == UNION { [1..n -> ItemKinds] : n \in 0..MaxItems }
AllKindSeqs == KindSeqs \cup { Append(ks, "T") : ks \in KindSeqs }

MCInit ==
  /\ \E ks \in AllKindSeqs : /\ fs = LayoutOf(ks, 1)
                             /\ p \in AssignsOf(ks, 1)
  /\ img = <<>> /\ dec = [ok |-> FALSE, p |-> Empty, rest |-> <<>>, at |-> 0] /\ phase = "idle"

DecLayout == IF CutBinary THEN [i \in 1..Len(fs) |-> IF fs[i].k = "FB" THEN Fld(fs[i].n, "F", fs[i].w) ELSE fs[i]] ELSE fs

Encode == phase = "idle" /\ img' = ImageFs(fs, TRUE, p) /\ phase' = "encoded" /\ UNCHANGED <<fs, p, dec>>
Decode == phase = "encoded" /\ dec' = RefDecodeFs(DecLayout, TRUE, img) /\ phase' = "decoded" /\ UNCHANGED <<fs, p, img>>
\* every truncation of the image must be refused or stop inside the optional tail
MCNext == Encode \/ Decode
MCSpec == MCInit /\ [][MCNext]_wvars

AssignmentsWellFormed == WellFormedFs(fs, p)
PrefixIsLength == phase # "idle" => (BEVal(Take(img, 4)) = Len(img))
RoundTrip == phase = "decoded" => (dec.ok /\ dec.rest = <<>> /\ EqFs(fs, dec.p, p))
TruncationsRefused ==
  phase = "decoded" =>
    \A k \in 4..(Len(img) - 1) :
      LET d == RefDecodeFs(fs, TRUE, Take(img, k)) IN
        \/ ~d.ok
        \/ \E i \in 1..Len(fs) : fs[i].k \in {"T", "C", "B", "L"}   \* a shorter image may be a different valid PDU
=============================================================================
