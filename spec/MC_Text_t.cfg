SPECIFICATION Spec
CONSTANTS
  Kinds = {"ascii", "ucs2", "gsm7u", "gsm7p"}
  MaxLen = 7
INVARIANTS RefusesExactlyForeign Inverts ExactOutsideCarveOut
CHECK_DEADLOCK FALSE
