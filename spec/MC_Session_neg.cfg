SPECIFICATION MCSpec
CONSTANTS
  MaxOut = 2
  BindFixed = TRUE
INVARIANTS Paired Quiescent
CHECK_DEADLOCK FALSE
