SPECIFICATION Spec
CONSTANTS
  Proto = "CMPP"
  MaxCands = 4
  Codings = {0, 8, 9, 15, 7}
  TiePrio = FALSE
INVARIANT Correct
CHECK_DEADLOCK FALSE
