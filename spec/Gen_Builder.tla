------------------------------ MODULE Gen_Builder ----------------------------
(* Behaviour generator for the spec -> code direction of C09 on the builder  *)
(* object: random walks of Builder (setters and Builds in any order); the    *)
(* walk is replayed on ONE real BatchDataCodingEncoder and the recorded      *)
(* history is validated by Trace_Builder.  The environment of a Build step   *)
(* is irrelevant for generating the walk (all candidates can, one part).     *)
EXTENDS Builder, Json

CONSTANTS GenLen, Codings, NContents

VARIABLES hist
Op(a, v) == [a |-> a, v |-> v]
CandSeqs == UNION { [1..j -> Codings] : j \in 0..3 }
AllCan(p) == [c \in Valid(p) |-> TRUE]
OnePart(p) == [c \in Valid(p) |-> 1]

GenInit == BInit /\ hist = <<>>
GenNext ==
  /\ Len(hist) < GenLen
  /\ \/ \E p \in {"CMPP", "SMPP"} : SetProtocol(p) /\ hist' = Append(hist, Op("proto", <<p>>))
     \/ \E i \in 0..NContents : SetContent(i = 0) /\ hist' = Append(hist, Op("content", <<i>>))
     \/ \E s \in CandSeqs : SetCodings(s) /\ hist' = Append(hist, Op("codings", s))
     \/ \E o \in Codings \cup {-1} : SetOrigin(o) /\ hist' = Append(hist, Op("origin", <<o>>))
     \/ /\ proto # "" /\ Build(AllCan(proto), OnePart(proto), TRUE) /\ hist' = Append(hist, Op("build", <<>>))
GenSpec == GenInit /\ [][GenNext]_<<bvars, hist>>

Emit == (Len(hist) = GenLen) => PrintT(<<"BEH", ToJson([steps |-> hist])>>)
=============================================================================
