------------------------------- MODULE Bytes -------------------------------
(* Octet-sequence helpers shared by every specification module.            *)
(* Wire integers of width >= 4 are carried as big-endian octet sequences   *)
(* because TLC integers are 32-bit signed.                                 *)
EXTENDS Integers, Sequences, FiniteSets

Octet == 0..255

Zeros(n) == [i \in 1..n |-> 0]
Rep(x, n) == [i \in 1..n |-> x]

Take(s, n) == IF n >= Len(s) THEN s ELSE IF n <= 0 THEN <<>> ELSE SubSeq(s, 1, n)
Drop(s, n) == IF n >= Len(s) THEN <<>> ELSE IF n <= 0 THEN s ELSE SubSeq(s, n + 1, Len(s))

IsPrefixOf(p, s) == Len(p) <= Len(s) /\ \A i \in 1..Len(p) : p[i] = s[i]

\* index of the first occurrence of x in s, 0 if absent
IndexOf(s, x) ==
  IF \E i \in 1..Len(s) : s[i] = x
  THEN CHOOSE i \in 1..Len(s) : s[i] = x /\ \A j \in 1..(i-1) : s[j] # x
  ELSE 0

HasNul(s) == \E i \in 1..Len(s) : s[i] = 0

\* C-string reading of a fixed slot: cut at the first NUL
CutAtNul(s) == LET i == IndexOf(s, 0) IN IF i = 0 THEN s ELSE Take(s, i - 1)

\* s NUL-padded on the right to n octets (requires Len(s) <= n)
PadTo(s, n) == s \o Zeros(n - Len(s))

\* big-endian octets of a small non-negative integer (v < 2^31) on k octets
RECURSIVE BE(_, _)
BE(v, k) == IF k = 0 THEN <<>> ELSE BE(v \div 256, k - 1) \o << v % 256 >>

\* value of a big-endian octet sequence (only for results < 2^31)
RECURSIVE BEVal(_)
BEVal(s) == IF s = <<>> THEN 0 ELSE BEVal(Take(s, Len(s) - 1)) * 256 + s[Len(s)]

RECURSIVE Concat(_)
Concat(ss) == IF ss = <<>> THEN <<>> ELSE Head(ss) \o Concat(Tail(ss))

RECURSIVE SumLens(_)
SumLens(ss) == IF ss = <<>> THEN 0 ELSE Len(Head(ss)) + SumLens(Tail(ss))

AllOctets(s) == \A i \in 1..Len(s) : s[i] \in Octet

Min(a, b) == IF a < b THEN a ELSE b
Max(a, b) == IF a > b THEN a ELSE b
=============================================================================
