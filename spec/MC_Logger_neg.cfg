SPECIFICATION MSpec
CONSTANTS
  Sinks = {1, 2}
  MaxSteps = 3
  LevelCmp <- CmpNeg
INVARIANTS OneLineToCurrent WrittenIff QuietSteps
CHECK_DEADLOCK FALSE
