------------------------------- MODULE Frame -------------------------------
(* Stream framing (codec.CMPPCodec / codec.SMPPCodec): a byte stream that  *)
(* is a concatenation of length-prefixed frames arrives in arbitrary       *)
(* pieces at a ConnReader; Decode (non-blocking) and DecodeBlocked extract *)
(* frames.                                                                 *)
(*                                                                         *)
(* Abstract layer (what C04 demands): OutPrefix, Conserved, the action     *)
(* properties IncompleteConsumesNothing and NoPartialFrame.                *)
(* Implementation-shaped layer: the peek-4 / compare-with-Size / peek-n /  *)
(* discard-n sequence of Decode and the read-4 / read-(n-4) sequence of    *)
(* DecodeBlocked, as the two actions below.  `LowerBound` switches the     *)
(* lower bound on the prefix: TRUE is what the property requires, FALSE    *)
(* what the code did before the fix (negative configuration).              *)
(* `Remember` = TRUE gives the extractor a memory: the length parsed by a   *)
(* Decode that reported "incomplete" is kept in the codec value (`pending`) *)
(* and trusted by the next Decode without looking at the prefix again -     *)
(* wrong as soon as the codec value serves another stream or DecodeBlocked  *)
(* has consumed the frame in between (negative configuration; the code      *)
(* keeps nothing, Remember = FALSE).                                        *)
EXTENDS Bytes, TLC

CONSTANTS LowerBound, Remember

VARIABLES
  sent,     \* the complete frames the sender put on the wire, in order (constant per behaviour)
  stream,   \* octets not yet arrived
  buf,      \* octets arrived and not yet consumed (ConnReader.Size() = Len(buf))
  out,      \* frames returned so far
  fault,    \* how the stream ends: "eof" | "err"
  pending,  \* the codec value's memory between calls (0: nothing); it outlives a stream (NextStream)
  res       \* result of the last call: [k |-> "none"|"frame"|"incomplete"|"err"|"emptyframe", f |-> octets]

vars == <<sent, stream, buf, out, fault, pending, res>>

Huge == 2147483647
\* value of a 4-octet big-endian prefix, saturated (TLC integers are 32-bit)
PLen(q) == IF q[1] >= 128 THEN Huge ELSE BEVal(q)

Res(k, f) == [k |-> k, f |-> f]

FrameInit(frames, tail, flt) ==
  /\ sent = frames
  /\ stream = Concat(frames) \o tail
  /\ buf = <<>> /\ out = <<>> /\ fault = flt /\ res = Res("none", <<>>) /\ pending = 0

\* the network delivers k more octets
Arrive(k) ==
  /\ k \in 1..Len(stream)
  /\ buf' = buf \o Take(stream, k) /\ stream' = Drop(stream, k)
  /\ res' = Res("none", <<>>)
  /\ UNCHANGED <<sent, out, fault, pending>>

\* non-blocking extraction
Decode ==
  /\ UNCHANGED <<sent, stream, fault>>
  /\ IF Len(buf) < 4 /\ ~(Remember /\ pending > 0)
       THEN /\ res' = Res("incomplete", <<>>) /\ UNCHANGED <<buf, out, pending>>
       ELSE LET n == IF Remember /\ pending > 0 THEN pending ELSE PLen(Take(buf, 4)) IN
            IF LowerBound /\ n < 4
              THEN /\ res' = Res("err", <<>>) /\ UNCHANGED <<buf, out, pending>>
              ELSE IF Len(buf) < n
                THEN /\ res' = Res("incomplete", <<>>) /\ UNCHANGED <<buf, out>>
                     /\ pending' = IF Remember THEN n ELSE 0
                ELSE /\ res' = Res("frame", Take(buf, n))
                     /\ buf' = Drop(buf, n)
                     /\ out' = Append(out, Take(buf, n))
                     /\ pending' = 0

\* blocking extraction, run to completion over whatever arrives; j = how many of the
\* octets left over after the frame are already buffered afterwards
DecodeBlocked(j) ==
  /\ UNCHANGED <<sent, fault, pending>>
  /\ LET avail == buf \o stream IN
     IF Len(avail) < 4
       THEN /\ res' = Res("err", <<>>) /\ buf' = <<>> /\ stream' = <<>> /\ UNCHANGED out
       ELSE LET n == PLen(Take(avail, 4)) IN
            IF n < 4
              THEN \* the code before the fix panics here (left[4:] with len < 4)
                   /\ res' = Res(IF LowerBound THEN "err" ELSE "panic", <<>>)
                   /\ buf' = <<>> /\ stream' = <<>> /\ UNCHANGED out
              ELSE IF Len(avail) < n
                THEN /\ res' = Res("err", <<>>) /\ buf' = <<>> /\ stream' = <<>> /\ UNCHANGED out
                ELSE LET rest == Drop(avail, n) IN
                     /\ j \in 0..Len(rest)
                     /\ Len(rest) - j <= Len(stream)      \* nothing un-arrives
                     /\ res' = Res("frame", Take(avail, n))
                     /\ buf' = Take(rest, j) /\ stream' = Drop(rest, j)
                     /\ out' = Append(out, Take(avail, n))

\* the same codec value goes on to serve another connection (the old one ended, possibly with a frame pending)
NextStream(frames, tail, flt) ==
  /\ sent' = frames /\ stream' = Concat(frames) \o tail
  /\ buf' = <<>> /\ out' = <<>> /\ fault' = flt /\ res' = Res("none", <<>>)
  /\ UNCHANGED pending

----------------------------------------------------------------------------
(* What C04 demands                                                        *)

IsPrefixSeq(p, s) == Len(p) <= Len(s) /\ \A i \in 1..Len(p) : p[i] = s[i]

\* exactly the frames sent, in order, octet for octet
OutPrefix == IsPrefixSeq(out, sent)

\* a returned frame is never empty and never shorter than its own prefix
NoShortFrame == res.k = "frame" => Len(res.f) >= 4
NoPanic == res.k # "panic"

\* the extractors consume exactly the bytes of the frames they returned
Drained == res.k \in {"err", "panic"} /\ buf = <<>> /\ stream = <<>>
Conserved(orig) == Drained \/ Concat(out) \o buf \o stream = orig

IncompleteConsumesNothing ==
  [][res'.k = "incomplete" => (buf' = buf /\ out' = out)]_vars

\* the blocking extractor returns an error, never a partial frame
NoPartialFrame ==
  [][res'.k = "frame" => (Len(out') = Len(out) + 1 /\ IsPrefixSeq(out', sent))]_vars
=============================================================================
