SPECIFICATION MCSpec
CONSTANTS
  W <- MCW
  SW <- MCSWneg
  DW <- MCDW
INVARIANTS SplitIsSpec RoundTrip StrRoundTrip
PROPERTIES Identity
CHECK_DEADLOCK FALSE
