SPECIFICATION CSpec
CONSTANTS
  SampleTypes = {}
  ListAsCStrings = TRUE
INVARIANTS SamplesWellFormed BodyIsWire ImageIsWire ReadsInvert WireDecodes
CHECK_DEADLOCK FALSE
