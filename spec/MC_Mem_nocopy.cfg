SPECIFICATION MSpec
CONSTANTS
  CopyOut = FALSE
  DecodeCopies = TRUE
  NPool = 2
  MaxSteps = 5
  MaxLive = 3
PROPERTY Frame
CHECK_DEADLOCK FALSE
