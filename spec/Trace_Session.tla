---------------------------- MODULE Trace_Session ---------------------------
(* Trace validation of real request/response exchanges: constructors,      *)
(* SetSequenceID, IEncode, the per-protocol dispatchers, GenEmptyResponse.  *)
(* The session state (outstanding requests, messages in flight) is the     *)
(* state of Session; every event is one of its actions with logged         *)
(* arguments.  Monitor mode as in Trace_Packet.                            *)
EXTENDS Session, Json, IOUtils

VARIABLES l, dead, nviol, pkg
tvars == <<l, dead, nviol, pkg>>
Trace == ndJsonDeserialize(IOEnv.VERIF_TRACE)
TraceInit == SInit /\ l = 1 /\ dead = TRUE /\ nviol = 0 /\ pkg = ""

T(c, tag) == IF c THEN {tag} ELSE {}
Msg(bytes) == [cmd |-> CmdOf(bytes), sid |-> SeqOf(pkg, bytes)]
\* the word SetSequenceID / GetSequenceID speak about (SGIP: the third word)
SeqWord(bytes) == IF pkg = "sgip12" THEN SubSeq(bytes, 17, 20) ELSE SeqOf(pkg, bytes)

Act(e) ==
  CASE e.ev = "Send"  -> Send(CmdOf(e.bytes), SeqOf(pkg, e.bytes))
    [] e.ev = "SRecv" -> UNCHANGED svars
    [] e.ev = "Reply" -> IF Msg(e.reqbytes) \in c2s /\ ~e.rnil /\ Len(e.rbytes) >= HdrLen(pkg)
                           THEN Reply(Msg(e.reqbytes), CmdOf(e.rbytes), SeqOf(pkg, e.rbytes))
                           ELSE UNCHANGED svars
    [] e.ev = "CRecv" -> IF Msg(e.bytes) \in s2c THEN ClientRecv(Msg(e.bytes)) ELSE UNCHANGED svars
    [] e.ev = "Disp"  -> UNCHANGED svars
    [] e.ev = "Helper" -> UNCHANGED svars
    [] e.ev = "Again" -> UNCHANGED svars

Bad(e) ==
  CASE e.ev = "Send" ->
         T(e.getseq # e.v \/ SeqWord(e.bytes) # e.v, "C10.seq_visible")
         \cup T(e.built # "user" /\ e.getcmd # CmdOf(e.bytes), "C10.command_honest")
    [] e.ev = "SRecv" ->
         T(e.dtype = "nilnil", "C10.dispatch.nilnil")
         \cup T(e.dtype # "nilnil" /\ e.dtype # Dispatch(pkg, CmdOf(e.bytes)), "C10.dispatch")
         \cup T(e.dtype \in Types /\ e.getcmd # CmdOf(e.bytes), "C10.command_honest")
    [] e.ev = "Reply" ->
         IF e.rnil THEN {"C10.pairing.no_response"}
         ELSE T(e.rtype # RespType(e.type), "C10.pairing.type")
              \cup T(CmdOf(e.rbytes) # RespCmd(CmdOf(e.reqbytes)), "C10.pairing.command")
              \cup T(SeqOf(pkg, e.rbytes) # SeqOf(pkg, e.reqbytes), "C10.pairing.sequence")
              \cup T(e.rgetcmd # CmdOf(e.rbytes), "C10.command_honest")
    [] e.ev = "CRecv" ->
         T(e.dtype = "nilnil", "C10.dispatch.nilnil")
         \cup T(e.dtype # "nilnil" /\ e.dtype # Dispatch(pkg, CmdOf(e.bytes)), "C10.dispatch")
         \cup T(e.dtype \in Types /\ e.getcmd # CmdOf(e.bytes), "C10.command_honest")
         \cup T(e.dtype \in Types /\ ~e.gennil, "C10.response_generates")
         \cup T(Cardinality({ o \in outstanding : Matches(o, Msg(e.bytes)) }) # 1, "C10.pairing.unmatched")
    [] e.ev = "Again" ->   \* a request encoded once more after it has been answered
         T(e.getcmd # CmdOf(e.bytes), "C10.command_honest")
         \cup T(e.dtype # "nilnil" /\ e.dtype # Dispatch(pkg, CmdOf(e.bytes)), "C10.dispatch")
         \cup T(e.dtype \in Types /\ e.dtype # e.type, "C10.dispatch.same_type")
    [] e.ev = "Helper" ->
         \* a packet-building helper promises a type: the octets must carry that type's command id and dispatch to it
         T(CmdOf(e.bytes) \notin CmdsOf(e.want) \/ e.dtype # e.want, "C10.helper")
    [] e.ev = "Disp" ->
         T(e.res = "nilnil", "C10.dispatch.nilnil")
         \cup T(e.res # "nilnil" /\ e.res # Dispatch(e.pkg, e.cmd), "C10.dispatch")

Reset ==
  /\ Trace[l].ev = "Start"
  /\ outstanding' = {} /\ c2s' = {} /\ s2c' = {}
  /\ pkg' = Trace[l].pkg /\ dead' = FALSE /\ UNCHANGED nviol

Live ==
  /\ Trace[l].ev # "Start" /\ ~dead
  /\ LET e == Trace[l] IN
       /\ Act(e)
       /\ LET bad == Bad(e) IN
            /\ bad # {} => PrintT(<<"VIOL", e.t, l, bad>>)
            /\ dead' = (bad # {})
            /\ nviol' = nviol + (IF bad # {} THEN 1 ELSE 0)
  /\ UNCHANGED pkg

Skip == Trace[l].ev # "Start" /\ dead /\ UNCHANGED <<svars, dead, nviol, pkg>>

TraceNext ==
  \/ /\ l <= Len(Trace) /\ (Reset \/ Live \/ Skip) /\ l' = l + 1
  \/ /\ l = Len(Trace) + 1 /\ PrintT(<<"DONE", Len(Trace), nviol>>) /\ l' = l + 1
     /\ UNCHANGED <<svars, dead, nviol, pkg>>
TraceSpec == TraceInit /\ [][TraceNext]_<<svars, tvars>>
ASSUME TablesOK
=============================================================================
