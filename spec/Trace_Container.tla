---------------------------- MODULE Trace_Container --------------------------
(* Trace validation of histories on one real container (smpp.TLVs or         *)
(* smgp.Options): New / Put are the actions of Container; Ser, Len and Udhi  *)
(* are observations that must describe the specification's current content.  *)
EXTENDS Container, Json, IOUtils

VARIABLES l, dead, nviol
tvars == <<l, dead, nviol>>
Trace == ndJsonDeserialize(IOEnv.VERIF_TRACE)
TraceInit == CInit /\ l = 1 /\ dead = TRUE /\ nviol = 0
T(c, tag) == IF c THEN {tag} ELSE {}

Act(e) == IF e.ev = "Put" THEN Put(e.tag, e.v) ELSE UNCHANGED cvars

Bad(e) ==
  CASE e.ev = "Put" -> T(e.panic, "C16.container.panic")
    [] e.ev = "Ser" -> IF e.panic THEN {"C16.container.panic"} ELSE T(~IsSerialisation(e.out), "C16.container.serialize")
    [] e.ev = "Len" -> T(e.n # (IF e.kind = "smgp" THEN SerialLen ELSE Cardinality(DOMAIN m)), "C16.container.len")
    [] e.ev = "Udhi" -> IF e.panic THEN {"C16.accessor.panic"} ELSE T(e.out # Udhi, "C16.accessor")

Reset == Trace[l].ev = "New" /\ New /\ dead' = FALSE /\ UNCHANGED nviol
Live ==
  /\ Trace[l].ev # "New" /\ ~dead
  /\ LET e == Trace[l] IN
       /\ Act(e)
       /\ LET bad == Bad(e) IN
            /\ bad # {} => PrintT(<<"VIOL", e.t, l, bad>>)
            /\ dead' = (bad # {})
            /\ nviol' = nviol + (IF bad # {} THEN 1 ELSE 0)
Skip == Trace[l].ev # "New" /\ dead /\ UNCHANGED <<cvars, dead, nviol>>
TraceNext ==
  \/ /\ l <= Len(Trace) /\ (Reset \/ Live \/ Skip) /\ l' = l + 1
  \/ /\ l = Len(Trace) + 1 /\ PrintT(<<"DONE", Len(Trace), nviol>>) /\ l' = l + 1 /\ UNCHANGED <<cvars, dead, nviol>>
TraceSpec == TraceInit /\ [][TraceNext]_<<cvars, tvars>>
=============================================================================
