----------------------------- MODULE Trace_Logger ----------------------------
(* Trace validation of histories on the real package-level loggers: every   *)
(* recorded step is the corresponding action of Logger, and what the step   *)
(* wrote - output by output, stdlog header removed - must be exactly what   *)
(* the action writes.  Tags X.logger.* : specification drift outside the    *)
(* listed properties, reported in the evidence, never a verdict.            *)
(* Deviation of the code that is modelled as it is: Build looks for UCS-2   *)
(* among the candidates by comparing with the SMPP constant, so a CMPP      *)
(* candidate list never "has UCS-2" and always gets the fallback message.   *)
EXTENDS Logger, Json, IOUtils, TLC

Cmp(c, lv) == c <= lv
VARIABLES l, dead, nviol
tvars == <<l, dead, nviol>>
Trace == ndJsonDeserialize(IOEnv.VERIF_TRACE)
TraceInit == level = 0 /\ sink = 1 /\ silent = FALSE /\ last = <<>> /\ l = 1 /\ dead = TRUE /\ nviol = 0
T(c, tag) == IF c THEN {tag} ELSE {}

DriverFile == <<102, 97, 109, 95, 108, 111, 103, 103, 101, 114, 46, 103, 111>>              \* fam_logger.go
BatchFile == <<98, 97, 116, 99, 104, 101, 110, 99, 111, 100, 101, 114, 46, 103, 111>>      \* batchencoder.go

\* (the driver builds CMPP-typed candidates for protocol CMPP and SMPP-typed ones for every other protocol name)
HasUcs2(e) == e.proto # "CMPP" /\ \E i \in 1..Len(e.cands) : e.cands[i] = 8
Kind(e) ==
  IF e.empty \/ Len(e.cands) = 0 THEN "invalid"
  ELSE IF e.anycan THEN "ok"
  ELSE IF HasUcs2(e) THEN "fail"
  ELSE IF e.proto \in {"SMPP", "CMPP"} THEN "fallback" ELSE "noproto"

Act(e) ==
  CASE e.ev = "SetLevel" -> SetLevel(e.lv)
    [] e.ev = "SetOutput" -> SetOutput(e.k)
    [] e.ev = "SetSilent" -> SetSilent(e.b)
    [] e.ev = "Log" -> Log(e.who, e.style, e.lv, e.text, e.hasargs, e.n, e.engine, e.b)
    [] e.ev = "Build" -> BuildLog(Kind(e))

Wrote(e) == [i \in 1..Len(e.wrote) |-> [sink |-> e.wrote[i].sink, line |-> e.wrote[i].line]]
Bad(e) ==
  T(\E i \in 1..Len(e.wrote) : ~e.wrote[i].hdr, "X.logger.header")
  \cup T((\A i \in 1..Len(e.wrote) : e.wrote[i].hdr) /\ Wrote(e) # last', "X.logger.written")
  \cup T(\E i \in 1..Len(e.wrote) : e.wrote[i].hdr /\ e.wrote[i].file # (IF e.ev = "Build" THEN BatchFile ELSE DriverFile), "X.logger.caller_file")
  \cup T(e.ev = "Build" /\ e.err # (Kind(e) \in {"invalid", "fail", "noproto"} \/ (Kind(e) = "fallback" /\ ~e.ucs2can)), "X.logger.build_outcome")

Reset == Trace[l].ev = "Start" /\ dead' = FALSE /\ UNCHANGED nviol
         /\ level' = 0 /\ sink' = 1 /\ silent' = FALSE /\ last' = <<>>
Live ==
  /\ Trace[l].ev # "Start" /\ ~dead
  /\ LET e == Trace[l] IN
       /\ Act(e)
       /\ LET bad == Bad(e) IN
            /\ bad # {} => PrintT(<<"VIOL", e.t, l, bad>>)
            /\ dead' = (bad # {})
            /\ nviol' = nviol + (IF bad # {} THEN 1 ELSE 0)
Skip == Trace[l].ev # "Start" /\ dead /\ UNCHANGED <<lvars, dead, nviol>>

TraceNext ==
  \/ /\ l <= Len(Trace) /\ (Reset \/ Live \/ Skip) /\ l' = l + 1
  \/ /\ l = Len(Trace) + 1 /\ PrintT(<<"DONE", Len(Trace), nviol>>) /\ l' = l + 1 /\ UNCHANGED <<lvars, dead, nviol>>
TraceSpec == TraceInit /\ [][TraceNext]_<<lvars, tvars>>
=============================================================================
