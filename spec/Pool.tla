-------------------------------- MODULE Pool --------------------------------
(* The buffer-pool discipline of Conc.tla reduced to sets and functions, so  *)
(* that Apalache can check that the conjunction of its invariants is         *)
(* INDUCTIVE: it holds after any number of steps, not only within TLC's      *)
(* bounds (goroutines and buffer names are fixed finite sets).               *)
(* held[g] = 0 means goroutine g holds no buffer.  Conc refines this module  *)
(* (Refine_Conc.tla, checked by TLC), and the real code is bound to Conc by  *)
(* trace validation of the pool events.                                      *)
(*   apalache-mc check --cinit=ConstInit --init=Init    --inv=IndInv --length=0 *)
(*   apalache-mc check --cinit=ConstInit --init=IndInit --inv=IndInv --length=1 *)
(* ConstInitNeg (an error path that does not reset the buffer) must FAIL.    *)
EXTENDS Integers, FiniteSets

CONSTANTS
  \* @type: Set(Int);
  G,
  \* @type: Set(Int);
  B,
  \* @type: Bool;
  ResetOnError

VARIABLES
  \* @type: Set(Int);
  pool,
  \* @type: Int -> Int;
  held,
  \* @type: Set(Int);
  dirty,
  \* @type: Set(Int);
  made        \* buffers that exist (allocated so far)

pvars == <<pool, held, dirty, made>>

ConstInit == G = {1, 2, 3} /\ B = {1, 2, 3, 4} /\ ResetOnError = TRUE
ConstInitNeg == G = {1, 2, 3} /\ B = {1, 2, 3, 4} /\ ResetOnError = FALSE

Init == pool = {} /\ held = [g \in G |-> 0] /\ dirty = {} /\ made = {}

\* sync.Pool: a pooled buffer or a new one at any time
Get(g, b) ==
  /\ held[g] = 0
  /\ \/ b \in pool /\ made' = made
     \/ b \notin made /\ made' = made \cup {b}
  /\ pool' = pool \ {b}
  /\ held' = [held EXCEPT ![g] = b]
  /\ dirty' = dirty
Write(g) == held[g] # 0 /\ dirty' = dirty \cup {held[g]} /\ UNCHANGED <<pool, held, made>>
\* Release resets the buffer before it goes back
Put(g) ==
  /\ held[g] # 0
  /\ pool' = pool \cup {held[g]} /\ dirty' = dirty \ {held[g]}
  /\ held' = [held EXCEPT ![g] = 0] /\ made' = made
\* the error path must do the same
Fail(g) ==
  /\ held[g] # 0
  /\ pool' = pool \cup {held[g]}
  /\ dirty' = IF ResetOnError THEN dirty \ {held[g]} ELSE dirty \cup {held[g]}
  /\ held' = [held EXCEPT ![g] = 0] /\ made' = made

Next == \E g \in G : (\E b \in B : Get(g, b)) \/ Write(g) \/ Put(g) \/ Fail(g)

TypeOK == pool \subseteq B /\ dirty \subseteq B /\ made \subseteq B /\ held \in [G -> B \cup {0}]
Exclusive == \A g1, g2 \in G : (g1 # g2 /\ held[g1] # 0) => held[g1] # held[g2]
HeldNotPooled == \A g \in G : held[g] # 0 => held[g] \notin pool
PoolClean == pool \cap dirty = {}
Accounted == pool \subseteq made /\ \A g \in G : held[g] # 0 => held[g] \in made
IndInv == TypeOK /\ Exclusive /\ HeldNotPooled /\ PoolClean /\ Accounted
IndInit ==
  /\ pool \in SUBSET B /\ dirty \in SUBSET B /\ made \in SUBSET B /\ held \in [G -> B \cup {0}]
  /\ IndInv
=============================================================================
