------------------------------ MODULE Gen_Session ----------------------------
(* Behaviour generator for the spec -> code direction of C10: random walks   *)
(* of Session for one package (requests sent, answered and acknowledged in   *)
(* any interleaving); the walk is replayed with the real constructors,       *)
(* dispatchers and GenEmptyResponse, and the recorded exchange is validated  *)
(* by Trace_Session like any other.                                          *)
EXTENDS Session, Json

CONSTANTS GenLen, MaxOut

VARIABLES hist, pkg, n
gvars == <<hist, pkg, n>>

Pkgs == {"cmpp20", "cmpp30", "sgip12", "smgp30", "smpp34"}
ReqTypes(p) == { t \in PkgTypes(p) : RespType(t) # "" }
Sids == { <<0, 0, 0, 0>>, <<0, 0, 0, 1>>, <<127, 255, 255, 255>>, <<128, 0, 0, 0>>, <<255, 255, 255, 255>>, <<18, 52, 86, 120>> }
Step(a, t, c, s, k) == [a |-> a, type |-> t, cmd |-> c, sid |-> s, k |-> k]

GenInit == SInit /\ hist = <<>> /\ pkg \in Pkgs /\ n = 0

GenNext ==
  /\ Len(hist) < GenLen
  /\ \/ \E t \in ReqTypes(pkg), s \in Sids : \E c \in CmdsOf(t) :
          /\ Cardinality(outstanding) < MaxOut
          /\ \A o \in outstanding : o.sid # s
          /\ Send(c, s)
          /\ n' = n + 1
          /\ hist' = Append(hist, Step("S", t, c, s, n + 1))
     \/ \E m \in c2s : /\ Reply(m, RespCmd(m.cmd), m.sid)
                       /\ hist' = Append(hist, Step("R", "", m.cmd, m.sid, 0)) /\ UNCHANGED n
     \/ \E r \in s2c : /\ ClientRecv(r)
                       /\ hist' = Append(hist, Step("C", "", r.cmd, r.sid, 0)) /\ UNCHANGED n
  /\ UNCHANGED pkg
GenSpec == GenInit /\ [][GenNext]_<<svars, gvars>>

Emit == (Len(hist) = GenLen) => PrintT(<<"BEH", ToJson([pkg |-> pkg, steps |-> hist])>>)
=============================================================================
